"""Which functions under contract and which bounded runner decide each property."""
RQ = "cooler.core._rangequery"
SEL = "cooler.core._selectors"

PLAN = {
    "C03": dict(
        targets=[f"{RQ}:_comes_before", f"{RQ}:_contains", f"{RQ}:arg_prune_partition",
                 f"{RQ}:CSRReader.get_spans", f"{RQ}:CSRReader.__call__",
                 f"{RQ}:FillLowerRangeQuery2D.__init__", f"{RQ}:DirectRangeQuery2D.__init__",
                 f"{SEL}:_IndexingMixin._process_slice", f"{SEL}:_IndexingMixin._unpack_index"],
        bounded=None,
        level="proof",
    ),
}
