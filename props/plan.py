"""Which functions under contract (prover) and which bounded runner decide each property.

``targets``  functions of /repo whose bodies are symbolically executed against their sidecar
             contracts (obligations discharged by z3/cvc5: counted as proof obligations)
``bounded``  run-time-contract runner on the real code over an enumerated small scope
             (labelled stand-in; never counted as proved)
"""
RQ = "cooler.core._rangequery"
SEL = "cooler.core._selectors"
UT = "cooler.util"
CR = "cooler.create._create"
ING = "cooler.create._ingest"
RED = "cooler._reduce"
API = "cooler.api"
BAL = "cooler._balance"
PAR = "cooler.parallel"
FOP = "cooler.fileops"
TOP = "cooler.core._tableops"

TECH = ("contract-based deductive verification: VCs generated from the real AST (pyvc symbolic executor, "
        "sidecar contracts, loop invariants, ghost state, lemmas) discharged by z3/cvc5; counterexamples "
        "replayed on the real code; bounded run-time contracts as labelled stand-in")

COMMON_TRUST = ("Trusted: assumed library contracts (numpy/pandas/h5py primitives named in evidence.trusted_base), "
                "mathematical integers for int64 arithmetic below 2^52, z3/cvc5, the executor's encoding of Python "
                "(DESIGN.md s1.2). The bounded tier is a stand-in for code not under contract and is never counted "
                "in obligations/discharged.")

PLAN = {}


def P(pid, targets, bounded, text, note=None, level="proof", unverified=()):
    PLAN[pid] = dict(targets=targets, bounded=bounded, level=level, level_text=text,
                     level_note=(note + " " if note else "") + COMMON_TRUST, technique=TECH,
                     unverified=list(unverified))


P("C01", [f"{UT}:rlencode", f"{CR}:index_pixels", f"{CR}:create_cooler", f"{CR}:create", f"{CR}:write_pixels", f"{TOP}:get",
          f"{API}:pixels", f"{API}:Cooler.pixels", f"{CR}:create_from_unordered", f"{ING}:ArrayLoader.__iter__"], "bounded/C01.py",
  "Proof core shared with C02 (index construction for every pixel column and chunking). create() itself is verified as a coordinator over a ghost operation log (every helper and h5py call replaced by a recording stub; 41 configurations of mode/append/root-or-nested target/check flags/input forms/single-cell append, symbolic paths, counts and symmetric flag): the caller's "
  "pixels are what is validated and streamed, once, into <group>/pixels; the callers' bins are what is written; columns "
  "are the ids followed by the requested value columns with the caller's dtypes overriding the defaults; assembly and "
  "metadata reach the info record verbatim. The write/read round trip through real HDF5 files is covered by the "
  "bounded tier (all small matrices x input forms x dtypes x metadata documents). write_pixels (the append loop every producer goes through) is verified with ghost dataset contents for EVERY number of chunks and chunk lengths: each pixel column ends up as the concatenation of that column over the chunks in order, its length is the returned nnz (pre-allocated rows dropped when nothing arrived), the returned total is the sum of the count column (integer and float configurations), only the target group of the target file is touched, always opened r+. The read side: Cooler.pixels() is a selector over nnz rows whose slicer performs one read of the collection's own pixels group with the caller's bounds, fields and join flag; api.pixels reads exactly rows [lo, hi) of the requested columns (default: ids first, then every stored value column once) and, when joining, annotates them with the whole bin table (coordinators; get has its own contract). The dense-array loader (ArrayLoader.__iter__) is verified for every matrix size, content and chunk size: one chunk per row span of util.partition, listing exactly the non-zero upper-triangle cells of its rows, each once, in row-major order, with its value.",
  unverified=["write_bins / write_chroms / write_info bodies (HDF5 I/O; stubs in the create contract)",
              "numpy.nonzero on a 2-D block (assumed by the ArrayLoader contract: exactly the non-zero cells, row-major)", "pandas sort_values (assumed: sorts by both keys)"],
  level="other")

P("C02", [f"{UT}:rlencode", f"{CR}:index_pixels", f"{CR}:index_bins", f"{CR}:create_cooler", f"{CR}:create", f"{CR}:write_pixels"], "bounded/C02.py",
  "Proof: the chunked run-length encoder behind both offset indexes is verified for every input array and EVERY "
  "chunk size (the carry of the last value across each block boundary is a loop invariant; constancy of runs by an "
  "induction lemma); index_pixels / index_bins are proved to build exactly the lower-bound (run-length) index of the sorted key column on top of rlencode's contract. create() itself is verified as a coordinator over a ghost operation log (every helper and h5py call replaced by a recording stub; 41 configurations of mode/append/root-or-nested target/check flags/input forms/single-cell append, symbolic paths, counts and symmetric flag): index_bins and index_pixels are called once, after the pixels are written, on the bin table and pixel table just written under the target group with the bin count and the nnz that write_pixels returned; both results are stored under <group>/indexes; the info record is written last and carries exactly nbins = len(bins), nchroms, the written nnz and sum, the inferred bin size and the storage mode. Producer outputs are re-derived with raw h5py by the bounded tier. write_pixels (the append loop every producer goes through) is verified with ghost dataset contents for EVERY number of chunks and chunk lengths: each pixel column ends up as the concatenation of that column over the chunks in order, its length is the returned nnz (pre-allocated rows dropped when nothing arrived), the returned total is the sum of the count column (integer and float configurations), only the target group of the target file is touched, always opened r+.",
  unverified=["write_info (adds format/version/date attributes)", "producer stream order (merge/coarsen)", "prepare_pixels body (HDF5 I/O)", "h5py Dataset.resize / slice assignment (assumed by the ghost-dataset stub)"])

P("C03", [f"{RQ}:_comes_before", f"{RQ}:_contains", f"{RQ}:arg_prune_partition",
          f"{RQ}:CSRReader.get_spans", f"{RQ}:CSRReader.__call__",
          f"{RQ}:FillLowerRangeQuery2D.__init__", f"{RQ}:DirectRangeQuery2D.__init__",
          f"{SEL}:_IndexingMixin._process_slice", f"{SEL}:_IndexingMixin._unpack_index",
          f"{SEL}:RangeSelector2D.__getitem__", f"{SEL}:RangeSelector2D.fetch", f"{API}:matrix", f"{API}:Cooler.matrix",
          f"{RQ}:concat", f"{RQ}:transpose", f"{RQ}:spmatrix_slice_from_dict", f"{RQ}:array_slice_from_dict",
          f"{RQ}:frame_slice_from_dict", f"{RQ}:BaseRangeQuery2D.get", f"{RQ}:BaseRangeQuery2D.to_sparse_matrix",
          f"{RQ}:BaseRangeQuery2D.to_array", f"{RQ}:BaseRangeQuery2D.to_frame"],
  "bounded/C03.py",
  "Proof: every obligation generated from the real source of the range-query engine (case split of "
  "FillLowerRangeQuery2D, CSRReader row loop with column mask and reflection, span pruning, slice normalisation) is "
  "discharged for all windows, all n, all chunk sizes; the exactly-once lemma C03-L1 is a postcondition of the real "
  "constructors over the contracts of get_spans and CSRReader.__call__.",
  unverified=["scipy.sparse.coo_matrix / toarray and pandas.DataFrame constructors (assumed by structural stubs)", "to_sparse_array / to_delayed / to_dask_frame (optional dependencies)",
              "the _slice/_fetch closures built by Cooler.matrix (their single calls are covered by the Cooler.matrix contract)"])

P("C04", [f"{RQ}:_region_to_extent", f"{RQ}:region_to_extent", f"{RQ}:region_to_offset", "cooler.api:Cooler.extent",
           "cooler.api:Cooler.offset", "cooler.api:Cooler.bins._fetch", "cooler.api:Cooler.pixels._fetch", "cooler.api:Cooler.matrix._fetch",
           f"{SEL}:RangeSelector1D.fetch", f"{SEL}:RangeSelector2D.fetch",
           f"{UT}:parse_region", f"{UT}:get_binsize"], "bounded/C04.py",
  "Proof of the extent arithmetic for all bin tables, chromosomes and ranges (fixed path relative to the C20 "
  "'fixed' predicate, variable path over the searchsorted contract), of parse_region's defaults/bounds/refusals, and "
  "of the public wrappers region_to_extent / region_to_offset / Cooler.extent / Cooler.offset, each checked against "
  "its callee's contract (modular), under the representation invariant of a Cooler object for the chromosome named. "
  "The fetch closures of the three selectors are under contract too (nested functions, the Cooler object as free variable): bins()._fetch returns the C04 extent, "
  "pixels()._fetch the pixel rows [bin1_offset[i0], bin1_offset[i1]) of that extent, matrix()._fetch the extents of the first range on the rows and of the "
  "second range (the first when none is given) on the columns; each refuses exactly what parse_region refuses.",
  note="FDIV64 (float floor/ceil of integer quotients); parse_region_string assumed in the prover (C19 bounded); "
       "Cooler invariant (cached ids/lengths agree with the stored table, recorded bin size truthful) is a precondition.",
  unverified=["GenomeSegmentation.fetch / bedslice", "open_hdf5 (assumed: yields the file handle; h5[root] is the collection's group)"])

P("C05", [f"{ING}:_sanitize_pixels", f"{ING}:aggregate_records", f"{UT}:get_binsize", "cooler.cli.load:load", "cooler.cli.cload:pairs"], "bounded/C05.py",
  "Proof core: the pre-binned-record sanitizer is verified per record for all chunks: one-based shift by exactly one, "
  "mirroring of lower-triangle records together with their sided fields, drop keeps exactly the upper records in order, "
  "raise refuses exactly when a lower-triangle record exists. The loaders' glue (cli.load, cli.cload pairs) is under coordinator contracts: which file column feeds which field, which sanitizer with which one-based / triangle handling, every chunk through it (shared with C16). aggregate_records (coordinator): records are grouped by both bin ids and each pixel's count is the SIZE of its group - every retained record counted exactly once - unless the caller aggregates a count column itself. The genomic-record sanitizer (_sanitize_records: bin "
  "assignment) is covered by the bounded tier only (records on every bin edge through API, load, cload pairs, cload tabix).", level="other",
  unverified=["_sanitize_records (bin assignment)", "pandas groupby(...).aggregate('size') (assumed by the aggregate_records stub: size = number of rows of the group)", "TabixAggregator.aggregate"])

P("C06", [f"{RED}:merge_breakpoints", f"{RED}:CoolerMerger.__iter__", f"{CR}:create_from_unordered"], "bounded/C06.py",
  "Proof core: the merge-epoch partition (merge_breakpoints: bisect loop with invariant and variant, for k = 1,2,3 input indexes and every buffer size) ends exactly where every input is exhausted and is strictly increasing. Bounded stand-in for the rest (all small record multisets x partitions x orders x mergebuf x max_merge). The merge loop itself (CoolerMerger.__iter__, k = 1,2,3 inputs, merge_breakpoints applied by contract) is verified with the invariant starts[i] == index_i[P[t]]: each epoch reads from every input exactly the slice between two consecutive boundaries - cut only at row offsets, so a bin1 row is never split - every input with records in an epoch is read in it exactly once, inputs contribute in order, the epoch is the sorted groupby(bin1_id, bin2_id).aggregate(agg) of their concatenation, and at the end every input is read to its nnz: every input record is read exactly once for every buffer size. create_from_unordered itself (the external sort) is verified for EVERY number of chunks n, max_merge and buffer size with two loop invariants over structured ghost lists: the i-th chunk - and nothing else - is written in append mode to temporary collection i; when a first merge level is built its j-th group merges exactly the sort-pass collections edges[j]..edges[j+1]-1 in order, where edges runs from 0 to n without going back (the groups tile the chunks: none lost, none twice); ONE final merger over all collections of the last level, in order, with the caller's buffer and columns, is streamed into the caller's URI with the caller's mode; temporary files are created delete-on-close. An undecided or refuted clause is replayed by running the real function on real files over a family of chunk counts x max_merge against the in-memory aggregate.",
  level="other", unverified=["pandas concat / groupby / aggregate (assumed by the merge-loop stubs)", "tempfile.NamedTemporaryFile deletion at garbage collection (bounded: directory listing after runs)", "numpy.linspace(dtype=int) (assumed: first = 0, last = n, non-decreasing)"])

P("C07", [f"{RED}:merge_breakpoints", f"{RED}:CoolerMerger.__init__", f"{RED}:CoolerMerger.__iter__", f"{RED}:merge_coolers",
          f"{UT}:get_binsize", f"{ING}:_validate_pixels", f"{CR}:write_pixels", f"{CR}:_check_fits_dtype"], "bounded/C07.py",
  "Proof core: merge_breakpoints (shared with C06); write_pixels (the append loop the merged stream goes through) is verified with ghost dataset contents for EVERY number of chunks and chunk lengths: each pixel column is the concatenation of the chunks in order, its length is the returned nnz, the returned total is the sum of the count column in the integer AND the float configuration (no truncation of float sums); the store converts integer values to the column type (a value that does not fit is stored as something else) and the proof that each column is nevertheless the EXACT concatenation goes through only because every value is range-checked, unconverted, against the target column's dtype first - ValueError only when a value really does not fit (a stored value is never silently different from the exact aggregate). The range check itself (_check_fits_dtype) is verified on its real body: ValueError exactly when some integer value lies outside the limits of the integer dtype it is given. The merge loop itself (CoolerMerger.__iter__, k = 1,2,3 inputs, merge_breakpoints applied by contract) is verified with the invariant starts[i] == index_i[P[t]]: each epoch reads from every input exactly the slice between two consecutive boundaries - cut only at row offsets, so a bin1 row is never split - every input with records in an epoch is read in it exactly once, inputs contribute in order, the epoch is the sorted groupby(bin1_id, bin2_id).aggregate(agg) of their concatenation, and at the end every input is read to its nnz: every input record is read exactly once for every buffer size. CoolerMerger.__init__ accepts the inputs iff they share the bin table (fixed size: same size and same chromosome names AND lengths as the first input; variable: same table row for row), and merge_coolers (k = 2,3) puts all inputs in order into one merger with the caller's buffer/columns/agg, creates the output from the first input's bins and assembly with that merger as stream, is symmetric iff all inputs are (mixed refused), requires every requested column in every input and gives it the caller's dtype or numpy.result_type over ALL inputs. Bounded stand-in for the rest (all small input families x mergebuf x orders x nestings x dtype limits).",
  level="other", unverified=["pandas concat / groupby-sum, table equality, numpy.result_type (assumed by the stubs)", "integer overflow inside pandas group-by sum (known finding)"])

P("C08", [f"{RED}:_greedy_prune_partition", f"{RED}:CoolerCoarsener.__init__", f"{RED}:CoolerCoarsener._aggregate", f"{RED}:CoolerCoarsener.__iter__", f"{RED}:coarsen_cooler", f"{UT}:get_binsize"], "bounded/C08.py",
  "Proof core: CoolerCoarsener.__init__ builds, for every chromosome layout, factor and chunk size, a pixel partition whose every edge is the offset of a coarse-row start (bin1_offset[chrom_offset[c] + g*factor]) or nnz (loop invariant with ghost witnesses; Cooler/GenomeSegmentation by assumed models), and _greedy_prune_partition keeps only values of that edge list, ordered, from 0 to nnz - so no coarse row is ever split across spans; get_binsize (which decides the re-binning path) is truthful (C20). Bounded stand-in for the rest (all small coolers x factors x chunk sizes x workers against a block-aggregate model). CoolerCoarsener._aggregate (where each fine pixel goes) is verified for every chunk, chromosome layout, bin size and factor k >= 2: for both ends of every pixel the new bin id is new_chrom_offset[c] + (fine_id - old_chrom_offset[c]) div k - the coarse bin containing the fine bin - on the fixed-width path (floor(start/(k*binsize)); nonlinear quotient/remainder lemma as hint) and on the variable-width path (searchsorted over the absolute starts of the coarse bins; hint chain), the rows read are exactly the span, and the chunk is grouped by the new key, sorted, and aggregated with the coarsener's functions. CoolerCoarsener.__iter__ (coordinator, 0..5 spans with symbolic edges, batch sizes 1..3): the spans are the consecutive edge pairs, handed to the worker map in consecutive batches, each exactly once, and the stream yields one chunk per span IN SPAN ORDER; the lock is held around a batch iff batchsize > 1 and always released.",
  level="other", unverified=["the worker map (assumed: results in input order, as builtin map and Pool.map)", "pandas groupby/aggregate and the joined pixel selector (assumed by the _aggregate stubs)", "coarsen_bins (bin table construction; pandas groupby/apply)"])

P("C09", [f"{RED}:get_multiplier_sequence", f"{RED}:zoomify_cooler", f"{RED}:coarsen_cooler", f"{RED}:CoolerCoarsener.__iter__", "cooler.fileops:is_multires_file", "cooler.fileops:list_coolers"], "bounded/C09.py",
  "Proof core: the zoom plan (three loops with invariants and a variant): every non-base resolution is derived from the LARGEST smaller member dividing it with multiplier >= 2, a supplied base is never re-derived, and a non-derivable member is refused exactly. Bounded stand-in for the rest (plan level: all subsets of resolutions x bases; file level against direct coarsening). zoomify_cooler (coordinator, four concrete plans - chain, fan-out with an extra value column, two interleaved bases, base only - with symbolic file names, chunk size and options; the plan comes from get_multiplier_sequence's contract): the output is truncated exactly once and re-opened r+ afterwards, inputs are only read; every base level is a copy of its own input's chroms, bins, requested pixel columns, indexes and attributes under /resolutions/<binsize>; every planned non-base level is produced by exactly one coarsen_cooler call, in plan order, from the predecessor and with the factor the plan names, inside the output in r+ mode; base levels are never re-derived; the file is finally marked HDF5::MCOOL. is_multires_file / list_coolers over a ghost tree with symbolic format attributes: recognised iff the root is marked MCOOL and the first resolution is a collection (False, not an error, otherwise); every resolution that is a collection is listed once.",
  level="other", unverified=["zoomify_cooler for plans other than the four verified shapes (its loops do not depend on the plan length)", "coarsen_bins (bin table construction)"])

P("C10", [f"{BAL}:_init", f"{BAL}:_binarize", f"{BAL}:_zero_diags", f"{BAL}:_zero_trans", f"{BAL}:_zero_cis", f"{BAL}:_timesouterproduct", f"{BAL}:balance_cooler"], "bounded/C10.py", "Proof core: the per-pixel filters of the balancing pipeline are verified elementwise for every chunk (which pixels are zeroed: |bin1-bin2| < n_diags strictly, trans / cis by the chromosome of the two bins; binarisation; weighting by vec[bin1]*vec[bin2]) together with their frame (no filter writes the shared chunk; _init returns a fresh copy). balance_cooler itself is verified as a coordinator (sweeps and the split engine replaced by recording stubs; all nnz, bin counts, thresholds, chunk sizes, modes): the binarised marginal pass runs iff min_nnz > 0 and every pass uses exactly the requested filters; the initial bias handed to the sweeps is 0 exactly for the bins with nnz-marginal < min_nnz or (min_count set and) count-marginal < min_count and 1 otherwise; exactly one balancer runs, chosen by mode, with the caller's arguments; converged is var < tol; store replaces only bins/<name> and attaches the returned stats. The MAD-max block, x0 and blacklist (excluded by the contract's precondition), the sweeps and the flatness bound are covered by the bounded tier only.", level="other",
  unverified=["_marginalize (bincount)", "_balance_genomewide/_cisonly/_transonly loops (floating-point iteration)", "balance_cooler: MAD-max block, x0, blacklist"])

P("C11", [f"{UT}:partition", f"{BAL}:_init", f"{BAL}:_zero_diags", f"{BAL}:_timesouterproduct", f"{BAL}:balance_cooler",
          "cooler.parallel:split", "cooler.parallel:chunkgetter.__call__", "cooler.parallel:apply_pipeline",
          "cooler.parallel:MultiplexDataPipe.pipe", "cooler.parallel:MultiplexDataPipe.run", "cooler.parallel:MultiplexDataPipe.reduce"], "bounded/C11.py", "Proof core: balance_cooler's chunk spans tile [0, nnz) for EVERY chunk size (first span at 0, consecutive spans of exactly chunksize pixels, ceil(nnz/chunksize) of them, the last reaches nnz, none starts at or beyond nnz; a single span for chunksize=None) and every marginal pass and the balancer receive the same spans, the caller's map and lock (coordinator contract, shared with C10); util.partition tiles [start, stop) exactly for every step (the per-chromosome spans of cis-only balancing); the per-pixel filters never write the shared chunk. The split-apply-combine engine is under coordinator contracts: split's keys are the caller's spans (default: partition(0, nnz, chunksize)); pipe() returns a NEW pipe with the filters appended and never shares or changes the receiver's filter list; run() hands the pipe's own filters, initialiser, getter and exactly its keys to the map once; apply_pipeline fetches the key once and threads ONE pristine chunk and each predecessor's output through the filters in order; chunkgetter reads exactly rows [lo, hi) of the pixel table once (lock held around the read when requested, nothing remembered between calls); reduce is functools.reduce of the run's results with the caller's operator from init. Real maps, pools and completion orders are explored by the bounded tier.", level="other",
  unverified=["the map functor itself (assumed: applies the function to every key exactly once)", "functools.reduce (assumed left fold)", "process pools / completion order (concurrency is outside contracts)"])

P("C12", [f"{API}:matrix", f"{API}:Cooler.matrix", f"{API}:annotate", "cooler.cli.dump:make_annotator.annotator", f"{RQ}:CSRReader.__call__"], "bounded/C12.py",
  "Proof: api.matrix (sparse and dense outputs) multiplies every raw value by the weight of its own row bin and its own column bin from the selected column (reciprocals when divisive; rows from [i0,i1), columns from [j0,j1) also when the ranges differ, incl. the aliasing shortcut for equal ranges), refuses a missing column with ValueError, and builds the fill-lower engine iff asked with the window as bounding box (engine outputs by assumed model; their content is C03's exactly-once lemma and the CSRReader.__call__ contract, included). Cooler.matrix is proved to pass every option through, with the divisive default exactly for KR/VC/VC_SQRT when the caller passed None and fill_lower = symmetric-upper. The balanced pixel-table branch is under contract as well: the weights are looked up for the engine's own records in THIS collection's bin table, column = the selected name, and the added 'balanced' column is value x weight[bin1] x weight[bin2] (reciprocals when divisive) with raw values and ids untouched; join annotates the same frame afterwards. The lookup itself is api.annotate, verified as a function over pandas frames for every pixel order, every contiguous part of the bin table and the selector form: each pixel gets the columns of its own two bins. The annotator of `cooler dump -b` (make_annotator.annotator) is verified the same way: balanced = count x weight[bin1] x weight[bin2]. NaN propagation through * and / is assumed (IEEE), not modelled.", level="other",
  unverified=["Cooler(h5).bins()[[name]] inside api.matrix (assumed: selector over that column of this group's bin table)"])

P("C13", [f"{ING}:_validate_pixels", f"{CR}:create", f"{CR}:write_pixels"], "bounded/C13.py", "Proof core: the default validator accepts a chunk iff it has no out-of-range id, no lower-triangle pixel (symmetric mode) and no in-chunk duplicate, raises BadInputError exactly otherwise, and returns the records unchanged (pandas duplicated/sort_values by assumed contract). create() itself is verified as a coordinator over a ghost operation log (every helper and h5py call replaced by a recording stub; 41 configurations of mode/append/root-or-nested target/check flags/input forms/single-cell append, symbolic paths, counts and symmetric flag): the validator is chained onto the caller's pixel stream iff any check is requested, with the bin count and exactly the requested checks (triangularity only in symmetric mode); a refused call opens no file; every write lies inside the target group of the target file; the info record is written once and last, so a stream that fails has left no info record. write_pixels (the append loop every producer goes through) is verified with ghost dataset contents for EVERY number of chunks and chunk lengths: each pixel column ends up as the concatenation of that column over the chunks in order, its length is the returned nnz (pre-allocated rows dropped when nothing arrived), the returned total is the sum of the count column (integer and float configurations), only the target group of the target file is touched, always opened r+. What an interrupted write leaves on disk is covered by the bounded tier (fault injection at every chunk index).", level="other",
  unverified=["what a mid-stream exception leaves on disk (write_pixels is proved for complete streams only)", "is_cooler on the partial file (bounded)"])

P("C14", [f"{SEL}:_IndexingMixin._process_slice", f"{SEL}:RangeSelector1D.__getitem__", f"{SEL}:RangeSelector1D.fetch", f"{TOP}:get",
          f"{API}:Cooler.chroms", f"{API}:Cooler.bins", f"{API}:Cooler.pixels", f"{API}:chroms", f"{API}:bins", f"{API}:pixels", f"{API}:annotate"], "bounded/C14.py",
  "Proof core: slice/scalar normalisation of every table selector for all integer bounds, and the table read (get: rows lo..hi-1 of every requested plain column, labelled lo.., independent of the column selection, Series for a single name). The glue between them is under coordinator contracts: "
  "Cooler.chroms()/bins()/pixels() build selectors over nchroms/nbins/nnz rows whose slicer performs ONE read of the right table of the collection's own group with the "
  "caller's fields, bounds, join flag and reader options; api.chroms/bins/pixels read exactly rows [lo, hi) of the caller's fields (default: standard columns first, then every other "
  "stored column once), api.bins converts an integer chromosome column to the names stored in this collection's chroms/name (codes = the column read) unless convert_enum=False, "
  "api.pixels(join=True) annotates the rows read with the whole bin table's coordinates. api.annotate itself is verified as a function over pandas frames (assumed pandas contracts: "
  "label slice of a consecutive integer index, positional take with wrap-around of negative positions, rename, drop, concat of equally long frames): for EVERY pixel order, pixel index, "
  "column set (row id only, column id only, both, extra columns), replace flag, and for the bin table given whole, as any contiguous part containing the needed bins, or as a selector, "
  "each pixel gets the columns of its own two bins in front, the pixel columns, order and index are kept.", level="other",
  unverified=["_tableops.get bytes decoding (astype(U))", "pandas Index.append/drop_duplicates, Categorical.from_codes (assumed by stubs)"])

P("C15", [f"{UT}:parse_cooler_uri", "cooler.fileops:_copy", "cooler.fileops:_is_cooler", "cooler.fileops:is_cooler", "cooler.fileops:list_coolers", f"{CR}:create"], "bounded/C15.py",
  "Proof core: URI splitting for all strings, and the branch logic of fileops._copy (behind cp/mv/ln) over a ghost "
  "operation log of two h5py handles, for all flag combinations, group paths and same/different files: the "
  "destination file is opened for truncation iff it is absent or overwrite was asked, the source is never opened "
  "for truncation, every write creates exactly the destination group (or, for a root destination across files, "
  "its four children and attributes), the only thing ever deleted is the source group of a move, a refused "
  "combination writes nothing.  h5py's own semantics (hard link, deep copy, soft/external link) are assumed. "
  "The recognition test: _is_cooler is true iff the group's format attribute is the cooler magic string; is_cooler(uri) is true exactly when the file is HDF5, "
  "the group path resolves and the group is a collection, and is False - never an error - for a non-HDF5 file, a missing path or a dangling link; read-only. "
  "create() (coordinator contract over the same kind of log): the first open uses the requested mode - write by default, "
  "append when asked - and every later open is r+; with a nested target exactly the target group is deleted, iff it "
  "existed, and created afresh; with a root target exactly the existing ones of the four tables are deleted; every "
  "write lies inside the target group. list_coolers (with visititems, TreeNode.get_children and _is_cooler executed inline) over a ghost TREE - four concrete shapes incl. collections nested below "
  "one another with datasets in between, every group's format attribute symbolic: the listing holds exactly the groups that are collections (root and any depth), each once, in natural order; OSError for a non-HDF5 file; read-only. "
  "Sequences of operations on real files are explored by the bounded tier.", level="other",
  unverified=["cp/mv/ln (one-line wrappers of _copy)", "list_coolers for tree shapes other than the four verified (the walk is recursive; no induction over the tree)",
              "h5py link/copy semantics (assumed by the operation-log model)"])

P("C16", [f"{ING}:_sanitize_pixels", f"{ING}:_validate_pixels", f"{RQ}:FillLowerRangeQuery2D.__init__", f"{RQ}:DirectRangeQuery2D.__init__",
          "cooler.cli.dump:dump", "cooler.cli.dump:make_annotator.annotator", "cooler.cli.load:load", "cooler.cli.cload:pairs"], "bounded/C16.py", "Proof core: the pieces of the dump/load paths that are under contract - the query engines dump iterates (exactly-once lemma, shared with C03) and the pre-binned-record sanitizer and validator cooler load runs every chunk through (shared with C05/C13). cli.dump (pixel table) is under a coordinator contract (all flags, regions, storage mode, chunk size symbolic): the box is the whole matrix without regions, the extent of -r on both axes with -r alone, the extents of -r (rows) and -r2 (columns) with both, each looked up with this cooler's ids, lengths and bin size; the lower triangle is filled iff --fill-lower was given and the cooler is symmetric-upper wherever the box reaches below the diagonal; every engine chunk is written once, in order, through the annotator iff an annotation option was given (built from this cooler's bins and exactly the flags), -c applied after annotation, header once iff asked. The annotator (nested function) is verified over pandas frames: balanced = count x weight[bin1] x weight[bin2], join replaces ids by the coordinates of the pixel's own bins, the one-based flags add exactly one to the ids / starts present. The loaders `cooler load` and `cooler cload pairs` are under coordinator contracts over families of column layouts (defaults, value column moved, ids swapped / moved behind the value columns, descending interleaved, extra columns with dtypes and aggregations; parse_field_param executed inline): pandas reads exactly one file column per field and the NAME attached to file column c is the field the user put at c (names attach in ascending file order: assumed contract of read_csv); stored columns, dtypes and aggregations as given; the right sanitizer for the format with the one-based flag and reflect/drop by copy status and symmetry; every chunk goes through sanitizer (then aggregator) into the ingest with the caller's paths, mode and options. Text formatting and the zoomify spec expansion are covered by the bounded tier (all 128 dump option subsets, all column permutations).",
  level="other", unverified=["to_csv / read_csv text handling", "cli.dump chroms/bins tables", "column layouts other than the verified families (the mapping code does not depend on the layout)", "zoomify spec loop"])

P("C17", [f"{CR}:create", f"{CR}:create_scool", "cooler.fileops:is_scool_file", "cooler.fileops:list_scool_cells"], "bounded/C17.py", "Proof core: the per-cell append path of create() (create() itself is verified as a coordinator over a ghost operation log (every helper and h5py call replaced by a recording stub; 41 configurations of mode/append/root-or-nested target/check flags/input forms/single-cell append, symbolic paths, counts and symmetric flag)): a cell's chroms table and its three standard bin columns are hard links to the ROOT tables of the single-cell file named by scool_root_uri (no table is written again), its own extra bin columns - exactly the non-standard columns of the cell's bin table - are stored per cell under <cell>/bins, its pixels, indexes and info are written as for any collection, the root file is never truncated, and append_scool without a root URI is refused. create_scool itself (coordinator, 1..3 cells given in an insertion order different from the sorted one, common or per-cell bin tables): every cell gets exactly one per-cell create at <file>::/cells/<name> with ITS OWN pixels and ITS OWN bin table, appended and linked to this file's root; the root gets the common chroms, the three standard bin columns and a scool info record with ncells = number of cells; the file is created with the caller's mode once; a bins dict with other keys than the cells is refused. (A name containing '/' is stored under its basename: known finding, refuted clause.) is_scool_file / list_scool_cells over a ghost tree (root, /chroms, /bins, /cells with three cells whose names mix digit-initial and letter-initial names; every format attribute symbolic): recognised iff the root carries the scool format and every cell is a collection; the listing names exactly the cells (root excluded), each once, in natural order, and never fails on mixed names; OSError otherwise. Larger cell sets and reading back are covered by the bounded tier.", level="other",
  unverified=["is_scool_file / list_scool_cells for other tree shapes than the verified ones", "create_scool for more than 3 cells (the per-cell loop does not depend on the count)", "h5py hard-link semantics (assumed)"])

P("C18", [f"{CR}:_rename_chroms", f"{CR}:rename_chroms", "cooler.api:Cooler._refresh", "cooler.api:bins"], "bounded/C18.py",
  "Proof core: _rename_chroms over a ghost operation log of the HDF5 group, for all tables, maps and both "
  "chromosome encodings (plus the enum-header-too-large fallback): the only datasets removed or created are "
  "chroms/name and - for an enum column - bins/chrom; chroms/name afterwards holds the old names with the map "
  "applied pointwise in the original order; the bins/chrom codes written are the codes read and the enum sends "
  "the i-th new name to i; rename_chroms applies the caller's map through a writable handle and refreshes the "
  "object after closing it.  pandas rename/set_index, Series.cat.codes and h5py delete/create_dataset are assumed "
  "contracts (stubs).  Cooler._refresh (run by the constructor and after renaming): the cached name -> id map sends the i-th STORED "
  "name to i, the cached lengths are the stored length column indexed by the stored names, info comes from the same group. "
  "Chains of renamings and name-based queries on real files are explored by the bounded tier.", level="other",
  unverified=["pandas DataFrame.rename / Categorical codes (assumed)",
              "h5py dataset replacement and fixed-width string dtype (assumed)"])

P("C19", [f"{UT}:parse_humanized", f"{UT}:parse_cooler_uri", f"{UT}:parse_region"], "bounded/C19.py",
  "Proof of the numeric core of parse_humanized (exact scaling for every numeral value D/10^k and every listed unit "
  "spelling), of parse_cooler_uri over z3 strings (all strings), and of parse_region's defaults/bounds/refusals; the "
  "regex tokeniser of parse_region_string and the regex front of parse_humanized are outside the encoding and are "
  "covered by the grammar-exhaustive bounded tier (stated bound), which is not counted as proved.",
  note="re.split('([0-9,.]+)', numeral+unit) == ['', numeral, unit]; decimal.Decimal exact for <= 28 digits; z3 string theory.",
  unverified=["parse_region_string tokenizer (regex)"])

P("C20", [f"{UT}:binnify._each", f"{UT}:get_binsize", f"{UT}:get_chromsizes"], "bounded/C20.py",
  "Proof: binnify's per-chromosome generator, the bin-size inference loop (pandas groupby/unique abstraction with a "
  "symbolic set) and the chromosome-length inference are verified against the C20 statement for all tables; lemma "
  "fixed-from-widths links the loop's result to the 'every bin is [k*b, min((k+1)*b, L))' predicate.",
  note="pandas contracts (groupby on a run-sorted key, Series.unique, iloc, drop_duplicates(keep='last')), FDIV64.",
  unverified=["binnify's concat over chromosomes / Categorical", "cli.makebins", "parse_bins"])

NOT_APPLICABLE = {}
