"""Which functions under contract and which bounded runner decide each property."""
RQ = "cooler.core._rangequery"
SEL = "cooler.core._selectors"

PLAN = {
    "C03": dict(
        targets=[f"{RQ}:_comes_before", f"{RQ}:_contains", f"{RQ}:arg_prune_partition",
                 f"{RQ}:CSRReader.get_spans", f"{RQ}:CSRReader.__call__",
                 f"{RQ}:FillLowerRangeQuery2D.__init__", f"{RQ}:DirectRangeQuery2D.__init__",
                 f"{SEL}:_IndexingMixin._process_slice", f"{SEL}:_IndexingMixin._unpack_index"],
        bounded="bounded/C03.py",
        level="proof",
        level_text="Proof: every obligation generated from the real source of the range-query engine (case split of FillLowerRangeQuery2D, CSRReader row loop with column mask and reflection, span pruning, slice normalisation) is discharged by z3/cvc5 for all windows, all n, all chunk sizes; the exactly-once lemma C03-L1 is a postcondition of the real constructors over the contracts of get_spans and CSRReader.__call__. The bounded tier (all windows for n<=4/5 on real files through the public API) is a labelled stand-in for the API glue not yet under contract and is not counted in obligations/discharged.",
        level_note="Trusted: assumed numpy contracts (searchsorted, linspace(dtype=int), unique, boolean-mask indexing, concatenate/r_, arange, full) audited against real numpy; scipy coo_matrix/toarray; h5py dataset reads behave like array reads; integer arithmetic mathematical (no int64 overflow below 2^52); z3/cvc5; the executor's Python semantics. api.matrix/Cooler.matrix engine choice and BaseRangeQuery2D.get/to_* conversions are exercised by the bounded tier only.",
        unverified=["api.matrix / Cooler.matrix (engine choice, output conversion)", "BaseRangeQuery2D.get/to_array/to_sparse_matrix/to_frame", "RangeSelector2D.__getitem__/fetch"],
    ),
}

UT = "cooler.util"
PLAN["C04"] = dict(
    targets=[f"{RQ}:_region_to_extent", f"{UT}:parse_region"],
    bounded=None,
    level="proof",
    level_text="Proof of the extent arithmetic for all bin tables, chromosomes and ranges (fixed path relative to the C20 'fixed' predicate, variable path over the searchsorted contract) and of parse_region's defaults/bounds/refusals; bounded tier for the API wrappers.",
    level_note="Trusted: numpy searchsorted contract, FDIV64 (float floor/ceil of integer quotients), h5py dataset reads as array reads; parse_region_string assumed here (C19 bounded).",
)

PLAN["C20"] = dict(
    targets=[f"{UT}:binnify._each", f"{UT}:get_binsize", f"{UT}:get_chromsizes"],
    bounded=None,
    level="proof",
    level_text="Proof: binnify's per-chromosome generator, the bin-size inference loop (pandas groupby/unique abstraction with a symbolic set) and the chromosome-length inference are verified against the C20 statement for all tables; lemma fixed-from-widths links the loop's result to the 'every bin is [k*b, min((k+1)*b, L))' predicate.",
    level_note="Trusted: pandas contracts (groupby on a run-sorted key, Series.unique, iloc slices, drop_duplicates(keep='last')), numpy arange/ceil (FDIV64); binnify's concat over chromosomes and the Categorical conversion are exercised by the bounded tier only.",
)

PLAN["C19"] = dict(
    targets=[f"{UT}:parse_humanized", f"{UT}:parse_cooler_uri", f"{UT}:parse_region"],
    bounded=None,
    level="proof",
    level_text="Proof of the numeric core of parse_humanized (exact scaling for every numeral value D/10^k and every listed unit spelling), of parse_cooler_uri over z3 strings (all strings), and of parse_region's defaults/bounds/refusals; the regex tokeniser of parse_region_string and the regex front of parse_humanized are outside the encoding and are covered by the grammar-exhaustive bounded tier (stated bound), which is not counted as proved.",
    level_note="Trusted: re.split('([0-9,.]+)', numeral+unit) == ['', numeral, unit]; decimal.Decimal exact for <= 28 digits; z3 string theory for split/startswith; parse_region_string assumed in the prover (bounded tier only).",
)

NOT_APPLICABLE = {}
