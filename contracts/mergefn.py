"""Coordinator contracts for merging (C07): CoolerMerger.__init__ (compatibility of the inputs) and merge_coolers.

Verified for k = 2, 3 inputs (the checks are per-input loops that do not depend on k).  ASSUMED (stubs): Cooler
attributes (binsize, chromsizes, bins(), storage_mode, pixels().dtypes, info), pandas/numpy equality of tables
(an uninterpreted "table i equals table 0" bit per input), numpy.result_type, create()."""
from pyvc.api import *  # noqa: F401,F403
from pyvc.values import LibFunc, LibNS
from contracts.common import *  # noqa: F401,F403

RED = "cooler._reduce"


class _Eq:
    """a table (chromsizes / bin table) of input i; == against the table of input 0 is the bit same[i]"""
    pyvc_symbolic = True

    def __init__(self, w, kind, i, n=None):
        self.w, self.kind, self.i, self.n = w, kind, i, n

    def pyvc_compare(self, I, op, a, b):
        import ast as _ast
        other = b if a is self else a
        assert isinstance(other, _Eq) and other.kind == self.kind
        i = self.i if other.i == 0 else other.i
        bit = self.w["same_" + self.kind][i] if (self.i == 0 or other.i == 0) else None
        if bit is None:
            raise Exception("tables are compared with the first input only")
        return bit if isinstance(op, _ast.Eq) else Not(bit)

    pyvc_rcompare = pyvc_compare

    def pyvc_len(self, I):
        return self.n

    def pyvc_getitem(self, I, key, node):
        return self      # column selection / [:] of the bin-table selector keep the table's identity


class _Clr:
    def __init__(self, w, i):
        self.w, self.i = w, i

    def pyvc_getattr(self, I, attr, node):
        w, i = self.w, self.i
        if attr == "binsize":
            return w["binsize"][i]
        if attr == "chromsizes":
            return _Eq(w, "chromsizes", i)
        if attr == "chromnames":
            return _Eq(w, "chromnames", i)
        if attr == "bins":
            return LibFunc("Cooler.bins", lambda I, **k: _Eq(w, "bins", i, w["nbins"][i]))
        if attr == "storage_mode":
            return w["mode"][i]
        if attr == "pixels":
            return LibFunc("Cooler.pixels", lambda I, **k: _Sel(w, i))
        if attr == "info":
            return {"genome-assembly": w["assembly"][i]} if w["has_assembly"] else {}
        if attr == "filename":
            return f"input{i}"
        raise Exception("Cooler." + attr)


class _DefaultDictOfLists:
    """collections.defaultdict(list): a missing key is created with an empty list on first access"""

    def __init__(self):
        self.d = {}

    def pyvc_getitem(self, I, key, node):
        return self.d.setdefault(key, [])


class _Sel:
    def __init__(self, w, i):
        self.w, self.i = w, i

    def pyvc_getattr(self, I, attr, node):
        if attr == "dtypes":
            return dict(self.w["dtypes"][self.i])
        raise Exception("selector." + attr)


@contract
class MergerInit(Contract):
    """inputs are accepted iff they have the same bin table: for a fixed bin size, the same size and the same
    chromosome lengths (names AND lengths) as the first input; otherwise the same bin table row for row"""
    target = f"{RED}:CoolerMerger.__init__"
    props = ["C07"]

    def configs(self, v):
        def mk(k, fixed, others_none=False):
            def f(v):
                w = {"k": k, "fixed": fixed,
                     "binsize": [v.Int(f"binsize{i}") if (fixed and not (others_none and i > 0)) else None for i in range(k)],
                     "same_chromsizes": [True] + [v.Bool(f"chromsizes{i}_equal_first") for i in range(1, k)],
                     "same_bins": [True] + [v.Bool(f"bins{i}_equal_first") for i in range(1, k)],
                     "same_chromnames": [True] + [v.Bool(f"chromnames{i}_equal_first") for i in range(1, k)],
                     "nbins": [v.Int(f"nbins{i}") for i in range(k)]}
                coolers = [_Clr(w, i) for i in range(k)]
                slf = v.Obj("CoolerMerger", RED)
                np_ = LibNS("np", {"all": LibFunc("np.all", lambda I, x: x)})
                return dict(self=slf, coolers=coolers, mergebuf=v.Int("mergebuf"), columns=None, agg=None,
                            __free__={"np": np_}, __ghost__=w)
            return f
        for k in (2, 3):
            yield f"k={k},fixed", mk(k, True)
            yield f"k={k},variable", mk(k, False)
        yield "k=2,fixed-vs-variable", mk(2, True, True)

    def requires(self, **a):
        w = self._v.path.ghost
        r = [n >= 0 for n in w["nbins"]]
        # equal tables have equal lengths (meaning of the uninterpreted equality bit)
        r += [Implies(w["same_bins"][i], w["nbins"][i] == w["nbins"][0]) for i in range(1, w["k"])]
        # equal chromosome-length tables have equal names (not conversely)
        r += [Implies(w["same_chromsizes"][i], w["same_chromnames"][i]) for i in range(1, w["k"])]
        return r

    def _incompatible(self):
        w = self._v.path.ghost
        k = w["k"]
        if w["fixed"]:
            b0 = w["binsize"][0]
            diff_size = Or(*[(True if w["binsize"][i] is None else w["binsize"][i] != b0) for i in range(1, k)])
            diff_chroms = Or(*[Not(w["same_chromsizes"][i]) for i in range(1, k)])
            return Or(diff_size, diff_chroms)
        return Or(*[Not(w["same_bins"][i]) for i in range(1, k)])

    @property
    def raises(self):
        return {"ValueError": lambda **a: self._incompatible()}

    def ensures(self, result, self_, coolers, mergebuf, columns, agg):
        at = self_.attrs
        return {"keeps-the-inputs-in-order": isinstance(at.get("coolers"), list) and len(at["coolers"]) == len(coolers)
                and all(x is y for x, y in zip(at["coolers"], coolers)),
                "buffer-size-kept": at.get("mergebuf") is mergebuf,
                "default-column-count-summed": at.get("columns") == ["count"] and at.get("agg") == {"count": "sum"}}


@contract
class MergeCoolers(Contract):
    """merge_coolers: all inputs, in order, go into one CoolerMerger with the caller's buffer, columns and agg; the
    output is created at output_uri from the first input's bins and assembly with that merger as pixel stream;
    symmetric iff all inputs are, refused when mixed; every requested column must exist in every input and gets
    the caller's dtype when given, else numpy.result_type over ALL inputs' dtypes for it"""
    target = f"{RED}:merge_coolers"
    props = ["C07"]

    def configs(self, v):
        def mk(k, columns, given, missing=False):
            def f(v):
                log = []
                w = {"k": k, "log": log, "mode": [v.Str(f"mode{i}") for i in range(k)],
                     "assembly": [Opaque(f"assembly{i}") for i in range(k)], "has_assembly": True,
                     "nbins": [v.Int(f"nbins{i}") for i in range(k)], "same_bins": [True] * k, "same_chromsizes": [True] * k,
                     "binsize": [None] * k}
                cols = columns or ["count"]
                w["dtypes"] = [{c: Opaque(f"dtype[{i}][{c}]") for c in cols if not (missing and i == k - 1 and c == cols[-1])}
                               for i in range(k)]
                uris = [v.Str(f"uri{i}") for i in range(k)]
                clrs = {}

                def Cooler(I, uri):
                    i = [n for n, u in enumerate(uris) if u is uri][0]
                    clrs[i] = _Clr(w, i)
                    return clrs[i]

                def rec(name, ret):
                    def f_(I, *a, **kw):
                        log.append((name, a, kw))
                        return ret(a, kw) if callable(ret) else ret
                    return LibFunc(name, f_)
                merger = Opaque("the merger")
                np_ = LibNS("np", {"result_type": rec("result_type", lambda a, kw: ("result_type",) + tuple(a))})
                dts = None if not given else {cols[0]: Opaque("caller dtype")}
                w.update(uris=uris, clrs=clrs, merger=merger, cols=cols, given=dts, columns_arg=columns, missing=missing)
                return dict(output_uri=v.Str("output_uri"), input_uris=uris, mergebuf=v.Int("mergebuf"), columns=columns,
                            dtypes=dts, agg=Opaque("agg"), kwargs={"mode": Opaque("mode kwarg")},
                            __free__={"Cooler": LibFunc("Cooler", Cooler), "CoolerMerger": rec("CoolerMerger", merger),
                                      "create": rec("create", None), "np": np_,
                                      "defaultdict": LibFunc("defaultdict", lambda I, factory: _DefaultDictOfLists())},
                            __ghost__=w)
            return f
        for k in (2, 3):
            yield f"k={k},default-column", mk(k, None, False)
            yield f"k={k},two-columns,dtype-given-for-one", mk(k, ["count", "extra"], True)
        yield "k=2,two-columns,no-dtypes", mk(2, ["count", "extra"], False)
        yield "k=2,column-missing-in-last-input", mk(2, ["count", "extra"], False, True)

    def requires(self, **a):
        w = self._v.path.ghost
        return [Or(m == z3.StringVal("symmetric-upper"), m == z3.StringVal("square")) for m in w["mode"]]

    @property
    def raises(self):
        def verr(**a):
            w = self._v.path.ghost
            sym = [m == z3.StringVal("symmetric-upper") for m in w["mode"]]
            mixed = And(Or(*sym), Not(And(*sym)))
            return Or(mixed, w["missing"]) if w["missing"] is not True else True
        return {"ValueError": verr}

    def ensures_raise(self, exc, **a):
        w = self._v.path.ghost
        return {"refused-before-anything-is-created": not [op for op in w["log"] if op[0] == "create"]}

    def ensures(self, result, output_uri, input_uris, mergebuf, columns, dtypes, agg, kwargs):
        w = self._v.path.ghost
        log, k, cols = w["log"], w["k"], w["cols"]
        mg = [op for op in log if op[0] == "CoolerMerger"]
        cr = [op for op in log if op[0] == "create"]
        out = {"one-merger-one-create": len(mg) == 1 and len(cr) == 1}
        if not out["one-merger-one-create"]:
            return out
        a, kw = mg[0][1], mg[0][2]
        out["merger-gets-every-input-once-in-order"] = len(a) == 1 and isinstance(a[0], list) and len(a[0]) == k and \
            all(a[0][i] is w["clrs"].get(i) for i in range(k))
        out["merger-gets-the-callers-buffer-columns-agg"] = kw.get("mergebuf") is mergebuf and kw.get("columns") == cols and kw.get("agg") is agg
        ca, ckw = cr[0][1], cr[0][2]
        out["created-at-the-output-uri"] = len(ca) == 3 and ca[0] is output_uri
        if len(ca) == 3:
            out["bins-of-the-first-input"] = getattr(ca[1], "kind", None) == "bins" and ca[1].i == 0
            out["pixel-stream-is-the-merger"] = ca[2] is w["merger"]
        sym = [m == z3.StringVal("symmetric-upper") for m in w["mode"]]
        su = ckw.get("symmetric_upper")
        out["symmetric-iff-all-inputs-are"] = (And(*sym) if su is True else Not(Or(*sym))) if isinstance(su, bool) else Iff(su, And(*sym))
        out["assembly-of-the-first-input"] = ckw.get("assembly") is w["assembly"][0]
        out["columns-passed"] = ckw.get("columns") == cols
        out["other-options-passed-through"] = ckw.get("mode") is kwargs["mode"]
        d = ckw.get("dtypes")
        ok = isinstance(d, dict) and sorted(d) == sorted(cols)
        out["every-requested-column-has-a-dtype"] = ok
        if ok:
            for c in cols:
                if w["given"] and c in w["given"]:
                    out[f"dtype[{c}]-is-the-callers"] = d[c] is w["given"][c]
                else:
                    want = ("result_type",) + tuple(w["dtypes"][i][c] for i in range(k))
                    out[f"dtype[{c}]-accommodates-all-inputs"] = isinstance(d[c], tuple) and len(d[c]) == len(want) and \
                        all(x is y for x, y in zip(d[c], want))
        return out
