"""Contracts for interval partitions: util.partition (C11/C01), _greedy_prune_partition (C08)."""
from pyvc.api import *  # noqa: F401,F403
from contracts.common import *  # noqa: F401,F403

UT = "cooler.util"
RED = "cooler._reduce"


@contract
class Partition(Contract):
    """C11: the spans tile [start, stop) exactly: consecutive, non-empty, each at most ``step`` long"""
    target = f"{UT}:partition"
    props = ["C11", "C01", "C10"]

    def configs(self, v):
        yield "", lambda v: dict(start=v.Int("start"), stop=v.Int("stop"), step=v.Int("step"))

    def requires(self, start, stop, step):
        return [step >= 1]

    def result(self, v, start, stop, step):
        lo = v.Fn("part.lo", "int", "int")
        hi = v.Fn("part.hi", "int", "int")
        return GenV(SymList(v.Int("part.n"), lambda k: (lo(k), hi(k))))

    def ensures(self, result, start, stop, step):
        items = result.items if hasattr(result, "items") and not isinstance(result, (list, tuple)) else result
        n, at = seq_view(items)
        lo = lambda k: at(k)[0]
        hi = lambda k: at(k)[1]
        return {
            "count": n == If(stop > start, cdiv(stop - start, step), 0),
            "first-starts-at-start": Implies(n > 0, lo(0) == start),
            "last-ends-at-stop": Implies(n > 0, hi(n - 1) == stop),
            "consecutive": forall(0, n - 1, lambda k: hi(k) == lo(k + 1)),
            "nonempty-and-bounded": forall(0, n, lambda k: And(lo(k) < hi(k), hi(k) - lo(k) <= step)),
            "closed-form": forall(0, n, lambda k: And(lo(k) == start + k * step, hi(k) == Min(start + (k + 1) * step, stop))),
        }


@contract
class GreedyPrunePartition(Contract):
    """C08: the pruned partition consists of VALUES OF ``edges`` only (so no coarse row is split),
    strictly increasing, first 0, last = edges[-1]"""
    target = f"{RED}:_greedy_prune_partition"
    props = ["C08"]

    def configs(self, v):
        yield "", lambda v: dict(edges=v.Arr("edges"), maxlen=v.Int("maxlen"))

    def requires(self, edges, maxlen):
        n = L(edges)
        return [n >= 2, edges[0] == 0, maxlen >= 1, nondecreasing(edges), edges[n - 1] < 2 ** 52]

    def result(self, v, edges, maxlen):
        return v.Arr("pruned"), {"__ghost__": True, "idx": v.Fn("pruned.idx", "int", "int")}

    def ghost_final(self, I, S, result):
        idx = S.idx
        return {"idx": (lambda k: idx[k])}

    def ensures(self, result, ghost, edges, maxlen):
        r = result
        m = L(r)
        n = L(edges)
        idx = ghost["idx"]
        return {
            "nonempty": m >= 1,
            "values-of-edges": forall(0, m, lambda k: And(0 <= idx(k), idx(k) < n, r[k] == edges[idx(k)])),
            "index-increasing": forall2(0, m, 0, m, lambda k1, k2: Implies(k1 < k2, idx(k1) < idx(k2))),
            "first-is-0": r[0] == 0,
            "last-is-total": r[m - 1] == edges[n - 1],
            "nondecreasing": forall2(0, m, 0, m, lambda k1, k2: Implies(k1 <= k2, r[k1] <= r[k2])),
        }

    def lemmas(self, path, v):
        """cumsum(diff(x))[k] == x[k+1] - x[0] by induction on k over the cumsum recurrence
        c[0] = d[0], c[k] = c[k-1] + d[k]  with  d[k] = x[k+1] - x[k]"""
        x = v.Arr("Lx")
        c = v.Arr("Lc")
        k = v.Int("Lk")
        d = lambda j: x[j + 1] - x[j]
        path.assume([L(c) == L(x) - 1, L(x) >= 1, Implies(L(c) > 0, c[0] == d(0)),
                     forall(1, L(c), lambda j: c[j] == c[j - 1] + d(j))])
        path.oblige("lemma", "cumsum-of-diff-telescopes/base", Implies(L(c) > 0, c[0] == x[1] - x[0]))
        path.oblige("lemma", "cumsum-of-diff-telescopes/step",
                    Implies(And(1 <= k, k < L(c), c[k - 1] == x[k] - x[0]), c[k] == x[k + 1] - x[0]))
