"""Contracts for interval partitions: util.partition (C11/C01), _greedy_prune_partition (C08)."""
from pyvc.api import *  # noqa: F401,F403
from contracts.common import *  # noqa: F401,F403

UT = "cooler.util"
RED = "cooler._reduce"


@contract
class Partition(Contract):
    """C11: the spans tile [start, stop) exactly: consecutive, non-empty, each at most ``step`` long"""
    target = f"{UT}:partition"
    props = ["C11", "C01", "C10"]

    def configs(self, v):
        yield "", lambda v: dict(start=v.Int("start"), stop=v.Int("stop"), step=v.Int("step"))

    def requires(self, start, stop, step):
        return [step >= 1]

    def result(self, v, start, stop, step):
        lo = v.Fn("part.lo", "int", "int")
        hi = v.Fn("part.hi", "int", "int")
        return GenV(SymList(v.Int("part.n"), lambda k: (lo(k), hi(k))))

    def ensures(self, result, start, stop, step):
        items = result.items if hasattr(result, "items") and not isinstance(result, (list, tuple)) else result
        n, at = seq_view(items)
        lo = lambda k: at(k)[0]
        hi = lambda k: at(k)[1]
        return {
            "count": n == If(stop > start, cdiv(stop - start, step), 0),
            "first-starts-at-start": Implies(n > 0, lo(0) == start),
            "last-ends-at-stop": Implies(n > 0, hi(n - 1) == stop),
            "consecutive": forall(0, n - 1, lambda k: hi(k) == lo(k + 1)),
            "nonempty-and-bounded": forall(0, n, lambda k: And(lo(k) < hi(k), hi(k) - lo(k) <= step)),
            "closed-form": forall(0, n, lambda k: And(lo(k) == start + k * step, hi(k) == Min(start + (k + 1) * step, stop))),
        }


@contract
class GreedyPrunePartition(Contract):
    """C08: the pruned partition consists of VALUES OF ``edges`` only (so no coarse row is split),
    strictly increasing, first 0, last = edges[-1]"""
    target = f"{RED}:_greedy_prune_partition"
    props = ["C08"]

    def configs(self, v):
        yield "", lambda v: dict(edges=v.Arr("edges"), maxlen=v.Int("maxlen"))

    def requires(self, edges, maxlen):
        n = L(edges)
        return [n >= 2, edges[0] == 0, maxlen >= 1, nondecreasing(edges), edges[n - 1] < 2 ** 52]

    def result(self, v, edges, maxlen):
        return v.Arr("pruned"), {"__ghost__": True, "idx": v.Fn("pruned.idx", "int", "int")}

    def ghost_final(self, I, S, result):
        idx = S.idx
        return {"idx": (lambda k: idx[k])}

    def ensures(self, result, ghost, edges, maxlen):
        r = result
        m = L(r)
        n = L(edges)
        idx = ghost["idx"]
        return {
            "nonempty": m >= 1,
            "values-of-edges": forall(0, m, lambda k: And(0 <= idx(k), idx(k) < n, r[k] == edges[idx(k)])),
            "index-increasing": forall2(0, m, 0, m, lambda k1, k2: Implies(k1 < k2, idx(k1) < idx(k2))),
            "first-is-0": r[0] == 0,
            "last-is-total": r[m - 1] == edges[n - 1],
            "nondecreasing": forall2(0, m, 0, m, lambda k1, k2: Implies(k1 <= k2, r[k1] <= r[k2])),
        }

    def lemmas(self, path, v):
        """cumsum(diff(x))[k] == x[k+1] - x[0] by induction on k over the cumsum recurrence
        c[0] = d[0], c[k] = c[k-1] + d[k]  with  d[k] = x[k+1] - x[k]"""
        x = v.Arr("Lx")
        c = v.Arr("Lc")
        k = v.Int("Lk")
        d = lambda j: x[j + 1] - x[j]
        path.assume([L(c) == L(x) - 1, L(x) >= 1, Implies(L(c) > 0, c[0] == d(0)),
                     forall(1, L(c), lambda j: c[j] == c[j - 1] + d(j))])
        path.oblige("lemma", "cumsum-of-diff-telescopes/base", Implies(L(c) > 0, c[0] == x[1] - x[0]))
        path.oblige("lemma", "cumsum-of-diff-telescopes/step",
                    Implies(And(1 <= k, k < L(c), c[k - 1] == x[k] - x[0]), c[k] == x[k + 1] - x[0]))


# ------------------------------------------------------------------ CoolerCoarsener.__init__ (edges)
class _StubCooler:
    """ASSUMED model of Cooler(source_uri) as far as CoolerCoarsener.__init__ uses it (trusted):
    binsize, chromsizes, _load_dset('indexes/chrom_offset' | 'indexes/bin1_offset'), bins()[cols][:]"""
    pyvc_symbolic = True

    def __init__(self, off, O, binsize):
        self.off, self.O, self.binsize = off, O, binsize

    def pyvc_getattr(self, I, attr, node):
        from pyvc.values import LibFunc
        if attr == "binsize":
            return self.binsize
        if attr == "chromsizes":
            return Opaque("chromsizes")
        if attr == "_load_dset":
            return LibFunc("Cooler._load_dset", lambda I, path: {"indexes/chrom_offset": self.off, "indexes/bin1_offset": self.O}[path])
        if attr == "bins":
            return LibFunc("Cooler.bins", lambda I: _StubSel())
        raise Exception("Cooler." + attr + " is not part of the assumed model")


class _StubSel:
    def pyvc_getitem(self, I, key, node):
        return self if isinstance(key, list) else Opaque("old_bins")


class _StubGS:
    """ASSUMED model of GenomeSegmentation(chromsizes, new_bins).idmap: chromosome name -> 0..nchrom-1 in order"""
    pyvc_symbolic = True

    def __init__(self, nchrom):
        self.nchrom = nchrom

    def pyvc_getattr(self, I, attr, node):
        from pyvc.values import LibFunc
        if attr == "idmap":
            return self
        if attr == "items":
            name = z3.Function("chromname", z3.IntSort(), z3.StringSort())
            return LibFunc("Series.items", lambda I: SymList(self.nchrom, lambda k: (name(k), k)))
        raise Exception("GenomeSegmentation." + attr + " is not part of the assumed model")


@contract
class CoarsenerInit(Contract):
    """C08: the pixel partition handed to the workers consists of offsets of COARSE-ROW STARTS only:
    every edge is bin1_offset[chrom_offset[c] + g*factor] for a chromosome c and a coarse row g of c
    (or nnz), in non-decreasing order from 0 to nnz - so no group of pixels that falls into one coarse
    row is ever split across two spans, for every factor and chunk size."""
    target = "cooler._reduce:CoolerCoarsener.__init__"
    props = ["C08"]

    def configs(self, v):
        from pyvc.values import LibFunc

        def mk(fixed):
            def f(v):
                nchrom = v.Int("nchrom")
                off = v.Arr("old_chrom_offset", n=nchrom + 1)
                nb = v.Int("nbins")
                O = v.Arr("old_bin1_offset", n=nb + 1)
                binsize = v.Int("old_binsize") if fixed else None
                slf = v.Obj("CoolerCoarsener", "cooler._reduce")
                slf.attrs["coarsen_bins"] = LibFunc("coarsen_bins", lambda I, *a, **k: Opaque("new_bins"))
                return dict(self=slf, source_uri="src.cool", factor=v.Int("factor"), chunksize=v.Int("chunksize"),
                            columns=["count"], agg=None, batchsize=1, map=Opaque("map"),
                            __free__={"Cooler": LibFunc("Cooler", lambda I, uri: _StubCooler(off, O, binsize)),
                                      "GenomeSegmentation": LibFunc("GenomeSegmentation", lambda I, cs, bins: _StubGS(nchrom)),
                                      "isinstance": LibFunc("isinstance", lambda I, x, t: True),
                                      "int": LibFunc("int", lambda I, x: x)},
                            __ghost__={"nchrom": nchrom, "off": off, "O": O, "nb": nb})
            return f
        yield "fixed", mk(True)
        yield "variable", mk(False)

    def _g(self):
        return self._v.path.ghost

    def requires(self, self_, source_uri, factor, chunksize, columns, agg, batchsize, map):
        g = self._g()
        nchrom, off, O, nb = g["nchrom"], g["off"], g["O"], g["nb"]
        return [factor >= 2, chunksize >= 1, nchrom >= 1, nb >= 1, off[0] == 0, off[nchrom] == nb,
                forall2(0, nchrom + 1, 0, nchrom + 1, lambda c1, c2: Implies(c1 < c2, off[c1] < off[c2])),
                O[0] == 0, nondecreasing(O), O[nb] < 2 ** 50]

    # loop 0: for _chrom, i in self.gs.idmap.items()
    def _idx(self, S, t):
        g = self._g()
        return g["off"][S.cc(t)] + S.gg(t) * S.factor

    def _inv(self, S):
        g = self._g()
        off, O = g["off"], g["O"]
        c = S.it
        n, at = seq_view(S.edges)
        idx = lambda t: self._idx(S, t)
        return {
            "edges-are-coarse-row-starts": forall(0, n, lambda t: And(
                0 <= S.cc(t), S.cc(t) < c, 0 <= S.gg(t), off[S.cc(t)] <= idx(t), idx(t) < off[S.cc(t) + 1],
                at(t) == O[idx(t)])),
            "row-index-increasing": forall2(0, n, 0, n, lambda t1, t2: Implies(t1 < t2, idx(t1) < idx(t2))),
            "rows-of-done-chromosomes-only": forall(0, n, lambda t: idx(t) < off[c]),
            "first-edge": And(Implies(c > 0, n >= 1), Implies(n >= 1, And(S.cc(0) == 0, S.gg(0) == 0))),
            "count": n >= c,
        }

    def _prepare(self, S, I):
        if isinstance(S.edges, list) and not S.edges:
            S.set_local("edges", SymList(0, lambda k: z3.IntVal(0)))

    def _ghost_init(self, S, I):
        return {"cc": (lambda t: z3.IntVal(0)), "gg": (lambda t: z3.IntVal(0))}

    def _ghost_step(self, S, I):
        # the elements appended in this iteration: t in [n_old, n_new) -> chromosome i, coarse row t - n_old
        n_new, _ = seq_view(S.edges)
        c = S.it - 1
        g = self._g()
        off = g["off"]
        cnt = cdiv(off[c + 1] - off[c], S.factor)
        n_old = n_new - cnt
        occ, ogg = S.cc, S.gg
        S.set_ghost("cc", lambda t: z3.If(t < n_old, occ(t), c))
        S.set_ghost("gg", lambda t: z3.If(t < n_old, ogg(t), t - n_old))

    @property
    def loops(self):
        hv = lambda name: (lambda v: (lambda f: (lambda t: f(t)))(v.Fn(name, "int", "int")))
        return {0: LoopSpec(self._inv, prepare=self._prepare, ghost_init=self._ghost_init, ghost_step=self._ghost_step,
                            havoc={"__g_cc": hv("g.cc"), "__g_gg": hv("g.gg"),
                                   "edges": lambda v: (lambda f, n: (v.assume(n >= 0), SymList(n, lambda k: f(k)))[1])(v.Fn("edges", "int", "int"), v.Int("edges.n"))})}

    def ensures(self, result, ghost, self_, source_uri, factor, chunksize, columns, agg, batchsize, map):
        g = self._g()
        off, O, nb, nchrom = g["off"], g["O"], g["nb"], g["nchrom"]
        E = self_.attrs["edges"]
        m = L(E)
        out = {
            "edges-from-0-to-nnz": And(m >= 1, E[0] == 0, E[m - 1] == O[nb]),
            "edges-nondecreasing": forall2(0, m, 0, m, lambda k1, k2: Implies(k1 <= k2, E[k1] <= E[k2])),
            "factor-kept": self_.attrs["factor"] == factor,
        }
        # the key clause: every edge handed to the workers is the pixel offset of a coarse-row start
        # (chromosome cc, coarse row gg of it) or nnz.  Witnesses: the ghost of the loop (cc, gg) composed
        # with the index ghost of the _greedy_prune_partition call.
        calls = [c for c in self._v.path.ghost.get("calls", []) if c[0].endswith(":_greedy_prune_partition")]
        if calls and "cc" in ghost:
            idx = calls[-1][3]["idx"]
            n_all, _ = seq_view(ghost["__locals__"]["edges"])
            n_loop = n_all - 1
            cc, gg = ghost["cc"], ghost["gg"]
            row = lambda k: off[cc(idx(k))] + gg(idx(k)) * factor
            out["every-edge-is-a-coarse-row-start-or-nnz"] = forall(0, m, lambda k: If(
                idx(k) < n_loop,
                And(0 <= cc(idx(k)), cc(idx(k)) < nchrom, 0 <= gg(idx(k)), off[cc(idx(k))] <= row(k),
                    row(k) < off[cc(idx(k)) + 1], E[k] == O[row(k)]),
                E[k] == O[nb]))
        return out
