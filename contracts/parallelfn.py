"""Contracts for the split-apply-combine engine, cooler.parallel (C11).

Coordinator contracts over recording stubs: which callable is applied to what, in which order, how often.
Together with balance_cooler's span tiling (contracts/balancefn.py) they carry "every stored pixel is visited
exactly once for every chunk size": the spans tile [0, nnz); the keys of the pipe are exactly those spans;
run() hands the whole key list to the map once; each application of the pipeline reads exactly its span
[lo, hi) of the pixel table once and threads ONE chunk through prepare and every filter in order; reduce is a
left fold of the map's results from `init` (functools.reduce, assumed).  ASSUMED: a map functor applies its
function to every key exactly once (order of completion is the map's business: explored by the bounded tier)."""
from pyvc.api import *  # noqa: F401,F403
from pyvc.values import LibFunc, Partial
from contracts.common import *  # noqa: F401,F403

PAR = "cooler.parallel"


def _fn(log, name, ret=None):
    def f(I, *a, **k):
        r = ret if ret is not None else Opaque(f"result of {name}#{len(log)}")
        log.append((name, a, k, r))
        return r
    return LibFunc(name, f)


@contract
class ApplyPipeline(Contract):
    """one key: get(key) once; with an initialiser every filter receives the SAME pristine chunk and the data
    returned by its predecessor; without one the chunk itself is threaded through; filters run in list order"""
    target = f"{PAR}:apply_pipeline"
    props = ["C11"]
    inline = True   # callers execute the real body

    def configs(self, v):
        def mk(k, prep):
            def f(v):
                log = []
                chunk = Opaque("chunk")
                funcs = [_fn(log, f"f{i}") for i in range(k)]
                return dict(funcs=funcs, prepare=_fn(log, "prepare") if prep else None, get=_fn(log, "get", chunk),
                            key=Opaque("key"), __ghost__={"log": log, "chunk": chunk, "k": k, "prep": prep})
            return f
        for k in (0, 1, 2, 3):
            for prep in (True, False):
                yield f"{k}-filters,{'with' if prep else 'no'}-initialiser", mk(k, prep)

    def ensures(self, result, funcs, prepare, get, key):
        g = self._v.path.ghost
        log, chunk, k, prep = g["log"], g["chunk"], g["k"], g["prep"]
        names = [op[0] for op in log]
        out = {"get-once-then-initialiser-then-filters-in-order": names == ["get"] + (["prepare"] if prep else []) + [f"f{i}" for i in range(k)]}
        if not out["get-once-then-initialiser-then-filters-in-order"]:
            return out
        out["the-key-is-fetched"] = log[0][1] == (key,) or (len(log[0][1]) == 1 and log[0][1][0] is key)
        ops = log[1:]
        prev = chunk
        ok_chunk, ok_data = True, True
        # what each step returned: reconstruct from the order (stubs return fresh tokens; identity is checked through `result`)
        if prep:
            ok_chunk = ok_chunk and len(ops[0][1]) == 1 and ops[0][1][0] is chunk
            for op in ops[1:]:
                ok_chunk = ok_chunk and len(op[1]) == 2 and op[1][0] is chunk
            out["every-filter-sees-the-same-pristine-chunk"] = ok_chunk
        else:
            out["first-filter-gets-the-chunk"] = (k == 0) or (len(ops[0][1]) == 1 and ops[0][1][0] is chunk)
        out["no-keyword-arguments-invented"] = all(not op[2] for op in log)
        # data flow: each step receives what its predecessor returned; the result is what the last step returned
        flow = True
        prev = chunk
        for n, op in enumerate(ops):
            if prep and n == 0:
                prev = op[3]
                continue
            flow = flow and op[1][-1] is prev
            prev = op[3]
        out["each-filter-receives-its-predecessors-output"] = flow
        out["result-is-the-last-output"] = result is prev
        return out


@contract
class PipeRun(Contract):
    """run(): the map functor is called once, with a callable that applies THIS pipe's filters, initialiser and
    getter, and with exactly the pipe's keys"""
    target = f"{PAR}:MultiplexDataPipe.run"
    props = ["C11"]
    inline = True   # callers execute the real body

    def configs(self, v):
        def f(v):
            log = []
            out = Opaque("what the map returned")
            funcs, prep, get, keys = [Opaque("f0"), Opaque("f1")], Opaque("prepare"), Opaque("get"), Opaque("keys")
            slf = v.Obj("MultiplexDataPipe", PAR, get=get, keys=keys, map=_fn(log, "map", out), funcs=funcs, _prepare=prep)
            return dict(self=slf, __ghost__={"log": log, "out": out})
        yield "", f

    def ensures(self, result, self_):
        g = self._v.path.ghost
        log = g["log"]
        out = {"map-called-once": len(log) == 1}
        if len(log) != 1:
            return out
        a = log[0][1]
        ok = len(a) == 2 and isinstance(a[0], Partial)
        out["map(pipeline, keys)"] = ok and a[1] is self_.attrs["keys"] and not log[0][2]
        if ok:
            p = a[0]
            out["pipeline-applies-this-pipes-filters-initialiser-and-getter"] = (
                getattr(p.func, "qualname", None) == "apply_pipeline" and len(p.args) == 3 and p.args[0] is self_.attrs["funcs"]
                and p.args[1] is self_.attrs["_prepare"] and p.args[2] is self_.attrs["get"] and not p.kwargs)
        out["returns-the-maps-output"] = result is g["out"]
        return out


@contract
class PipeReduce(Contract):
    """reduce(binop, init): a fold (functools.reduce) of the results of run(), in the order the map yields them,
    starting from init"""
    target = f"{PAR}:MultiplexDataPipe.reduce"
    props = ["C11"]
    inline = True   # callers execute the real body

    def configs(self, v):
        def f(v):
            log = []
            ran = Opaque("results of run()")
            folded = Opaque("folded")
            slf = v.Obj("MultiplexDataPipe", PAR, get=Opaque("get"), keys=Opaque("keys"), map=_fn(log, "map", ran), funcs=[], _prepare=None)
            return dict(self=slf, binop=Opaque("binop"), init=Opaque("init"),
                        __free__={"reduce": _fn(log, "reduce", folded), "iter": LibFunc("iter", lambda I, x: ("iter", x))},
                        __ghost__={"log": log, "ran": ran, "folded": folded})
        yield "", f

    def ensures(self, result, self_, binop, init):
        g = self._v.path.ghost
        log = g["log"]
        names = [op[0] for op in log]
        out = {"run-once-then-one-fold": names == ["map", "reduce"]}
        if names == ["map", "reduce"]:
            a = log[1][1]
            out["fold-of-the-run-results-with-the-callers-operator-from-init"] = (
                len(a) == 3 and a[0] is binop and a[1] == ("iter", g["ran"]) and a[2] is init and not log[1][2])
            out["returns-the-fold"] = result is g["folded"]
        return out


@contract
class PipePipe(Contract):
    """pipe(): a NEW pipe with the filter(s) appended after the existing ones; the receiver's own filter list is
    not changed or shared (no state leaks between the marginal passes)"""
    target = f"{PAR}:MultiplexDataPipe.pipe"
    props = ["C11"]
    inline = True   # callers execute the real body

    def configs(self, v):
        def mk(kind):
            def f(v):
                f0 = Opaque("existing filter")
                funcs = [f0]
                slf = v.Obj("MultiplexDataPipe", PAR, get=Opaque("get"), keys=[Opaque("k0")], map=Opaque("map"), funcs=funcs,
                            _prepare=Opaque("prep"))
                mkf = lambda nm: LibFunc(nm, lambda I, *a, **k: None)
                new = [mkf("g0"), mkf("g1")] if kind == "list" else mkf("g")
                args = () if kind != "curried" else (v.Int("n_diags"),)
                return dict(self=slf, func=new, args=args, kwargs={}, __ghost__={"f0": f0, "funcs": funcs, "kind": kind, "new": new})
            return f
        yield "one-filter", mk("one")
        yield "list-of-filters", mk("list")
        yield "curried-filter", mk("curried")

    def ensures(self, result, self_, func, args, kwargs):
        g = self._v.path.ghost
        ok = isinstance(result, Obj) and result is not self_
        out = {"a-new-pipe": ok}
        if not ok:
            return out
        rf = result.attrs["funcs"]
        out["receiver-unchanged"] = self_.attrs["funcs"] is g["funcs"] and len(g["funcs"]) == 1 and g["funcs"][0] is g["f0"]
        out["filter-lists-not-shared"] = rf is not g["funcs"]
        if g["kind"] == "list":
            out["filters-appended-in-order"] = len(rf) == 3 and rf[0] is g["f0"] and rf[1] is g["new"][0] and rf[2] is g["new"][1]
        elif g["kind"] == "one":
            out["filter-appended"] = len(rf) == 2 and rf[0] is g["f0"] and rf[1] is g["new"]
        else:
            p = rf[1] if len(rf) == 2 else None
            out["curried-filter-appended"] = isinstance(p, Partial) and p.func is g["new"] and len(p.args) == 1 and not p.kwargs
        out["same-getter-keys-map-initialiser"] = all(result.attrs[k] is self_.attrs[k] or result.attrs[k] == self_.attrs[k]
                                                      for k in ("get", "keys", "map", "_prepare"))
        return out


class _Grp:
    def __init__(self, path):
        self.path = path

    def pyvc_getitem(self, I, key, node):
        return _Grp(self.path + (key,))

    def pyvc_enter(self, I):
        return self

    def pyvc_exit(self, I, exc):
        return None


@contract
class ChunkGetterCall(Contract):
    """chunkgetter(span): exactly rows [lo, hi) of the pixel table are read, once; the bin table whole; nothing
    is remembered between calls (the returned dict is new); the lock is held around the read when requested"""
    target = f"{PAR}:chunkgetter.__call__"
    props = ["C11"]
    inline = True   # callers execute the real body

    def configs(self, v):
        def mk(bins, chroms, use_lock):
            def f(v):
                log = []
                held = [False]

                def get(I, grp, *a, **k):
                    log.append(("get", grp.path, a, k, held[0]))
                    return Opaque("table:" + "/".join(grp.path))

                class _Clr:
                    def pyvc_getattr(self, I, attr, node):
                        if attr == "open":
                            def op(I, mode="r", **k):
                                log.append(("open", mode, held[0]))
                                return _Grp(())
                            return LibFunc("Cooler.open", op)
                        raise Exception("Cooler." + attr)

                class _Lock:
                    def pyvc_getattr(self, I, attr, node):
                        def acq(I):
                            log.append(("acquire", held[0]))
                            held[0] = True

                        def rel(I):
                            log.append(("release", held[0]))
                            held[0] = False
                        return LibFunc("lock." + attr, acq if attr == "acquire" else rel)
                slf = v.Obj("chunkgetter", PAR, cooler=_Clr(), include_chroms=chroms, include_bins=bins, use_lock=use_lock)
                lo, hi = v.Int("lo"), v.Int("hi")
                return dict(self=slf, span=(lo, hi), __free__={"get": LibFunc("get", get), "lock": _Lock()},
                            __ghost__={"log": log, "lo": lo, "hi": hi, "held": held, "bins": bins, "chroms": chroms, "lock": use_lock})
            return f
        for bins in (True, False):
            for chroms in (True, False):
                for use_lock in (True, False):
                    yield f"bins={bins},chroms={chroms},lock={use_lock}", mk(bins, chroms, use_lock)

    def ensures(self, result, self_, span):
        g = self._v.path.ghost
        log = g["log"]
        gets = [op for op in log if op[0] == "get"]
        px = [op for op in gets if op[1] == ("pixels",)]
        out = {"pixel-rows-read-once": len(px) == 1}
        if len(px) == 1:
            a, k = px[0][2], px[0][3]
            out["exactly-the-span-lo-hi"] = And(len(a) == 2, a[0] == g["lo"], a[1] == g["hi"]) if len(a) == 2 else False
            out["as-arrays"] = k == {"as_dict": True}
        others = sorted(op[1] for op in gets if op[1] != ("pixels",))
        want = sorted(([("bins",)] if g["bins"] else []) + ([("chroms",)] if g["chroms"] else []))
        out["whole-bin-and-chrom-tables-iff-requested"] = others == want and all(op[2] == () for op in gets if op[1] != ("pixels",))
        out["opened-read-only-once"] = [op[1] for op in log if op[0] == "open"] == ["r"]
        ok = isinstance(result, dict)
        out["returns-a-dict-of-the-tables-read"] = ok and sorted(result) == sorted(["pixels"] + [w[0] for w in want])
        if g["lock"]:
            out["lock-held-around-the-read-and-released"] = ([op[0] for op in log if op[0] in ("acquire", "release")] == ["acquire", "release"]
                                                             and all(op[-1] for op in log if op[0] in ("open", "get")) and g["held"][0] is False)
        else:
            out["no-lock-traffic"] = not [op for op in log if op[0] in ("acquire", "release")]
        return out


@contract
class Split(Contract):
    """split(): a pipe whose keys are the caller's spans (or, by default, the tiling of [0, nnz) by chunksize), whose
    getter reads from the caller's cooler, and whose map is the caller's"""
    target = f"{PAR}:split"
    props = ["C11"]
    inline = True   # callers execute the real body

    def configs(self, v):
        def mk(given):
            def f(v):
                log = []
                nnz = v.Int("nnz")

                class _Clr:
                    def pyvc_getattr(self, I, attr, node):
                        if attr == "info":
                            return {"nnz": nnz}
                        raise Exception("Cooler." + attr)
                clr = _Clr()
                spans = [(v.Int("a0"), v.Int("a1"))] if given else None
                part = Opaque("partition(0, nnz, chunksize)")
                cs = v.Int("chunksize")

                def partition(I, *a):
                    log.append(("partition", a))
                    return [part]
                return dict(clr=clr, map=Opaque("map"), chunksize=cs, spans=spans, kwargs={"use_lock": v.Bool("use_lock")},
                            __free__={"partition": LibFunc("partition", partition)},
                            __ghost__={"log": log, "nnz": nnz, "part": part, "given": given, "cs": cs})
            return f
        yield "spans-given", mk(True)
        yield "default-spans", mk(False)

    def requires(self, **a):
        return [self._v.path.ghost["nnz"] >= 0, self._v.path.ghost["cs"] >= 1]

    def ensures(self, result, clr, map, chunksize, spans, kwargs):
        g = self._v.path.ghost
        ok = isinstance(result, Obj) and getattr(result.cls, "name", "") == "MultiplexDataPipe"
        out = {"a-pipe": ok}
        if not ok:
            return out
        at = result.attrs
        if g["given"]:
            out["keys-are-the-callers-spans"] = isinstance(at["keys"], list) and len(at["keys"]) == 1 and at["keys"][0] is spans[0] and not g["log"]
        else:
            shape_ok = len(g["log"]) == 1 and len(g["log"][0][1]) == 3 and isinstance(at["keys"], list) and len(at["keys"]) == 1 \
                and at["keys"][0] is g["part"]
            out["default-keys-are-partition(0,nnz,chunksize)"] = And(g["log"][0][1][0] == 0, g["log"][0][1][1] == g["nnz"],
                                                                      g["log"][0][1][2] == g["cs"]) if shape_ok else False
        gt = at["get"]
        out["getter-reads-the-callers-cooler-with-the-callers-options"] = (isinstance(gt, Obj) and getattr(gt.cls, "name", "") == "chunkgetter"
                                                                           and gt.attrs["cooler"] is clr and gt.attrs["use_lock"] is kwargs["use_lock"]
                                                                           and gt.attrs["include_bins"] is True)
        out["map-is-the-callers"] = at["map"] is map
        out["no-filters-yet"] = at["funcs"] == [] and at["_prepare"] is None
        return out
