"""Contract for create._create:_rename_chroms (C18) over a ghost operation log.

ASSUMED (library contracts, stated by the stubs below):
  * _tableops.get(grp["chroms"]).set_index("name") is the chromosome table indexed by its names, in stored order;
  * DataFrame.rename(mapper).index.values relabels, simultaneously, exactly the labels that are keys of mapper;
  * Series.cat.codes of the bins/chrom column are the stored integer codes;
  * h5py: `del g[path]` unlinks that one dataset, Group.create_dataset(name, data=...) stores data under name.
The contract is the property's "changes names only": the only datasets ever removed or created are chroms/name and
(for an enum-coded column) bins/chrom; chroms/name afterwards holds old names with the map applied pointwise; the
bins/chrom codes written are the codes read, and the enum map sends the i-th new name to i."""
from pyvc.api import *  # noqa: F401,F403
from pyvc.values import DTypeV, LibFunc, LibNS, SymMap
from pyvc.lib_builtin import TypeTag
from contracts.common import *  # noqa: F401,F403

CR = "cooler.create._create"


class _CatDtype:
    pass


class _Attr:
    """tiny attribute bag usable from analysed code"""

    def __init__(self, **kw):
        self.__dict__.update(kw)

    def pyvc_getattr(self, I, attr, node):
        if attr in self.__dict__:
            return self.__dict__[attr]
        raise Exception("stub has no attribute " + attr)


class _Len(_Attr):
    def pyvc_len(self, I):
        return self.n


class _BinsFrame(_Len):
    def pyvc_getitem(self, I, key, node):
        assert key == "chrom"
        return self.chromcol


class _Group:
    def __init__(self, log, path, enum_too_large=False):
        self.log, self.path, self.enum_too_large = log, path, enum_too_large

    def _join(self, key):
        return (self.path.rstrip("/") + "/" + key).lstrip("/") if self.path else key

    def pyvc_getitem(self, I, key, node):
        return _Group(self.log, self._join(key), self.enum_too_large)

    def pyvc_delitem(self, I, key):
        self.log.append(("delete", self._join(key)))

    def pyvc_getattr(self, I, attr, node):
        if attr == "create_dataset":
            def cd(I, name, shape=None, dtype=None, data=None, **kw):
                if self.enum_too_large and isinstance(dtype, tuple) and dtype[0] == "enum":
                    # h5py: the enum header does not fit into the object header
                    from pyvc.values import ExcVal, PyRaise
                    raise PyRaise(ExcVal("ValueError", ("Unable to create dataset (object header message is too large)",)))
                self.log.append(("create", self._join(name), shape, dtype, data, kw))
            return LibFunc("Group.create_dataset", cd)
        raise Exception("Group." + attr)


@contract
class RenameChroms(Contract):
    target = f"{CR}:_rename_chroms"
    props = ["C18"]

    def configs(self, v):
        def mk(enum, too_large=False):
            def f(v):
                log = []
                nc, nb = v.Int("n_chroms"), v.Int("n_bins")
                old = v.StrArr("old_names", nc) if hasattr(v, "StrArr") else v.path.fresh_arr("old_names", "str", n=nc)
                codes = v.path.fresh_arr("chrom_codes", "int", n=nb)
                has = z3.Function("rename_has", z3.StringSort(), z3.BoolSort())
                to = z3.Function("rename_to", z3.StringSort(), z3.StringSort())
                rmap = SymMap(lambda k: has(k), lambda k: to(k), name="rename_dict")

                def renamed(I, mapper):
                    assert mapper is rmap
                    new = Arr(nc, lambda k: If(has(old.at(k)), to(old.at(k)), old.at(k)), "str")
                    return _Attr(index=_Attr(values=new))
                indexed = _Len(n=nc, rename=LibFunc("DataFrame.rename", renamed))
                chroms_frame = _Attr(set_index=LibFunc("DataFrame.set_index", lambda I, col: indexed if col == "name" else None))
                col = _Attr(dtype=_CatDtype() if enum else DTypeV("int32"), cat=_Attr(codes=codes))
                bins_frame = _BinsFrame(n=nb, chromcol=col)

                def get(I, g, *a, **k):
                    assert isinstance(g, _Group) and g.path in ("chroms", "bins")
                    log.append(("read", g.path))
                    return chroms_frame if g.path == "chroms" else bins_frame
                pdns = LibNS("pd", {"CategoricalDtype": TypeTag("CategoricalDtype", lambda x: isinstance(x, _CatDtype))})
                h5 = LibNS("h5py", {"special_dtype": LibFunc("h5py.special_dtype", lambda I, enum=None, **k: ("enum",) + tuple(enum))})
                return dict(grp=_Group(log, "", too_large), rename_dict=rmap, h5opts={},
                            __free__={"get": LibFunc("get", get), "pd": pdns, "h5py": h5,
                                      "CHROM_DTYPE": DTypeV("S"), "CHROMID_DTYPE": DTypeV("int32")},
                            __ghost__={"log": log, "nc": nc, "nb": nb, "old": old, "codes": codes, "has": has, "to": to,
                                       "enum": enum, "too_large": too_large,
                                       # positional views of the (uninterpreted) map, for concretisation at replay
                                       "has_of_old": Arr(nc, lambda k: has(old.at(k)), "bool"),
                                       "to_of_old": Arr(nc, lambda k: to(old.at(k)), "str")})
            return f
        yield "enum", mk(True)
        yield "int", mk(False)
        yield "enum-header-too-large", mk(True, True)

    def requires(self, **a):
        g = self._v.path.ghost
        return [g["nc"] >= 0, g["nb"] >= 0]

    def ensures(self, result, grp, rename_dict, h5opts):
        from pyvc.lib_builtin import ZipMapV
        g = self._v.path.ghost
        log, nc, nb, old, codes, has, to, enum = (g[k] for k in ("log", "nc", "nb", "old", "codes", "has", "to", "enum"))
        out = {}
        dels = [op[1] for op in log if op[0] == "delete"]
        creates = [op for op in log if op[0] == "create"]
        touched = ["chroms/name"] + (["bins/chrom"] if enum else [])
        # frame: lengths, bin coordinates, pixels, indexes are never touched
        out["only-name-datasets-are-removed"] = sorted(dels) == sorted(touched)
        out["only-name-datasets-are-created"] = sorted(op[1] for op in creates) == sorted(touched)
        # every delete is followed by a create of the same dataset
        order = [(op[0], op[1]) for op in log if op[0] in ("delete", "create")]
        out["each-removed-dataset-is-recreated"] = all(
            ("create", p) in order[order.index(("delete", p)) + 1:] for p in dels if ("delete", p) in order)
        for op in creates:
            _, path, shape, dtype, data, kw = op
            if path == "chroms/name":
                out["names:length-kept"] = And(data.n == nc, shape[0] == nc)
                out["names:map-applied-pointwise-in-original-order"] = forall(
                    0, nc, lambda k: data.at(k) == If(has(old.at(k)), to(old.at(k)), old.at(k)))
            elif path == "bins/chrom":
                out["bins:codes-unchanged"] = And(data.n == nb, shape[0] == nb, forall(
                    0, nb, lambda k: data.at(k) == codes.at(k)))
                if g["too_large"]:
                    # the documented fallback: plain integer codes (names then come from chroms/name by position)
                    out["bins:integer-codes-when-the-enum-does-not-fit"] = isinstance(dtype, DTypeV)
                    continue
                ok = isinstance(dtype, tuple) and dtype[0] == "enum" and isinstance(dtype[2], ZipMapV)
                out["bins:enum-maps-ith-new-name-to-i"] = False if not ok else And(
                    dtype[2].keys.n == nc,
                    forall(0, nc, lambda k: And(
                        dtype[2].keys.at(k) == If(has(old.at(k)), to(old.at(k)), old.at(k)),
                        dtype[2].val_at(k) == k)))
        return out


class _Handle:
    def __init__(self, log, mode):
        self.log, self.mode = log, mode

    def pyvc_enter(self, I):
        return self

    def pyvc_exit(self, I, exc):
        self.log.append(("close",))


class _Clr:
    def __init__(self, log):
        self.log = log

    def pyvc_getattr(self, I, attr, node):
        if attr == "open":
            def op(I, mode="r", **kw):
                self.log.append(("open", mode))
                return _Handle(self.log, mode)
            return LibFunc("Cooler.open", op)
        if attr == "_refresh":
            return LibFunc("Cooler._refresh", lambda I: self.log.append(("refresh",)))
        raise Exception("Cooler." + attr)


@contract
class RenameChromsWrapper(Contract):
    """rename_chroms: the file is rewritten through a writable handle of THIS cooler, with the caller's map, and the
    object's cached names are refreshed after the handle is closed ("immediately on the same object")."""
    target = f"{CR}:rename_chroms"
    props = ["C18"]

    def configs(self, v):
        def f(v):
            log = []
            rmap = SymMap(lambda k: z3.BoolVal(False), lambda k: k, name="rename_dict")

            def inner(I, grp, rename_dict, h5opts):
                log.append(("rename", grp, rename_dict))
            return dict(clr=_Clr(log), rename_dict=rmap, h5opts=None,
                        __free__={"_rename_chroms": LibFunc("_rename_chroms", inner),
                                  "_set_h5opts": LibFunc("_set_h5opts", lambda I, o: {} if o is None else o)},
                        __ghost__={"log": log, "rmap": rmap})
        yield "", f

    def requires(self, **a):
        return []

    def ensures(self, result, clr, rename_dict, h5opts):
        log = self._v.path.ghost["log"]
        kinds = [op[0] for op in log]
        out = {"opened-writable-renamed-closed-then-refreshed": kinds == ["open", "rename", "close", "refresh"]}
        if kinds[:2] == ["open", "rename"]:
            out["handle-is-writable"] = log[0][1] in ("r+", "a")
            out["the-callers-map-is-applied-to-this-file"] = isinstance(log[1][1], _Handle) and log[1][2] is rename_dict
        return out


API_ = "cooler.api"


class _CT:
    """chroms(grp): the chromosome table as a frame: name column (strings), length column"""

    def __init__(self, w):
        self.w = w
        self.cols = {"name": w["names"], "length": w["lengths"]}

    def pyvc_getitem(self, I, key, node):
        return _CTCol(self, key)

    def pyvc_setitem(self, I, key, val):
        assert key == "name" and isinstance(val, _CTCol) and val.key == "name"

    def pyvc_len(self, I):
        return self.w["names"].n

    def pyvc_getattr(self, I, attr, node):
        if attr == "set_index":
            return LibFunc("DataFrame.set_index", lambda I, col: _Indexed(self, col))
        raise Exception("DataFrame." + attr)


class _CTConcrete(_CT):
    """the chromosome table with concrete names (for configurations that must execute dictionary updates)"""

    def __init__(self, w, names):
        self.w, self.names = w, names

    def pyvc_getitem(self, I, key, node):
        if key == "name":
            return _CTColConcrete(self.names)
        return _CTCol(self, key)

    def pyvc_setitem(self, I, key, val):
        assert key == "name"

    def pyvc_len(self, I):
        return len(self.names)


class _CTColConcrete(list):
    def pyvc_getattr(self, I, attr, node):
        if attr == "astype":
            return LibFunc("Series.astype", lambda I, t: self)
        raise Exception("Series." + attr)


class _CTCol:
    def __init__(self, ct, key):
        self.ct, self.key = ct, key

    def pyvc_getattr(self, I, attr, node):
        if attr == "astype":
            return LibFunc("Series.astype", lambda I, t: self)
        raise Exception("Series." + attr)

    def pyvc_symiter(self, I):
        a = self.ct.cols[self.key]
        return a.n, a.at

    def pyvc_asarray(self, I):
        return self.ct.cols[self.key]


class _Indexed:
    def __init__(self, ct, by):
        self.ct, self.by = ct, by

    def pyvc_getitem(self, I, key, node):
        return ("column", key, "indexed by", self.by)


@contract
class CoolerRefresh(Contract):
    """Cooler._refresh (run by the constructor and after rename_chroms): the cached name -> id map sends the i-th stored
    name to i, the cached lengths are the stored length column indexed by the stored names, the cached info is read from
    the same group, symmetric-upper is the default storage mode; the file is opened through the object's own store"""
    target = f"{API_}:Cooler._refresh"
    props = ["C18"]

    def configs(self, v):
        def mk(mode):
            def f(v):
                log = []
                n = v.Int("n_chroms")
                names = v.path.fresh_arr("stored_names", "str", n=n)
                lengths = v.path.fresh_arr("stored_lengths", "int", n=n)
                w = {"log": log, "names": names, "lengths": lengths, "n": n}
                info_d = {"nbins": v.Int("nbins")}
                if mode is not None:
                    info_d["storage-mode"] = mode
                grp = Opaque("group")

                class _CM:
                    def pyvc_enter(self, I):
                        return {"/root": grp}

                    def pyvc_exit(self, I, exc):
                        return None

                def open_hdf5(I, store, **kw):
                    log.append(("open", store, kw))
                    return _CM()
                store = Opaque("store")
                slf = v.Obj("Cooler", API_, store=store, open_kws={}, root="/root")
                w.update(info=info_d, grp=grp, store=store, mode=mode)
                return dict(self=slf, __free__={"open_hdf5": LibFunc("open_hdf5", open_hdf5),
                                                "chroms": LibFunc("chroms", lambda I, g: (log.append(("chroms", g)), _CT(w))[1]),
                                                "info": LibFunc("info", lambda I, g: (log.append(("info", g)), info_d)[1])},
                            __ghost__=w)
            return f
        yield "symmetric-upper", mk("symmetric-upper")
        yield "square", mk("square")
        yield "no-storage-mode-attribute", mk(None)

        # a REFRESH of an object that already carries the caches of the table as it was before a renaming which re-used
        # current names (swap / rotation): concrete names, so that any way of updating the old caches can be executed
        def mk_again(old_names, new_names):
            def f(v):
                d = mk("symmetric-upper")(v)
                w = d["__ghost__"]
                w["concrete"] = list(new_names)
                ct = _CTConcrete(w, list(new_names))
                d["__free__"]["chroms"] = LibFunc("chroms", lambda I, g: (w["log"].append(("chroms", g)), ct)[1])
                slf = d["self"]
                slf.attrs["_chromids"] = {nm: i for i, nm in enumerate(old_names)}
                slf.attrs["_chromsizes"] = ("stale lengths",)
                slf.attrs["_info"] = {"stale": True}
                slf.attrs["_is_symm_upper"] = True
                return d
            return f
        yield "refresh-after-swap", mk_again(["a", "b", "c"], ["b", "a", "c"])
        yield "refresh-after-rotation-and-new-name", mk_again(["a", "b", "c"], ["c", "a", "z"])

    def requires(self, **a):
        return [self._v.path.ghost["n"] >= 0]

    def ensures(self, result, self_):
        from pyvc.lib_builtin import ZipMapV
        w = self._v.path.ghost
        at = self_.attrs
        out = {"reads-its-own-store-and-group": [op[0] for op in w["log"]] == ["open", "chroms", "info"] and w["log"][0][1] is w["store"]
               and w["log"][1][1] is w["grp"] and w["log"][2][1] is w["grp"]}
        ids = at.get("_chromids")
        if w.get("concrete") is not None:
            want = {nm: i for i, nm in enumerate(w["concrete"])}
            out["ith-stored-name-maps-to-i(after-a-renaming-that-reuses-names)"] = isinstance(ids, dict) and \
                {k: (v if isinstance(v, int) else None) for k, v in ids.items()} == want
            out["lengths-are-the-stored-column-indexed-by-name"] = at.get("_chromsizes") == ("column", "length", "indexed by", "name")
            out["info-is-the-groups"] = at.get("_info") is w["info"]
            return out
        ok = isinstance(ids, ZipMapV)
        out["name-to-id-map-built"] = ok
        if ok:
            n = w["n"]
            out["ith-stored-name-maps-to-i"] = And(ids.keys.n == n, forall(0, n, lambda k: And(ids.keys.at(k) == w["names"].at(k), ids.val_at(k) == k)))
        out["lengths-are-the-stored-column-indexed-by-name"] = at.get("_chromsizes") == ("column", "length", "indexed by", "name")
        out["info-is-the-groups"] = at.get("_info") is w["info"]
        out["symmetric-upper-unless-stored-otherwise"] = at.get("_is_symm_upper") is (w["mode"] in (None, "symmetric-upper"))
        return out
