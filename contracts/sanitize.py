"""Contracts for the record/pixel sanitizers (C05): _sanitize_pixels."""
from pyvc.api import *  # noqa: F401,F403
from contracts.common import *  # noqa: F401,F403

ING = "cooler.create._ingest"
ACTIONS = ["reflect", "drop", "raise", None, "bogus"]


@contract
class SanitizePixels(Contract):
    """C05: pre-binned records: one-based ids are shifted by exactly one; a lower-triangle record
    (bin1 > bin2) is mirrored together with its sided fields (reflect), dropped (drop), refused
    (raise) or kept (None); nothing else changes; records keep their order unless sorting is asked."""
    target = f"{ING}:_sanitize_pixels"
    props = ["C05", "C16"]

    def configs(self, v):
        from pyvc.lib_pandas import DataFrameV

        def mk(action, sided, sort):
            def f(v):
                b1 = v.Arr("bin1_id")
                n = b1.n
                cols = {"bin1_id": b1, "bin2_id": v.Arr("bin2_id", n=n), "count": v.Arr("count", n=n)}
                if sided:
                    cols["x1"] = v.Arr("x1", n=n)
                    cols["x2"] = v.Arr("x2", n=n)
                snap = {c: a.at for c, a in cols.items()}
                return dict(chunk=DataFrameV(cols), gs=Opaque("gs"), is_one_based=v.Bool("is_one_based"),
                            tril_action=action, sided_fields=(("x",) if sided else ()), sort=sort,
                            __ghost__={"snap": snap, "n": n})
            return f
        for action in ACTIONS:
            for sided in (False, True):
                yield f"tril={action},sided={sided},sort=False", mk(action, sided, False)
        yield "tril=reflect,sided=True,sort=True", mk("reflect", True, True)
        yield "tril=drop,sided=False,sort=True", mk("drop", False, True)

    def _orig(self):
        g = self._v.path.ghost
        return g["snap"], g["n"]

    def _shifted(self, is_one_based):
        snap, n = self._orig()
        z = If(is_one_based, 1, 0)
        return (lambda k: snap["bin1_id"](k) - z), (lambda k: snap["bin2_id"](k) - z)

    @property
    def raises(self):
        def bad(chunk=None, gs=None, is_one_based=None, tril_action=None, sided_fields=None, sort=None, **kw):
            s1, s2 = self._shifted(is_one_based)
            snap, n = self._orig()
            return exists(0, n, lambda k: s1(k) > s2(k))
        return {"BadInputError": lambda tril_action=None, **kw: bad(tril_action=tril_action, **kw) if tril_action == "raise" else False,
                "ValueError": lambda tril_action=None, **kw: bad(tril_action=tril_action, **kw) if tril_action == "bogus" else False}

    def ensures(self, result, chunk, gs, is_one_based, tril_action, sided_fields, sort):
        snap, n = self._orig()
        s1, s2 = self._shifted(is_one_based)
        r1, r2, rc = result.cols["bin1_id"], result.cols["bin2_id"], result.cols["count"]
        tril = lambda k: s1(k) > s2(k)
        out = {}
        perm = getattr(result, "_perm", None)
        if tril_action == "drop":
            # the surviving records are exactly the non-lower-triangle ones, in their original order
            if perm is None:
                flt = getattr(result, "_filter", None)
                if flt is None:
                    # no record was lower-triangle: the chunk comes back as it is
                    out["nothing-to-drop"] = And(L(r1) == n, forall(0, n, lambda k: And(Not(tril(k)), r1[k] == s1(k), r2[k] == s2(k))))
                else:
                    m, fsrc, frank = flt
                    out["survivors-are-upper-records"] = And(L(r1) == m, forall(0, m, lambda t: And(
                        0 <= fsrc(t), fsrc(t) < n, Not(tril(fsrc(t))), r1[t] == s1(fsrc(t)), r2[t] == s2(fsrc(t)),
                        rc[t] == snap["count"](fsrc(t)))))
                    out["order-kept"] = forall2(0, m, 0, m, lambda t1, t2: Implies(t1 < t2, fsrc(t1) < fsrc(t2)))
                    out["every-upper-record-survives"] = forall(0, n, lambda k: Implies(
                        Not(tril(k)), And(0 <= frank(k), frank(k) < m, fsrc(frank(k)) == k)))
            return out
        src = (lambda k: perm(k)) if perm is not None else (lambda k: k)
        mirrored = (lambda k: tril(k)) if tril_action == "reflect" else (lambda k: False)
        out["length"] = L(r1) == n
        out["ids"] = forall(0, n, lambda t: And(0 <= src(t), src(t) < n,
                                                r1[t] == If(mirrored(src(t)), s2(src(t)), s1(src(t))),
                                                r2[t] == If(mirrored(src(t)), s1(src(t)), s2(src(t))))
                            )
        out["values-travel-with-the-record"] = forall(0, n, lambda t: rc[t] == snap["count"](src(t)))
        if sided_fields:
            x1, x2 = result.cols["x1"], result.cols["x2"]
            out["sided-fields-swap-with-the-anchors"] = forall(0, n, lambda t: And(
                x1[t] == If(mirrored(src(t)), snap["x2"](src(t)), snap["x1"](src(t))),
                x2[t] == If(mirrored(src(t)), snap["x1"](src(t)), snap["x2"](src(t)))))
        if tril_action == "reflect":
            out["upper-triangular-after-reflect"] = forall(0, n, lambda t: r1[t] <= r2[t])
        if perm is None:
            out["order-kept"] = True
        return out


class _GS:
    """GenomeSegmentation seen through the attributes _sanitize_records reads"""

    def __init__(self, w):
        self.w = w

    def pyvc_getattr(self, I, attr, node):
        w = self.w
        if attr == "chromsizes":
            class _CS:
                def pyvc_getattr(self_, I, a, node):
                    if a == "values":
                        return w["clen"]
                    raise Exception("chromsizes." + a)
            return _CS()
        return {"chrom_binoffset": w["off"], "binsize": w["B"], "chrom_abspos": w["CA"], "start_abspos": w["SA"],
                "contigs": Opaque("contigs")}[attr]


# NOT REGISTERED (no @contract, not a target of any property): on the unchanged tree all 2988 obligations of this
# contract are discharged in about a minute, but on a tree where the arithmetic is broken the refutation queries
# (quantified, nonlinear) did not come back within any budget - a check that can take 40 minutes to answer is not
# usable, so C05 keeps _sanitize_pixels as its proof core and _sanitize_records stays with the bounded tier.
class SanitizeRecords(Contract):
    """C05: records given as (chromosome id, position) pairs, fixed-width bin table: after the optional one-based
    shift every record lands in the bin that CONTAINS its position - bin = chrom_offset[c] + pos div binsize, which
    lies in the chromosome's range and satisfies start[bin] <= pos < end[bin]; with validation, a chunk is refused
    (BadInputError) exactly when some position is negative or beyond the chromosome; a lower-triangle record is
    mirrored / dropped / refused / kept as asked; values travel with their record; order kept.
    (decode_chroms=False path; names -> ids through pandas.Categorical, the variable-width loop and sorting are
    covered by the bounded tier)"""
    target = f"{ING}:_sanitize_records"
    props = ["C05"]

    def configs(self, v):
        from pyvc.lib_pandas import DataFrameV
        from pyvc.values import LibFunc

        def mk(action, validate):
            def f(v):
                c1 = v.Arr("chrom1")
                n = c1.n
                cols = {"chrom1": c1, "pos1": v.Arr("pos1", n=n), "chrom2": v.Arr("chrom2", n=n), "pos2": v.Arr("pos2", n=n),
                        "count": v.Arr("count", n=n)}
                snap = {c: a.at for c, a in cols.items()}
                nchrom = v.Int("nchrom")
                w = {"snap": snap, "n": n, "nchrom": nchrom, "off": v.Arr("chrom_binoffset", n=nchrom + 1),
                     "clen": v.Arr("chromsizes", n=nchrom), "B": v.Int("binsize"), "CA": Opaque("chrom_abspos"),
                     "SA": Opaque("start_abspos"), "start": v.Arr("bins.start"), "end": v.Arr("bins.end"), "validate": validate,
                     "action": action}
                return dict(chunk=DataFrameV(cols), gs=_GS(w), decode_chroms=False, is_one_based=v.Bool("is_one_based"),
                            tril_action=action, chrom_field="chrom", anchor_field="pos", sided_fields=(), suffixes=("1", "2"),
                            sort=False, validate=validate,
                            __free__={"is_integer_dtype": LibFunc("is_integer_dtype", lambda I, dt: True)}, __ghost__=w)
            return f
        for action in ("reflect", "drop", "raise", None):
            for validate in (True, False):
                yield f"fixed,tril={action},validate={validate}", mk(action, validate)

    def _w(self):
        return self._v.path.ghost

    def _pos(self, is_one_based):
        w = self._w()
        z = If(is_one_based, 1, 0)
        return (lambda k: w["snap"]["pos1"](k) - z), (lambda k: w["snap"]["pos2"](k) - z)

    def _in_range(self, is_one_based, strict=True):
        w = self._w()
        a1, a2 = self._pos(is_one_based)
        c1, c2, clen = w["snap"]["chrom1"], w["snap"]["chrom2"], w["clen"]
        hi = (lambda a, c: a < clen[c]) if strict else (lambda a, c: a <= clen[c])
        return lambda k: And(a1(k) >= 0, a2(k) >= 0, hi(a1(k), c1(k)), hi(a2(k), c2(k)))

    def requires(self, **a):
        w = self._w()
        n, nchrom, off, clen, B = w["n"], w["nchrom"], w["off"], w["clen"], w["B"]
        c1, c2 = w["snap"]["chrom1"], w["snap"]["chrom2"]
        r = {"table": And(nchrom >= 1, B >= 1, off[0] == 0, nondecreasing(off), L(w["start"]) == off[nchrom], L(w["end"]) == off[nchrom]),
             "ids-are-chromosomes-of-the-table": forall(0, n, lambda k: And(0 <= c1(k), c1(k) < nchrom, 0 <= c2(k), c2(k) < nchrom)),
             # the recorded bin size describes the bins of the chromosomes that occur (C20's get_binsize contract), flat per record
             }
        st, en = w["start"], w["end"]
        for tag, cc in (("1", c1), ("2", c2)):
            r[f"fixed-bins-of-end-{tag}"] = forall2(0, n, 0, L(st), lambda k, j, cc=cc: Implies(
                And(off[cc(k)] <= j, j < off[cc(k) + 1]),
                And(st[j] == (j - off[cc(k)]) * B, en[j] == Min(st[j] + B, clen[cc(k)]))))
            r[f"last-bin-of-end-{tag}-ends-at-the-chromosome-length"] = forall(0, n, lambda k, cc=cc: And(
                off[cc(k)] < off[cc(k) + 1], off[cc(k) + 1] <= L(st), en[off[cc(k) + 1] - 1] == clen[cc(k)],
                st[off[cc(k) + 1] - 1] == (off[cc(k) + 1] - 1 - off[cc(k)]) * B, st[off[cc(k) + 1] - 1] < clen[cc(k)],
                clen[cc(k)] < 2 ** 40))
        if not w["validate"]:
            # without validation the caller promises in-range positions (the property's quantifier)
            r["positions-in-range"] = forall(0, n, self._in_range(a["is_one_based"]))
        else:
            # a position EQUAL to the chromosome length should be refused and is accepted (`>` for `>=`): recorded as a
            # known finding by the bounded tier (signature records:position==chromosome-length...); kept out of this contract
            a1, a2 = self._pos(a["is_one_based"])
            r["no-position-equals-its-chromosome-length"] = forall(0, n, lambda k: And(a1(k) != clen[c1(k)], a2(k) != clen[c2(k)]))
        return r

    @property
    def raises(self):
        def bad_pos(is_one_based=None, **kw):
            w = self._w()
            if not w["validate"]:
                return False
            ok = self._in_range(is_one_based, strict=False)      # what the code checks: pos <= length (see known finding)
            return exists(0, w["n"], lambda k: Not(ok(k)))

        def tril_k(is_one_based):
            w = self._w()
            a1, a2 = self._pos(is_one_based)
            c1, c2 = w["snap"]["chrom1"], w["snap"]["chrom2"]
            return lambda k: Or(c1(k) > c2(k), And(c1(k) == c2(k), a1(k) > a2(k)))

        def bad(is_one_based=None, tril_action=None, **kw):
            w = self._w()
            b = bad_pos(is_one_based=is_one_based)
            if tril_action == "raise":
                t = tril_k(is_one_based)
                return Or(b, exists(0, w["n"], lambda k: t(k)))
            return b
        return {"BadInputError": bad}

    def ensures(self, result, chunk, gs, decode_chroms, is_one_based, tril_action, chrom_field, anchor_field, sided_fields,
                suffixes, sort, validate):
        w = self._w()
        n, off, clen, B, st, en = w["n"], w["off"], w["clen"], w["B"], w["start"], w["end"]
        a1, a2 = self._pos(is_one_based)
        c1, c2, cnt = w["snap"]["chrom1"], w["snap"]["chrom2"], w["snap"]["count"]
        tril = lambda k: Or(c1(k) > c2(k), And(c1(k) == c2(k), a1(k) > a2(k)))
        r1, r2, rc = result.cols["bin1_id"], result.cols["bin2_id"], result.cols["count"]
        out = {}
        if isinstance(r1, list) or isinstance(r2, list):
            return {"only-an-empty-chunk-comes-back-without-bins": And(n == 0, r1 == [], r2 == [])}
        inside = self._in_range(is_one_based)
        bin_of = lambda c, a: off[c] + div(a, B)
        flt = getattr(result, "_filter", None)
        if tril_action == "drop" and flt is not None:
            m, fsrc, frank = flt
            src = fsrc
            out["survivors-are-the-upper-records-in-order"] = And(
                L(r1) == m, forall(0, m, lambda t: And(0 <= fsrc(t), fsrc(t) < n, Not(tril(fsrc(t))))),
                forall2(0, m, 0, m, lambda t1, t2: Implies(t1 < t2, fsrc(t1) < fsrc(t2))),
                forall(0, n, lambda k: Implies(Not(tril(k)), And(0 <= frank(k), frank(k) < m, fsrc(frank(k)) == k))))
            cnt_out = m
            mirrored = lambda k: False
        else:
            src = lambda t: t
            cnt_out = n
            out["every-record-kept"] = L(r1) == n
            if tril_action == "drop":
                out["nothing-to-drop"] = forall(0, n, lambda k: Not(tril(k)))
            mirrored = (lambda k: tril(k)) if tril_action == "reflect" else (lambda k: False)
        e1c = lambda k: If(mirrored(k), c2(k), c1(k))
        e1a = lambda k: If(mirrored(k), a2(k), a1(k))
        e2c = lambda k: If(mirrored(k), c1(k), c2(k))
        e2a = lambda k: If(mirrored(k), a1(k), a2(k))
        out["bin-ids-are-offset-plus-position-div-binsize"] = forall(0, cnt_out, lambda t: And(
            r1[t] == bin_of(e1c(src(t)), e1a(src(t))), r2[t] == bin_of(e2c(src(t)), e2a(src(t)))))
        # nonlinear core, stated on the RAW ends (no mirroring case split inside the products): the quotient of an inside
        # position is below the number of bins of its chromosome
        for tag, cc, aa in (("1", c1, a1), ("2", c2, a2)):
            nb = lambda k, cc=cc: off[cc(k) + 1] - off[cc(k)]
            out[f"hint:raw-end{tag}:length-vs-bin-count"] = forall(0, n, lambda k, cc=cc: And(
                st[off[cc(k) + 1] - 1] == (nb(k) - 1) * B, clen[cc(k)] <= (nb(k) - 1) * B + B, clen[cc(k)] <= nb(k) * B))
            out[f"hint:raw-end{tag}:floor"] = forall(0, n, lambda k, aa=aa: Implies(inside(k), And(
                div(aa(k), B) * B <= aa(k), aa(k) < div(aa(k), B) * B + B, div(aa(k), B) >= 0)))
            out[f"hint:raw-end{tag}:quotient-below-the-bin-count"] = forall(0, n, lambda k, cc=cc, aa=aa: Implies(inside(k), And(
                div(aa(k), B) * B < nb(k) * B, div(aa(k), B) < nb(k))))
        for tag, ec, ea, rr in (("1", e1c, e1a, r1), ("2", e2c, e2a, r2)):
            # one end at a time, one conclusion per clause (small queries)
            C = lambda t, ec=ec: ec(src(t))
            A = lambda t, ea=ea: ea(src(t))
            out[f"hint:end{tag}:position-inside-its-own-chromosome"] = forall(0, cnt_out, lambda t: Implies(
                inside(src(t)), And(0 <= A(t), A(t) < clen[C(t)], 0 <= C(t), C(t) < w["nchrom"])))
            out[f"hint:end{tag}:floor-of-the-position"] = forall(0, cnt_out, lambda t: Implies(inside(src(t)), And(
                div(A(t), B) * B <= A(t), A(t) < div(A(t), B) * B + B, div(A(t), B) >= 0)))
            out[f"hint:end{tag}:quotient-below-the-bin-count"] = forall(0, cnt_out, lambda t: Implies(
                inside(src(t)), div(A(t), B) < off[C(t) + 1] - off[C(t)]))
            out[f"end{tag}-lands-in-a-bin-of-its-chromosome"] = forall(0, cnt_out, lambda t, rr=rr: Implies(inside(src(t)), And(
                off[C(t)] <= rr[t], rr[t] < off[C(t) + 1])))
            out[f"hint:end{tag}:start-of-that-bin"] = forall(0, cnt_out, lambda t, rr=rr: Implies(inside(src(t)), And(
                st[rr[t]] == div(A(t), B) * B, en[rr[t]] == Min(st[rr[t]] + B, clen[C(t)]))))
            out[f"end{tag}-lands-in-the-bin-containing-its-position"] = forall(0, cnt_out, lambda t, rr=rr: Implies(inside(src(t)), And(
                st[rr[t]] <= A(t), A(t) < en[rr[t]])))
        out["values-travel-with-the-record"] = forall(0, cnt_out, lambda t: rc[t] == cnt(src(t)))
        if tril_action == "reflect":
            out["upper-triangular-after-reflect"] = forall(0, cnt_out, lambda t: Implies(inside(src(t)), r1[t] <= r2[t]))
        return out
