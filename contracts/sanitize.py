"""Contracts for the record/pixel sanitizers (C05): _sanitize_pixels."""
from pyvc.api import *  # noqa: F401,F403
from contracts.common import *  # noqa: F401,F403

ING = "cooler.create._ingest"
ACTIONS = ["reflect", "drop", "raise", None, "bogus"]


@contract
class SanitizePixels(Contract):
    """C05: pre-binned records: one-based ids are shifted by exactly one; a lower-triangle record
    (bin1 > bin2) is mirrored together with its sided fields (reflect), dropped (drop), refused
    (raise) or kept (None); nothing else changes; records keep their order unless sorting is asked."""
    target = f"{ING}:_sanitize_pixels"
    props = ["C05", "C16"]

    def configs(self, v):
        from pyvc.lib_pandas import DataFrameV

        def mk(action, sided, sort):
            def f(v):
                b1 = v.Arr("bin1_id")
                n = b1.n
                cols = {"bin1_id": b1, "bin2_id": v.Arr("bin2_id", n=n), "count": v.Arr("count", n=n)}
                if sided:
                    cols["x1"] = v.Arr("x1", n=n)
                    cols["x2"] = v.Arr("x2", n=n)
                snap = {c: a.at for c, a in cols.items()}
                return dict(chunk=DataFrameV(cols), gs=Opaque("gs"), is_one_based=v.Bool("is_one_based"),
                            tril_action=action, sided_fields=(("x",) if sided else ()), sort=sort,
                            __ghost__={"snap": snap, "n": n})
            return f
        for action in ACTIONS:
            for sided in (False, True):
                yield f"tril={action},sided={sided},sort=False", mk(action, sided, False)
        yield "tril=reflect,sided=True,sort=True", mk("reflect", True, True)
        yield "tril=drop,sided=False,sort=True", mk("drop", False, True)

    def _orig(self):
        g = self._v.path.ghost
        return g["snap"], g["n"]

    def _shifted(self, is_one_based):
        snap, n = self._orig()
        z = If(is_one_based, 1, 0)
        return (lambda k: snap["bin1_id"](k) - z), (lambda k: snap["bin2_id"](k) - z)

    @property
    def raises(self):
        def bad(chunk=None, gs=None, is_one_based=None, tril_action=None, sided_fields=None, sort=None, **kw):
            s1, s2 = self._shifted(is_one_based)
            snap, n = self._orig()
            return exists(0, n, lambda k: s1(k) > s2(k))
        return {"BadInputError": lambda tril_action=None, **kw: bad(tril_action=tril_action, **kw) if tril_action == "raise" else False,
                "ValueError": lambda tril_action=None, **kw: bad(tril_action=tril_action, **kw) if tril_action == "bogus" else False}

    def ensures(self, result, chunk, gs, is_one_based, tril_action, sided_fields, sort):
        snap, n = self._orig()
        s1, s2 = self._shifted(is_one_based)
        r1, r2, rc = result.cols["bin1_id"], result.cols["bin2_id"], result.cols["count"]
        tril = lambda k: s1(k) > s2(k)
        out = {}
        perm = getattr(result, "_perm", None)
        if tril_action == "drop":
            # the surviving records are exactly the non-lower-triangle ones, in their original order
            if perm is None:
                flt = getattr(result, "_filter", None)
                if flt is None:
                    # no record was lower-triangle: the chunk comes back as it is
                    out["nothing-to-drop"] = And(L(r1) == n, forall(0, n, lambda k: And(Not(tril(k)), r1[k] == s1(k), r2[k] == s2(k))))
                else:
                    m, fsrc, frank = flt
                    out["survivors-are-upper-records"] = And(L(r1) == m, forall(0, m, lambda t: And(
                        0 <= fsrc(t), fsrc(t) < n, Not(tril(fsrc(t))), r1[t] == s1(fsrc(t)), r2[t] == s2(fsrc(t)),
                        rc[t] == snap["count"](fsrc(t)))))
                    out["order-kept"] = forall2(0, m, 0, m, lambda t1, t2: Implies(t1 < t2, fsrc(t1) < fsrc(t2)))
                    out["every-upper-record-survives"] = forall(0, n, lambda k: Implies(
                        Not(tril(k)), And(0 <= frank(k), frank(k) < m, fsrc(frank(k)) == k)))
            return out
        src = (lambda k: perm(k)) if perm is not None else (lambda k: k)
        mirrored = (lambda k: tril(k)) if tril_action == "reflect" else (lambda k: False)
        out["length"] = L(r1) == n
        out["ids"] = forall(0, n, lambda t: And(0 <= src(t), src(t) < n,
                                                r1[t] == If(mirrored(src(t)), s2(src(t)), s1(src(t))),
                                                r2[t] == If(mirrored(src(t)), s1(src(t)), s2(src(t))))
                            )
        out["values-travel-with-the-record"] = forall(0, n, lambda t: rc[t] == snap["count"](src(t)))
        if sided_fields:
            x1, x2 = result.cols["x1"], result.cols["x2"]
            out["sided-fields-swap-with-the-anchors"] = forall(0, n, lambda t: And(
                x1[t] == If(mirrored(src(t)), snap["x2"](src(t)), snap["x1"](src(t))),
                x2[t] == If(mirrored(src(t)), snap["x1"](src(t)), snap["x2"](src(t)))))
        if tril_action == "reflect":
            out["upper-triangular-after-reflect"] = forall(0, n, lambda t: r1[t] <= r2[t])
        if perm is None:
            out["order-kept"] = True
        return out
