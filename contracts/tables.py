"""Contracts for table reads (C14, C01): core._tableops.get (plain datasets)."""
from pyvc.api import *  # noqa: F401,F403
from contracts.common import *  # noqa: F401,F403

TOP = "cooler.core._tableops"
COLS = ["a", "b", "c"]


@contract
class Get(Contract):
    """C14: get(grp, lo, hi, fields) returns, for every requested field, the stored rows lo..hi-1
    labelled lo, lo+1, ...; the row set does not depend on the column selection; a single field name
    gives a Series of the same rows."""
    target = f"{TOP}:get"
    props = ["C14", "C01"]

    def configs(self, v):
        def mk(fields, hi_none):
            def f(v):
                n = v.Int("nrows")
                v.assume(n >= 0)
                grp = {c: v.Arr("ds." + c, n=n) for c in COLS}
                return dict(grp=grp, lo=v.Int("lo"), hi=(None if hi_none else v.Int("hi")), fields=fields,
                            convert_enum=True, as_dict=False, __ghost__={"n": n})
            return f
        for fields, lab in ((None, "all"), (["b"], "list1"), (["c", "a"], "list2"), ("b", "name")):
            for hi_none in (False, True):
                yield f"fields={lab},hi={'None' if hi_none else 'int'}", mk(fields, hi_none)
        # enum-coded column (same function, own stubs): see GetEnum below
        yield from GetEnum().configs(v)

    def _enum(self):
        if "codes" in self._v.path.ghost:
            e = GetEnum()
            e._v = self._v
            return e
        return None

    def requires(self, grp, lo, hi, fields, convert_enum, as_dict):
        if self._enum() is not None:
            return self._enum().requires(grp, lo, hi, fields, convert_enum, as_dict)
        n = self._v.path.ghost["n"]
        r = [0 <= lo, lo <= n]
        if hi is not None:
            r += [lo <= hi, hi <= n]
        return r

    def ensures(self, result, grp, lo, hi, fields, convert_enum, as_dict):
        if self._enum() is not None:
            return self._enum().ensures(result, grp, lo, hi, fields, convert_enum, as_dict)
        from pyvc.lib_pandas import DataFrameV, SeriesV
        n = self._v.path.ghost["n"]
        h = n if hi is None else hi
        want = list(grp.keys()) if fields is None else ([fields] if isinstance(fields, str) else list(fields))
        out = {}
        if isinstance(fields, str):
            out["series-for-a-single-name"] = isinstance(result, SeriesV)
            cols = {fields: result.values}
            index = result.index
        else:
            out["frame-with-the-requested-columns-in-order"] = isinstance(result, DataFrameV) and list(result.cols.keys()) == want
            cols = result.cols
            index = result.index
        for c in want:
            a = cols[c]
            out[f"rows-{c}"] = And(L(a) == h - lo, forall(0, h - lo, lambda k, a=a, c=c: a[k] == grp[c][lo + k]))
        out["row-labels"] = And(L(index) == h - lo, forall(0, h - lo, lambda k: index[k] == lo + k)) if index is not None else False
        return out


class _EnumDtype:
    def __init__(self, ds):
        self.ds = ds

    def pyvc_getattr(self, I, attr, node):
        if attr == "type":
            return "numpy.int32 (an integer scalar type)"
        raise Exception("dtype." + attr)


class _EnumDset:
    """an enum-coded dataset: integer codes + the name -> code dictionary of its HDF5 enum dtype"""

    def __init__(self, codes, enum):
        self.codes, self.enum = codes, enum
        self.dtype = _EnumDtype(self)

    def pyvc_getattr(self, I, attr, node):
        if attr == "dtype":
            return self.dtype
        raise Exception("Dataset." + attr)

    def pyvc_getitem(self, I, key, node):
        from pyvc.lib_numpy import arr_getitem
        return arr_getitem(I, self.codes, key, node)


class GetEnum(Contract):
    """C14/C18: an enum-coded column (bins/chrom) is decoded with the names ordered BY THEIR CODE (not alphabetically):
    the categorical's codes are the stored codes of rows lo..hi-1 and its i-th category is the name stored for code i;
    with convert_enum=False the raw codes come back"""
    target = f"{TOP}:get"
    props = ["C14", "C18"]
    name_suffix = "enum"

    def configs(self, v):
        from pyvc.values import LibFunc, LibNS

        def mk(convert):
            def f(v):
                log = []
                n = v.Int("nrows")
                v.assume(n >= 0)
                codes = v.Arr("ds.chrom", n=n)
                enum = {"chrB": 0, "chrA": 1, "chrC": 2}        # stored order differs from the alphabetical one
                ds = _EnumDset(codes, enum)

                def check_dtype(I, enum=None, **k):
                    return dict(enum.ds.enum) if isinstance(enum, _EnumDtype) else None

                def from_codes(I, c, categories, ordered=False, **k):
                    log.append(("from_codes", c, list(categories), ordered))
                    return ("categorical", c, list(categories))
                pdns = LibNS("pd", {"Categorical": LibNS("pd.Categorical", {"from_codes": LibFunc("Categorical.from_codes", from_codes)})})
                h5 = LibNS("h5py", {"check_dtype": LibFunc("h5py.check_dtype", check_dtype)})
                return dict(grp={"chrom": ds}, lo=v.Int("lo"), hi=v.Int("hi"), fields=["chrom"], convert_enum=convert, as_dict=True,
                            __free__={"pd": pdns, "h5py": h5}, __ghost__={"n": n, "log": log, "codes": codes, "convert": convert})
            return f
        yield "enum,convert", mk(True)
        yield "enum,raw-codes", mk(False)

    def requires(self, grp, lo, hi, fields, convert_enum, as_dict):
        n = self._v.path.ghost["n"]
        return [0 <= lo, lo <= hi, hi <= n]

    def ensures(self, result, grp, lo, hi, fields, convert_enum, as_dict):
        g = self._v.path.ghost
        codes = g["codes"]
        out = {"a-dictionary-with-the-column": isinstance(result, dict) and list(result) == ["chrom"]}
        if not out["a-dictionary-with-the-column"]:
            return out
        r = result["chrom"]
        if g["convert"]:
            ok = isinstance(r, tuple) and r[0] == "categorical" and len(g["log"]) == 1
            out["decoded-as-a-categorical"] = ok
            if ok:
                out["categories-are-the-names-in-code-order"] = r[2] == ["chrB", "chrA", "chrC"] and g["log"][0][3] is True
                c = r[1]
                out["codes-are-the-stored-codes-of-the-rows"] = And(L(c) == hi - lo, forall(0, hi - lo, lambda k: c[k] == codes[lo + k]))
        else:
            out["raw-codes-of-the-rows"] = And(L(r) == hi - lo, forall(0, hi - lo, lambda k: r[k] == codes[lo + k])) if isinstance(r, Arr) else False
            out["nothing-decoded"] = not g["log"]
        return out
