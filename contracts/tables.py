"""Contracts for table reads (C14, C01): core._tableops.get (plain datasets)."""
from pyvc.api import *  # noqa: F401,F403
from contracts.common import *  # noqa: F401,F403

TOP = "cooler.core._tableops"
COLS = ["a", "b", "c"]


@contract
class Get(Contract):
    """C14: get(grp, lo, hi, fields) returns, for every requested field, the stored rows lo..hi-1
    labelled lo, lo+1, ...; the row set does not depend on the column selection; a single field name
    gives a Series of the same rows."""
    target = f"{TOP}:get"
    props = ["C14", "C01"]

    def configs(self, v):
        def mk(fields, hi_none):
            def f(v):
                n = v.Int("nrows")
                v.assume(n >= 0)
                grp = {c: v.Arr("ds." + c, n=n) for c in COLS}
                return dict(grp=grp, lo=v.Int("lo"), hi=(None if hi_none else v.Int("hi")), fields=fields,
                            convert_enum=True, as_dict=False, __ghost__={"n": n})
            return f
        for fields, lab in ((None, "all"), (["b"], "list1"), (["c", "a"], "list2"), ("b", "name")):
            for hi_none in (False, True):
                yield f"fields={lab},hi={'None' if hi_none else 'int'}", mk(fields, hi_none)

    def requires(self, grp, lo, hi, fields, convert_enum, as_dict):
        n = self._v.path.ghost["n"]
        r = [0 <= lo, lo <= n]
        if hi is not None:
            r += [lo <= hi, hi <= n]
        return r

    def ensures(self, result, grp, lo, hi, fields, convert_enum, as_dict):
        from pyvc.lib_pandas import DataFrameV, SeriesV
        n = self._v.path.ghost["n"]
        h = n if hi is None else hi
        want = list(grp.keys()) if fields is None else ([fields] if isinstance(fields, str) else list(fields))
        out = {}
        if isinstance(fields, str):
            out["series-for-a-single-name"] = isinstance(result, SeriesV)
            cols = {fields: result.values}
            index = result.index
        else:
            out["frame-with-the-requested-columns-in-order"] = isinstance(result, DataFrameV) and list(result.cols.keys()) == want
            cols = result.cols
            index = result.index
        for c in want:
            a = cols[c]
            out[f"rows-{c}"] = And(L(a) == h - lo, forall(0, h - lo, lambda k, a=a, c=c: a[k] == grp[c][lo + k]))
        out["row-labels"] = And(L(index) == h - lo, forall(0, h - lo, lambda k: index[k] == lo + k)) if index is not None else False
        return out
