"""Contracts for the closures behind the table selectors of a Cooler object (C04, C14, C01):

* ``Cooler.bins._fetch`` / ``Cooler.pixels._fetch`` / ``Cooler.matrix._fetch`` - what ``.fetch(region)`` resolves a
  genomic range to.  Nested functions: ``self`` (and ``kwargs``) are free variables supplied by the configuration.
  ``parse_region`` and ``region_to_extent`` are applied through their own contracts (modular: precondition obliged,
  postcondition assumed); ``open_hdf5`` is replaced by a context manager yielding the collection's group (assumed).
* ``Cooler.chroms`` / ``Cooler.bins`` / ``Cooler.pixels`` - the selector objects themselves: the row count each selector
  is given (nchroms / nbins / nnz of the info record) and what one call of its slicer does (one read of the right table of
  the collection's own group with the caller's fields, bounds and options).
"""
from pyvc.api import *  # noqa: F401,F403
from pyvc.values import LibFunc
from contracts.common import *  # noqa: F401,F403
from contracts.regions import _CoolerRegionBase, _cooler_configs, _H5Ctx, RegionToExtentTuple, API

RQ = "cooler.core._rangequery"


def _spy_region_to_extent(log):
    """region_to_extent applied through ITS OWN contract; the returned extent is also remembered as ghost"""
    def f(I, *a, **k):
        real = I.engine.module(RQ).env.lookup("region_to_extent")
        r = I.call(real, list(a), dict(k))
        log.append((a, k, r))
        return r
    return LibFunc("region_to_extent (own contract, result remembered)", f)


class _ClosureRegionBase(_CoolerRegionBase):
    """a _fetch closure: the Cooler object is a free variable"""
    def configs(self, v):
        for label, mk in _cooler_configs(v):
            def f(v, mk=mk):
                d = mk(v)
                slf = d.pop("self")
                ext = []
                grp = d["__ghost__"]["grp"]
                grp["indexes"]["bin1_offset"] = v.Arr("bin1_offset", n=grp["bins"]["start"].n + 1)
                d["__free__"] = dict(d["__free__"], self=slf, kwargs={}, region_to_extent=_spy_region_to_extent(ext))
                d["__ghost__"].update(self=slf, extents=ext)
                return d
            yield label, f

    def _self(self):
        return self._ghost()["self"]

    def requires(self, region, **kw):
        g = self._ghost()
        r = _CoolerRegionBase.requires(self, self._self(), region)
        ids, sizes, chrom, s2, e2 = self._resolve(self._self(), region)
        off, start = g["grp"]["indexes"]["chrom_offset"], g["grp"]["bins"]["start"]
        c = ids.get(chrom)
        # the chromosome's bins are rows of the bin table (part of the representation invariant)
        return r + [Implies(ids.has(chrom), And(0 <= off[c], off[c + 1] <= L(start)))]

    @property
    def raises(self):
        return {"ValueError": lambda region=None, **kw: self._bad(self._self(), region)}


@contract
class BinsFetch(_ClosureRegionBase):
    """C04: Cooler.bins().fetch(region) resolves the range to exactly the extent of C04 (the run of bins of that
    chromosome overlapping the range), refusing exactly the ranges parse_region refuses."""
    target = f"{API}:Cooler.bins._fetch"
    props = ["C04"]

    def ensures(self, result, region):
        return RegionToExtentTuple.ensures(self, result, *self._callee_args(self._self(), region))


@contract
class PixelsFetch(_ClosureRegionBase):
    """C04: Cooler.pixels().fetch(region) resolves the range to the pixel rows [bin1_offset[i0], bin1_offset[i1]) where
    (i0, i1) is the extent of C04 for that range: the pixels whose row bin overlaps the range."""
    target = f"{API}:Cooler.pixels._fetch"
    props = ["C04"]

    def ensures(self, result, region):
        g = self._ghost()
        ext = g["extents"]
        out = {"one-extent-lookup": len(ext) == 1}
        if len(ext) != 1:
            return out
        i0, i1 = ext[0][2]
        b1o = g["grp"]["indexes"]["bin1_offset"]
        spec = RegionToExtentTuple.ensures(self, (i0, i1), *self._callee_args(self._self(), region))
        for nm, cl in spec.items():
            if nm.startswith("hint:") or nm in RegionToExtentTuple.not_assumed:
                continue
            out["extent:" + nm] = cl
        lo, hi = result
        out["rows-of-the-extent"] = And(lo == b1o[i0], hi == b1o[i1])
        return out


@contract
class MatrixFetch(_ClosureRegionBase):
    """C04: Cooler.matrix().fetch(region[, region2]) resolves to (i0, i1, j0, j1): the extent of the first range on the
    rows and of the second range - the first when none is given - on the columns."""
    target = f"{API}:Cooler.matrix._fetch"
    props = ["C04"]

    def configs(self, v):
        for label, mk in _ClosureRegionBase.configs(self, v):
            def one(v, mk=mk):
                d = mk(v)
                d["region2"] = None
                return d

            def two(v, mk=mk):
                d = mk(v)
                chrom2 = v.Str("chrom2")
                d["region2"] = (chrom2, v.Int("s2"), v.Int("e2"))
                return d
            yield label + ",one-region", one
            if label.endswith("start=int,end=int"):
                yield label + ",two-regions", two

    def requires(self, region, region2=None):
        r = _ClosureRegionBase.requires(self, region)
        if region2 is not None:
            r = r + _ClosureRegionBase.requires(self, region2)
        return r

    @property
    def raises(self):
        def bad(region=None, region2=None):
            b = self._bad(self._self(), region)
            return b if region2 is None else Or(b, self._bad(self._self(), region2))
        return {"ValueError": bad}

    def ensures(self, result, region, region2=None):
        out = {"four-bounds": len(result) == 4}
        if len(result) != 4:
            return out
        i0, i1, j0, j1 = result
        rows = RegionToExtentTuple.ensures(self, (i0, i1), *self._callee_args(self._self(), region))
        cols = RegionToExtentTuple.ensures(self, (j0, j1), *self._callee_args(self._self(), region if region2 is None else region2))
        for side, spec in (("rows", rows), ("cols", cols)):
            for nm, cl in spec.items():
                if nm.startswith("hint:") or nm in RegionToExtentTuple.not_assumed:
                    continue
                out[f"{side}:{nm}"] = cl
        return out


# ------------------------------------------------------------------ the selector objects (C14, C01)
class _SelectorBase(Contract):
    """Cooler.chroms()/bins()/pixels(): a RangeSelector1D over ALL columns whose row count is the collection's own count
    for that table, and whose slicer performs one read of that table of the collection's own group with the caller's
    fields, bounds and reader options (recording stub in place of the module-level reader; open_hdf5 assumed)."""
    table = None
    count_key = None
    has_fetch = True
    props = ["C14"]

    def configs(self, v):
        def mk(join):
            def f(v):
                calls = []
                grp = Opaque("the collection's group")
                opened = []

                def open_(I, store, **k):
                    opened.append((store, k))
                    return _H5Ctx("/some/group", grp)
                slf = v.Obj("Cooler", API, store=Opaque("store"), open_kws={"locking": Opaque("lk")}, root="/some/group",
                            _info={"nchroms": v.Int("nchroms"), "nbins": v.Int("nbins"), "nnz": v.Int("nnz"), "bin-size": None},
                            _chromsizes=Opaque("chromsizes"), _chromids=Opaque("chromids"))

                def rec(name):
                    def r(I, *a, **k):
                        calls.append((name, a, k))
                        return Opaque("frame returned by " + name)
                    return LibFunc(name, r)
                kw = {"convert_enum": v.Bool("convert_enum"), "as_dict": v.Bool("as_dict")}
                d = dict(self=slf, kwargs=kw,
                         __free__={"open_hdf5": LibFunc("open_hdf5", open_), "chroms": rec("chroms"), "bins": rec("bins"),
                                   "pixels": rec("pixels")},
                         __ghost__={"calls": calls, "grp": grp, "opened": opened, "kw": kw})
                if join is not None:
                    d["join"] = join
                return d
            return f
        if self.table == "pixels":
            yield "join=symbolic", lambda v: mk(v.Bool("join"))(v)
            yield "join=default", mk(None)
        else:
            yield "", mk(None)

    def ensures(self, result, self_, kwargs, join=False):
        I, v = self._I, self._v
        g = v.path.ghost
        calls = g["calls"]
        out = {"is-a-table-selector": isinstance(result, Obj) and result.cls.name == "RangeSelector1D"}
        if not out["is-a-table-selector"]:
            return out
        out["all-columns-selected"] = result.attrs["fields"] is None
        out["row-count-is-the-tables-own"] = result.attrs["_shape"][0] == self_.attrs["_info"][self.count_key]
        out["fetcher-present-iff-rows-have-coordinates"] = (result.attrs["_fetch"] is not None) == self.has_fetch
        out["nothing-read-before-slicing"] = len(calls) == 0 and len(g["opened"]) == 0
        fields, lo, hi = Opaque("fields"), v.Int("lo"), v.Int("hi")
        r = I.call(result.attrs["_slice"], [fields, lo, hi], {})
        out["one-read-of-the-right-table"] = len(calls) == 1 and calls[0][0] == self.table
        if len(calls) != 1:
            return out
        _, a, k = calls[0]
        out["reads-the-collections-own-group"] = a[0] is g["grp"] and len(g["opened"]) == 1 and g["opened"][0][0] is self_.attrs["store"] \
            and g["opened"][0][1].get("locking") is self_.attrs["open_kws"]["locking"]
        out["bounds-and-fields-passed"] = And(a[1] == lo, a[2] == hi) if a[3] is fields else False
        out["reader-options-passed"] = k.get("convert_enum") is g["kw"]["convert_enum"] and k.get("as_dict") is g["kw"]["as_dict"]
        out["returns-what-the-reader-returned"] = isinstance(r, Opaque) and r.tag == "frame returned by " + self.table
        if self.table == "pixels":
            j = a[4] if len(a) > 4 else k.get("join")
            out["join-flag-passed"] = (j is join) if not isinstance(join, bool) else (j is join or j == join)
        return out


@contract
class CoolerChroms(_SelectorBase):
    target = f"{API}:Cooler.chroms"
    table, count_key, has_fetch = "chroms", "nchroms", False


@contract
class CoolerBins(_SelectorBase):
    target = f"{API}:Cooler.bins"
    table, count_key = "bins", "nbins"
    props = ["C14", "C04"]


@contract
class CoolerPixels(_SelectorBase):
    target = f"{API}:Cooler.pixels"
    table, count_key = "pixels", "nnz"
    props = ["C14", "C01"]


# ------------------------------------------------------------------ the table readers api.chroms / api.bins / api.pixels
from contracts.createfn import _Stub  # noqa: E402
from pyvc.values import LibNS  # noqa: E402


class _Index(_Stub):
    """pandas.Index over concrete column names: append and drop_duplicates (first occurrence kept) - assumed"""

    def __init__(self, items):
        self.items = list(items)

    def m_append(self, I, other):
        return _Index(self.items + list(other.items))

    def m_drop_duplicates(self, I):
        seen = []
        for x in self.items:
            if x not in seen:
                seen.append(x)
        return _Index(seen)

    def pyvc_contains(self, I, item):
        return item in self.items


class _Table(_Stub):
    """what get() returns, seen through the operations bins() applies to it"""

    def __init__(self, tag, int_chrom, series=False):
        self.tag, self.int_chrom, self.series = tag, int_chrom, series
        self.stores = []
        self.index = Opaque("index of " + tag)
        self.name = Opaque("name of " + tag)
        self.dtype = ("dtype-of", self)

    def pyvc_getitem(self, I, key, node):
        return _TableCol(self, key)

    def pyvc_setitem(self, I, key, val):
        self.stores.append((key, val))


class _TableCol(_Stub):
    def __init__(self, table, name):
        self.table, self.name = table, name
        self.dtype = ("dtype-of", table)


STD_COLS = {"chroms": ["name", "length"], "bins": ["chrom", "start", "end"], "pixels": ["bin1_id", "bin2_id"]}


class _ReaderBase(Contract):
    """api.chroms / api.bins / api.pixels (h5, lo, hi, fields, **kwargs): exactly one read of the rows [lo, hi) of the
    table's own group with the caller's fields - by default the standard columns first, then every other stored column in
    stored order, none twice - and the caller's reader options."""
    table = None
    props = ["C14"]
    stored = {"chroms": ["length", "name", "gc"], "bins": ["chrom", "end", "start", "weight", "KR"],
              "pixels": ["bin2_id", "count", "bin1_id", "extra"]}

    def _mk(self, fields, **more):
        def f(v):
            calls = []
            h5 = {t: {c: Opaque(f"{t}/{c}") for c in cols} for t, cols in self.stored.items()}
            int_chrom = v.Bool("chrom_column_is_integer")
            tab = {}

            def get(I, grp, lo=0, hi=None, fields=None, **k):
                t = _Table("get#%d" % len(calls), int_chrom, series=isinstance(fields, str))
                calls.append(("get", (grp, lo, hi, fields), k, t))
                tab[len(calls)] = t
                return t

            def rec(name):
                def r(I, *a, **k):
                    out = Opaque("result of " + name + "#%d" % len(calls))
                    calls.append((name, a, k, out))
                    return out
                return LibFunc(name, r)

            def is_int(I, dt):
                return int_chrom if (isinstance(dt, tuple) and dt[0] == "dtype-of") else False
            kw = {"as_dict": v.Bool("as_dict")}
            if more.get("convert_enum") is not None:
                kw["convert_enum"] = more["convert_enum"]
            pd_ns = LibNS("pd", {"Index": LibFunc("pd.Index", lambda I, items: _Index(items)),
                                 "Categorical": LibNS("pd.Categorical", {"from_codes": rec("Categorical.from_codes")}),
                                 "Series": rec("pd.Series")})
            d = dict(h5=h5, lo=v.Int("lo"), hi=v.Int("hi"), fields=fields, kwargs=kw,
                     __free__={"get": LibFunc("get", get), "pd": pd_ns, "is_integer_dtype": LibFunc("is_integer_dtype", is_int),
                               "annotate": rec("annotate"), "chroms": rec("chroms")},
                     __ghost__={"calls": calls, "h5": h5, "kw": kw, "int_chrom": int_chrom})
            if "join" in more:
                d["join"] = more["join"]
            if self.table == "chroms":
                del d["__free__"]["chroms"]
            return d
        return f

    def configs(self, v):
        yield "fields=default", self._mk(None)
        yield "fields=list", self._mk(["start", "weight"] if self.table == "bins" else ["count"] if self.table == "pixels" else ["length"])
        yield "fields=name", self._mk("end" if self.table == "bins" else "count" if self.table == "pixels" else "name")

    def _first_read(self, out, h5, lo, hi, fields):
        g = self._v.path.ghost
        calls = g["calls"]
        gets = [c for c in calls if c[0] == "get"]
        out["reads-its-own-table-first"] = len(gets) >= 1 and calls[0][0] == "get" and gets[0][1][0] is g["h5"][self.table]
        if not gets:
            return None
        (grp, glo, ghi, gf), k, t = gets[0][1], gets[0][2], gets[0][3]
        out["caller's-bounds"] = And(glo == lo, ghi == hi)
        if fields is None:
            std = STD_COLS[self.table]
            want = std + [c for c in self.stored[self.table] if c not in std]
            out["default-fields-standard-first-then-stored-order-none-twice"] = isinstance(gf, _Index) and gf.items == want
        else:
            out["caller's-fields"] = gf is fields
        out["reader-options-passed"] = all(k.get(n) is val for n, val in g["kw"].items()) and set(k) == set(g["kw"])
        return t

    def ensures(self, result, h5, lo, hi, fields, kwargs):
        out = {}
        t = self._first_read(out, h5, lo, hi, fields)
        out["exactly-one-read"] = len(self._v.path.ghost["calls"]) == 1
        out["returns-the-rows-read"] = result is t
        return out


@contract
class ApiChroms(_ReaderBase):
    target = f"{API}:chroms"
    table = "chroms"


@contract
class ApiPixels(_ReaderBase):
    """... and with join=True the bin ids are replaced by the coordinates of their bins: annotate(rows read, the WHOLE bin
    table's chrom/start/end read with the same options, replace=True)"""
    target = f"{API}:pixels"
    table = "pixels"
    props = ["C14", "C01"]

    def configs(self, v):
        for label, mk in _ReaderBase.configs(self, v):
            for j in (True, False):
                fields = mk.__closure__ and None
                yield f"{label},join={j}", (lambda v, mk=mk, j=j: dict(mk(v), join=j))

    def ensures(self, result, h5, lo, hi, fields, join, kwargs):
        g = self._v.path.ghost
        calls = g["calls"]
        out = {}
        t = self._first_read(out, h5, lo, hi, fields)
        if t is None:
            return out
        if not join:
            out["exactly-one-read"] = len(calls) == 1
            out["returns-the-rows-read"] = result is t
            return out
        out["join:read-bins-then-annotate"] = [c[0] for c in calls] == ["get", "get", "annotate"]
        if [c[0] for c in calls] != ["get", "get", "annotate"]:
            return out
        (grp, blo, bhi, bf), k, bt = calls[1][1], calls[1][2], calls[1][3]
        out["join:whole-bin-table-coordinates"] = grp is g["h5"]["bins"] and bhi is None and (blo == 0) is True \
            and list(bf) == ["chrom", "start", "end"]
        out["join:same-reader-options"] = all(k.get(n) is val for n, val in g["kw"].items())
        a, ak = calls[2][1], calls[2][2]
        out["join:annotates-the-rows-read-with-those-bins-replacing-ids"] = a[0] is t and a[1] is bt and \
            ((len(a) > 2 and a[2] is True) or ak.get("replace") is True)
        out["join:returns-the-annotated-rows"] = result is calls[2][3]
        return out


@contract
class ApiBins(_ReaderBase):
    """... and an integer chromosome column (no enum header in the file) is converted to the chromosome NAMES of this
    collection (ordered categorical from the codes read and chroms/name) unless convert_enum=False was passed; a column
    that is already decoded, or a selection without the chromosome column, is returned as read."""
    target = f"{API}:bins"
    table = "bins"
    props = ["C14", "C18"]

    def configs(self, v):
        for ce, lab in ((None, "convert_enum=default"), (True, "convert_enum=True"), (False, "convert_enum=False")):
            yield f"fields=default,{lab}", self._mk(None, convert_enum=ce)
            yield f"fields=list-with-chrom,{lab}", self._mk(["chrom", "weight"], convert_enum=ce)
            yield f"fields=chrom,{lab}", self._mk("chrom", convert_enum=ce)
        yield "fields=list-without-chrom", self._mk(["start", "weight"])
        yield "fields=name-not-chrom", self._mk("end")

    def ensures(self, result, h5, lo, hi, fields, kwargs):
        g = self._v.path.ghost
        calls = g["calls"]
        out = {}
        t = self._first_read(out, h5, lo, hi, fields)
        if t is None:
            return out
        has_chrom = fields is None or fields == "chrom" or (isinstance(fields, list) and "chrom" in fields)
        conv_asked = kwargs.get("convert_enum", True)
        names = [c[0] for c in calls]
        converted = "Categorical.from_codes" in names
        if not has_chrom or conv_asked is False:
            out["returned-as-read"] = result is t and len(calls) == 1 and not t.stores
            return out
        # the decision is the dtype of the chromosome column that was read
        out["converted-iff-integer-codes"] = Iff(g["int_chrom"], converted) if is_sym(g["int_chrom"]) else bool(g["int_chrom"]) == converted
        if not converted:
            out["returned-as-read"] = result is t and len(calls) == 1 and not t.stores
            return out
        ic = names.index("Categorical.from_codes")
        out["names-come-from-this-collection"] = names.count("chroms") == 1 and names.index("chroms") < ic and \
            calls[names.index("chroms")][1][0] is g["h5"] and calls[names.index("chroms")][2].get("fields") == "name"
        if names.count("chroms") != 1:
            return out
        a, k = calls[ic][1], calls[ic][2]
        codes = a[0]
        out["codes-are-the-column-read"] = (codes is t) if isinstance(fields, str) else (isinstance(codes, _TableCol) and codes.table is t and codes.name == "chrom")
        out["categories-are-the-stored-names-in-order"] = a[1] is calls[names.index("chroms")][3]
        cat = calls[ic][3]
        if isinstance(fields, str):
            ser = [c for c in calls if c[0] == "pd.Series"]
            idx_arg = (ser[0][1][1] if len(ser[0][1]) > 1 else ser[0][2].get("index")) if len(ser) == 1 else None
            out["series-keeps-the-row-labels"] = len(ser) == 1 and len(ser[0][1]) >= 1 and ser[0][1][0] is cat and idx_arg is t.index \
                and result is ser[0][3]
        else:
            out["only-the-chromosome-column-replaced"] = result is t and t.stores == [("chrom", cat)]
        return out


# ------------------------------------------------------------------ annotate (C14, C12)
from pyvc.lib_pandas import DataFrameV, SeriesV, offset_index, frame_rows  # noqa: E402

SEL = "cooler.core._selectors"

BIN_COLS = ["chrom", "start", "end", "weight"]


@contract
class Annotate(Contract):
    """C14: annotate(pixels, bins, replace) attaches to EVERY pixel, in the pixels' own order and under the pixels' own
    index, the columns of ITS OWN two bins (suffix 1 for the row bin, 2 for the column bin), for a bin table given whole or
    as any contiguous part - rows labelled first .. first+nb-1 - that contains the needed bins; the pixel columns are kept
    (the two id columns dropped iff replace), the new columns come first."""
    target = f"{API}:annotate"
    props = ["C14", "C12"]

    def configs(self, v):
        def mk(pcols, replace, whole, selector=False):
            def f(v):
                npx, nb = v.Int("npix"), v.Int("nbins_given")
                first = z3.IntVal(0) if whole else v.Int("first_label")
                pix = DataFrameV({c: v.Arr("pixels." + c, n=npx) for c in pcols}, v.Arr("pixels.index", n=npx))
                bins = DataFrameV({c: v.Arr("bins." + c, n=nb) for c in BIN_COLS}, None if whole else offset_index(nb, first))
                table = DataFrameV(dict(bins.cols), bins.index)
                if selector:
                    def slicer(I, fields, lo, hi):
                        # the slicer of Cooler.bins(): rows [lo, hi) labelled lo.. (contract of _tableops.get); called with
                        # bounds inside the table (obliged here)
                        I.path.oblige("pre", f"slicer-bounds#{I.path.ordinal('slicer')}", And(0 <= lo, lo <= hi, hi <= nb))
                        return frame_rows(I, table, lo, hi)
                    bins = v.Obj("RangeSelector1D", SEL, fields=None, _slice=LibFunc("bins slicer (get contract)", slicer), _fetch=None,
                                 _shape=(nb,))
                return dict(pixels=pix, bins=bins, replace=replace,
                            __ghost__=dict({"npx": npx, "nb": nb, "first": first, "pix": DataFrameV(dict(pix.cols), pix.index),
                                            "bins": table, "pcols": pcols, "selector": selector,
                                            # flat copies for concretisation at replay
                                            "pcols_csv": ",".join(pcols), "whole": whole, "pixels.index": pix.index},
                                           **{"pixels." + c: a for c, a in pix.cols.items()},
                                           **{"bins." + c: a for c, a in table.cols.items()}))
            return f
        for pcols, lab in ((["bin1_id", "bin2_id", "count"], "both-ids"), (["bin1_id", "count"], "row-id-only"),
                           (["count", "bin2_id"], "column-id-only"), (["bin2_id", "bin1_id", "count", "extra"], "ids-swapped+extra")):
            for replace in (False, True):
                for whole in (True, False):
                    yield f"{lab},replace={replace},{'whole-table' if whole else 'contiguous-part'}", mk(pcols, replace, whole)
                yield f"{lab},replace={replace},bin-selector", mk(pcols, replace, True, True)

    def requires(self, pixels, bins, replace):
        g = self._v.path.ghost
        npx, nb, first, pix = g["npx"], g["nb"], g["first"], g["pix"]
        r = [npx >= 0, nb >= 0, first >= 0]
        for idc in ("bin1_id", "bin2_id"):
            if idc in pix.cols:
                a = pix.cols[idc]
                # the part given contains the needed bins
                r.append(forall(0, npx, lambda k, a=a: And(first <= a[k], a[k] < first + nb)))
        return r

    def ensures(self, result, pixels, bins, replace):
        g = self._v.path.ghost
        npx, nb, first, pix, bt, pcols = g["npx"], g["nb"], g["first"], g["pix"], g["bins"], g["pcols"]
        out = {"is-a-frame": isinstance(result, DataFrameV)}
        if not out["is-a-frame"]:
            return out
        want = []
        for idc, suf in (("bin1_id", "1"), ("bin2_id", "2")):
            if idc in pcols:
                want += [c + suf for c in BIN_COLS]
        kept = [c for c in pcols if not (replace and c in ("bin1_id", "bin2_id"))]
        out["columns:annotations-first-then-the-pixel-columns"] = list(result.cols.keys()) == want + kept
        if list(result.cols.keys()) != want + kept:
            return out
        out["one-row-per-pixel"] = And(*[L(a) == npx for a in result.cols.values()])
        for idc, suf in (("bin1_id", "1"), ("bin2_id", "2")):
            if idc not in pcols:
                continue
            ids = pix.cols[idc]
            for c in BIN_COLS:
                out[f"{c}{suf}-is-the-value-of-the-pixels-own-bin"] = forall(
                    0, npx, lambda k, c=c, suf=suf, ids=ids: result.cols[c + suf][k] == bt.cols[c][ids[k] - first])
        for c in kept:
            out[f"pixel-column-{c}-unchanged-in-order"] = forall(0, npx, lambda k, c=c: result.cols[c][k] == pix.cols[c][k])
        ri = result.index
        out["pixels-index-kept"] = (ri is not None) and And(L(ri) == npx, forall(0, npx, lambda k: ri[k] == pix.index[k]))
        return out
