"""Contracts for pixel validation (C13a, C02): _validate_pixels."""
from pyvc.api import *  # noqa: F401,F403
from contracts.common import *  # noqa: F401,F403

ING = "cooler.create._ingest"


@contract
class ValidatePixels(Contract):
    """C13(a): a chunk is accepted iff it has no out-of-range bin id (boundscheck), no lower-triangle
    pixel (triucheck) and no pixel duplicated within the chunk (dupcheck); otherwise BadInputError.
    The accepted chunk is returned unchanged (sorted by (bin1,bin2) when requested)."""
    target = f"{ING}:_validate_pixels"
    props = ["C13", "C02"]

    def configs(self, v):
        from pyvc.lib_pandas import DataFrameV

        def f(v):
            b1 = v.Arr("bin1_id")
            b2 = v.Arr("bin2_id", n=b1.n)
            cnt = v.Arr("count", n=b1.n)
            return dict(chunk=DataFrameV({"bin1_id": b1, "bin2_id": b2, "count": cnt}), n_bins=v.Int("n_bins"),
                        boundscheck=v.Bool("boundscheck"), triucheck=v.Bool("triucheck"), dupcheck=v.Bool("dupcheck"),
                        ensure_sorted=v.Bool("ensure_sorted"))
        yield "", f

    def _cols(self, chunk):
        return chunk.cols["bin1_id"], chunk.cols["bin2_id"]

    def _bad(self, chunk, n_bins, boundscheck, triucheck, dupcheck):
        b1, b2 = self._cols(chunk)
        n = L(b1)
        oob = exists(0, n, lambda k: Or(b1[k] < 0, b2[k] < 0, b1[k] >= n_bins, b2[k] >= n_bins))
        tril = exists(0, n, lambda k: b1[k] > b2[k])
        k1 = z3.Int("dup!k1")
        k2 = z3.Int("dup!k2")
        dup = z3.Exists([k1, k2], And(0 <= k1, k1 < k2, k2 < n, b1[k1] == b1[k2], b2[k1] == b2[k2]))
        return Or(And(boundscheck, oob), And(triucheck, tril), And(dupcheck, dup))

    @property
    def raises(self):
        return {"BadInputError": lambda chunk=None, n_bins=None, boundscheck=None, triucheck=None, dupcheck=None,
                ensure_sorted=None: self._bad(chunk, n_bins, boundscheck, triucheck, dupcheck)}

    def ensures(self, result, chunk, n_bins, boundscheck, triucheck, dupcheck, ensure_sorted):
        b1, b2 = self._cols(chunk)
        n = L(b1)
        r1, r2, rc = result.cols["bin1_id"], result.cols["bin2_id"], result.cols["count"]
        perm = getattr(result, "_perm", None)
        src = (lambda k: perm(k)) if perm is not None else (lambda k: k)
        return {
            "in-range": Implies(boundscheck, forall(0, n, lambda k: And(0 <= b1[k], b1[k] < n_bins, 0 <= b2[k], b2[k] < n_bins))),
            "upper-triangular": Implies(triucheck, forall(0, n, lambda k: b1[k] <= b2[k])),
            "no-duplicate-in-chunk": Implies(dupcheck, forall2(0, n, 0, n, lambda k1, k2: Implies(
                k1 < k2, Not(And(b1[k1] == b1[k2], b2[k1] == b2[k2]))))),
            "same-records": And(L(r1) == n, forall(0, n, lambda k: And(
                0 <= src(k), src(k) < n, r1[k] == b1[src(k)], r2[k] == b2[src(k)], rc[k] == chunk.cols["count"][src(k)]))),
            "unchanged-order-unless-sorting": Implies(Not(ensure_sorted), forall(0, n, lambda k: src(k) == k)),
            "sorted-when-requested": Implies(ensure_sorted, forall2(0, n, 0, n, lambda k1, k2: Implies(
                k1 <= k2, Or(r1[k1] < r1[k2], And(r1[k1] == r1[k2], r2[k1] <= r2[k2]))))),
        }
