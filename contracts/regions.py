"""Contracts for genomic-range -> bin-extent mapping (C04) and parse_region (C04/C19)."""
from pyvc.api import *  # noqa: F401,F403
from contracts.common import *  # noqa: F401,F403

RQ = "cooler.core._rangequery"
UT = "cooler.util"


MAXCOORD = 2 ** 40   # magnitude bound that justifies FDIV64 (a + b < 2^53)


def mk_bintable(v, fixed):
    nchrom = v.Int("nchrom")
    off = v.Arr("chrom_offset", n=nchrom + 1)
    start = v.Arr("bins.start")
    end = v.Arr("bins.end", n=start.n)
    clen = v.Arr("clen", n=nchrom)
    return nchrom, off, start, end, clen


@contract
class RegionToExtent(Contract):
    """C04: the extent of (chrom, s, e), 0 <= s <= e <= clen, is the run of
    bins of that chromosome overlapping [s, e); an empty range selects at most
    one bin, the one containing its position."""
    target = f"{RQ}:_region_to_extent"
    props = ["C04"]
    not_assumed = ("empty-range-at-chromosome-end-selects-nothing",)   # known finding: never assumed by callers

    def configs(self, v):
        def mk(fixed):
            def f(v):
                nchrom, off, start, end, clen = mk_bintable(v, fixed)
                has = v.Fn("chromids.has", z3.StringSort(), z3.BoolSort())
                cid = v.Fn("chromids.id", z3.StringSort(), z3.IntSort())
                chrom = v.Str("chrom")
                h5 = {"indexes": {"chrom_offset": off}, "bins": {"start": start, "end": end}}
                return dict(h5=h5, chrom_ids=SymMap(lambda k: has(k), lambda k: cid(k), "chrom_ids"),
                            region=(chrom, v.Int("s"), v.Int("e")),
                            binsize=(v.Int("binsize") if fixed else None),
                            __ghost__={"clen": clen, "nchrom": nchrom})
            return f
        yield "fixed", mk(True)
        yield "variable", mk(False)

    def _parts(self, h5, chrom_ids, region):
        off = h5["indexes"]["chrom_offset"]
        start, end = h5["bins"]["start"], h5["bins"]["end"]
        chrom, s, e = region
        c = chrom_ids.get(chrom)
        return off, start, end, c, s, e

    def requires(self, h5, chrom_ids, region, binsize):
        off, start, end, c, s, e = self._parts(h5, chrom_ids, region)
        g = self._ghost()
        clen, nchrom = g["clen"], g["nchrom"]
        r = [chrom_ids.has(region[0]), 0 <= c, c < nchrom, L(off) == nchrom + 1, L(clen) == nchrom,
             valid_bins_at(off, start, end, clen, c),
             0 <= s, s <= e, e <= clen[c], clen[c] < MAXCOORD]
        if binsize is not None:
            # the fixed-width fast path is sound only if the recorded size describes every bin (C20)
            r += [fixed_bins_at(off, start, end, clen, c, binsize), binsize < MAXCOORD]
        return r

    def _ghost(self):
        return self._v.path.ghost

    def result(self, v, **a):
        return GenV([v.Int("ext.lo"), v.Int("ext.hi")])

    def ensures(self, result, h5, chrom_ids, region, binsize):
        off, start, end, c, s, e = self._parts(h5, chrom_ids, region)
        items = result.items if hasattr(result, "items") and not isinstance(result, (tuple, list)) else list(result)
        out = {"yields-two-values": len(items) == 2}
        if len(items) != 2:
            return out
        lo, hi = items
        if binsize is not None:
            nb = off[c + 1] - off[c]
            clen = self._ghost()["clen"]
            # the last bin of the chromosome starts at (nb-1)*b and ends at clen <= nb*b
            out["hint:last-bin-start"] = start[off[c + 1] - 1] == (nb - 1) * binsize
            out["hint:length-vs-bin-count"] = And((nb - 1) * binsize < clen[c], clen[c] <= nb * binsize)
            out["hint:floor-start"] = And(div(s, binsize) * binsize <= s, s < div(s, binsize) * binsize + binsize)
            out["hint:ceil-end"] = And(cdiv(e, binsize) * binsize >= e, e > cdiv(e, binsize) * binsize - binsize)
            out["hint:lo-hi-values"] = And(lo == off[c] + div(s, binsize), hi == off[c] + cdiv(e, binsize))
            out["hint:lo-in-chrom"] = Implies(s < clen[c], And(off[c] <= lo, lo < off[c + 1]))
            out["hint:hi-in-chrom"] = And(off[c] <= hi, hi <= off[c + 1])
        out.update({
            "within-chromosome": And(off[c] <= lo, lo <= hi, hi <= off[c + 1]),
            "exactly-the-overlapping-bins": Implies(s < e, forall(off[c], off[c + 1], lambda k: Iff(
                And(lo <= k, k < hi), And(start[k] < e, end[k] > s)))),
            "nonempty-range-starts-in-its-first-bin": Implies(s < e, And(lo < hi, start[lo] <= s, s < end[lo])),
            "empty-range-at-most-one-bin": Implies(s == e, hi - lo <= 1),
            "empty-range-bin-contains-position": Implies(And(s == e, hi - lo == 1, s < end[off[c + 1] - 1]),
                                                         And(start[lo] <= s, s < end[lo])),
            "empty-range-at-chromosome-end-selects-nothing": Implies(And(s == e, s == end[off[c + 1] - 1]), hi == lo),
        })
        return out


@contract
class ParseRegionTuple(Contract):
    """C04/C19: (chrom, start or 0, end or length) with 0 <= start <= end <= length;
    ValueError exactly for unknown chromosome, end < start, start < 0, end > length,
    or an open end without a length table."""
    target = f"{UT}:parse_region"
    props = ["C04", "C19"]

    def configs(self, v):
        def mk(kind, sn, en, sizes):
            def f(v):
                has = v.Fn("chromsizes.has", z3.StringSort(), z3.BoolSort())
                ln = v.Fn("chromsizes.len", z3.StringSort(), z3.IntSort())
                cs = SymMap(lambda k: has(k), lambda k: ln(k), "chromsizes") if sizes else None
                if kind == "tuple":
                    reg = (v.Str("chrom"), None if sn else v.Int("start"), None if en else v.Int("end"))
                else:
                    reg = v.Str("regstr")
                return dict(reg=reg, chromsizes=cs)
            return f
        for sn in (False, True):
            for en in (False, True):
                for sizes in (True, False):
                    yield f"tuple,start={'None' if sn else 'int'},end={'None' if en else 'int'},sizes={sizes}", \
                        mk("tuple", sn, en, sizes)
        yield "string,sizes=True", mk("str", 0, 0, True)

    def _resolved(self, reg, chromsizes):
        chrom, start, end = reg
        s = 0 if start is None else start
        known = True if chromsizes is None else chromsizes.has(chrom)
        clen = None if chromsizes is None else chromsizes.get(chrom)
        e = end if end is not None else clen
        return chrom, s, e, known, clen

    def requires(self, reg, chromsizes):
        if chromsizes is not None and isinstance(reg, tuple):
            return [Implies(chromsizes.has(reg[0]), chromsizes.get(reg[0]) >= 0)]
        return []

    def _bad(self, reg, chromsizes):
        if not isinstance(reg, tuple):
            return None
        chrom, s, e, known, clen = self._resolved(reg, chromsizes)
        if e is None:
            return True          # open end and no length table
        conds = [Not(known), e < s, s < 0]
        if clen is not None:
            conds.append(e > clen)
        return Or(*conds)

    @property
    def raises(self):
        def cond(reg=None, chromsizes=None):
            b = self._bad(reg, chromsizes)
            return True if b is None else b     # string form: refusals are parse_region_string's (C19 bounded)
        return {"ValueError": cond}

    @property
    def must_raise(self):
        def cond(reg=None, chromsizes=None):
            b = self._bad(reg, chromsizes)
            return False if b is None else b
        return {"ValueError": cond}

    def result(self, v, reg, chromsizes):
        return (v.Str("pr.chrom"), v.Int("pr.start"), v.Int("pr.end"))

    def ensures(self, result, reg, chromsizes):
        rc, rs, re_ = result
        if isinstance(reg, tuple):
            chrom, s, e, known, clen = self._resolved(reg, chromsizes)
            out = {"chrom": rc == chrom, "start": rs == s, "end": rs <= re_}
            if e is not None:
                out["end-value"] = re_ == e
            out["start-nonneg"] = rs >= 0
            if clen is not None:
                out["within-length"] = And(known, re_ <= clen)
            return out
        # string form (modular use / body): whatever was parsed, the result is in bounds
        out = {"ordered": And(0 <= rs, rs <= re_)}
        if chromsizes is not None:
            out["known-and-within-length"] = And(chromsizes.has(rc), re_ <= chromsizes.get(rc))
        return out


@contract
class ParseRegionString(Contract):
    """ASSUMED here (regex tokeniser is outside the encoding); checked by the
    grammar-exhaustive bounded tier of C19."""
    target = f"{UT}:parse_region_string"
    props = ["C19"]
    trusted = True
    raises = {"ValueError": lambda s=None: z3.Bool("prs.refused") if z3 is not None else False}
    raises_exact = False

    def configs(self, v):
        return []

    def result(self, v, s):
        chrom = v.Str("prs.chrom")
        v.assume(z3.Length(chrom) > 0)
        if v.path.branch(v.Bool("prs.bare")):
            return (chrom, None, None)
        st = v.Int("prs.start")
        v.assume(st >= 0)
        if v.path.branch(v.Bool("prs.open")):
            return (chrom, st, None)
        en = v.Int("prs.end")
        v.assume(en >= st)
        return (chrom, st, en)


@contract
class RegionToExtentTuple(RegionToExtent):
    """region_to_extent: the two values of _region_to_extent as a tuple (checked against the callee's contract)"""
    target = f"{RQ}:region_to_extent"
    props = ["C04"]

    def result(self, v, **a):
        return (v.Int("ext.lo"), v.Int("ext.hi"))

    def ensures(self, result, h5, chrom_ids, region, binsize):
        out = {"is-a-pair": isinstance(result, tuple) and len(result) == 2}
        if not out["is-a-pair"]:
            return out
        ens = RegionToExtent.ensures(self, list(result), h5, chrom_ids, region, binsize)
        out.update({k: c for k, c in ens.items() if not k.startswith("hint:") and k not in self.not_assumed})
        return out


@contract
class RegionToOffset(RegionToExtent):
    """region_to_offset: the first bin of the extent (for a non-empty range: the first overlapping bin)"""
    target = f"{RQ}:region_to_offset"
    props = ["C04"]

    def result(self, v, **a):
        return v.Int("ext.lo")

    def ensures(self, result, h5, chrom_ids, region, binsize):
        off, start, end, c, s, e = self._parts(h5, chrom_ids, region)
        lo = result
        return {
            "within-chromosome": And(off[c] <= lo, lo <= off[c + 1]),
            "first-overlapping-bin": Implies(s < e, And(lo < off[c + 1], start[lo] <= s, s < end[lo], forall(
                off[c], lo, lambda k: Not(And(start[k] < e, end[k] > s))))),
        }


API = "cooler.api"


class _H5Ctx:
    """open_hdf5(store, **kws) as h5: h5[root] is the collection's group"""

    def __init__(self, root, grp):
        self.root, self.grp = root, grp

    def pyvc_enter(self, I):
        return {self.root: self.grp}

    def pyvc_exit(self, I, exc):
        return None


def _cooler_configs(v_unused):
    from pyvc.values import LibFunc

    def mk(fixed, sn, en):
        def f(v):
            nchrom, off, start, end, clen = mk_bintable(v, fixed)
            has = v.Fn("chromids.has", z3.StringSort(), z3.BoolSort())
            cid = v.Fn("chromids.id", z3.StringSort(), z3.IntSort())
            shas = v.Fn("chromsizes.has", z3.StringSort(), z3.BoolSort())
            slen = v.Fn("chromsizes.len", z3.StringSort(), z3.IntSort())
            chrom = v.Str("chrom")
            grp = {"indexes": {"chrom_offset": off}, "bins": {"start": start, "end": end}}
            binsize = v.Int("binsize") if fixed else None
            ids = SymMap(lambda k: has(k), lambda k: cid(k), "chrom_ids")
            sizes = SymMap(lambda k: shas(k), lambda k: slen(k), "chromsizes")
            slf = v.Obj("Cooler", API, store=Opaque("store"), open_kws={}, root="/", _chromids=ids, _chromsizes=sizes,
                        _info={"bin-size": binsize, "nbins": start.n})
            region = (chrom, None if sn else v.Int("s"), None if en else v.Int("e"))
            return dict(self=slf, region=region,
                        __free__={"open_hdf5": LibFunc("open_hdf5", lambda I, *a, **k: _H5Ctx("/", grp))},
                        __ghost__={"clen": clen, "nchrom": nchrom, "grp": grp, "binsize": binsize,
                                   # flat copies for concretisation at replay
                                   "off": off, "start": start, "end": end, "c": cid(chrom), "known": has(chrom)})
        return f
    for fixed in (True, False):
        for sn in (False, True):
            for en in (False, True):
                yield (f"{'fixed' if fixed else 'variable'},start={'None' if sn else 'int'},end={'None' if en else 'int'}",
                       mk(fixed, sn, en))


class _CoolerRegionBase(RegionToExtent):
    """Cooler.extent / Cooler.offset: parse_region against the cached chromosome lengths, then the extent
    mapping on the collection's group with the recorded bin size.  Preconditions are the representation
    invariant of a Cooler object for the chromosome named (cached ids / lengths agree with the stored table;
    the recorded bin size, when not None, describes the bins: what C20's get_binsize contract establishes
    at creation time)."""
    props = ["C04"]

    def configs(self, v):
        return _cooler_configs(v)

    def _resolve(self, self_, region):
        ids, sizes = self_.attrs["_chromids"], self_.attrs["_chromsizes"]
        chrom, s, e = region
        s2 = 0 if s is None else s
        e2 = sizes.get(chrom) if e is None else e
        return ids, sizes, chrom, s2, e2

    def requires(self, self_, region):
        g = self._ghost()
        ids, sizes, chrom, s2, e2 = self._resolve(self_, region)
        clen, nchrom, grp, binsize = g["clen"], g["nchrom"], g["grp"], g["binsize"]
        off, start, end = grp["indexes"]["chrom_offset"], grp["bins"]["start"], grp["bins"]["end"]
        c = ids.get(chrom)
        r = [Iff(sizes.has(chrom), ids.has(chrom)),
             Implies(ids.has(chrom), And(0 <= c, c < nchrom, sizes.get(chrom) == clen[c],
                                         valid_bins_at(off, start, end, clen, c), clen[c] < MAXCOORD)),
             L(off) == nchrom + 1, L(clen) == nchrom]
        if binsize is not None:
            r += [Implies(ids.has(chrom), fixed_bins_at(off, start, end, clen, c, binsize)), binsize < MAXCOORD, binsize > 0]
        return r

    def _bad(self, self_, region):
        ids, sizes, chrom, s2, e2 = self._resolve(self_, region)
        return Or(Not(sizes.has(chrom)), e2 < s2, s2 < 0, e2 > sizes.get(chrom))

    @property
    def raises(self):
        return {"ValueError": lambda self_=None, region=None: self._bad(self_, region)}

    def _callee_args(self, self_, region):
        g = self._ghost()
        ids, sizes, chrom, s2, e2 = self._resolve(self_, region)
        return g["grp"], ids, (chrom, s2, e2), g["binsize"]


@contract
class CoolerExtent(_CoolerRegionBase):
    target = f"{API}:Cooler.extent"

    def ensures(self, result, self_, region):
        return RegionToExtentTuple.ensures(self, result, *self._callee_args(self_, region))


@contract
class CoolerOffset(_CoolerRegionBase):
    target = f"{API}:Cooler.offset"

    def ensures(self, result, self_, region):
        return RegionToOffset.ensures(self, result, *self._callee_args(self_, region))
