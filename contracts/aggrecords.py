"""Coordinator contract for create._ingest:aggregate_records (C05): the function it returns groups the bin-assigned records by
PIXEL (both bin ids), counts the records of each pixel into a `count` column (group size: every retained record counted exactly
once) unless the caller aggregates a `count` column itself or asked for no count, applies the caller's aggregations to the other
columns, and returns the pixel keys as ordinary columns; group keys sorted iff asked.
ASSUMED (stub): pandas groupby(keys, sort).aggregate(dict).rename(columns).reset_index() - 'size' is the number of rows of the
group."""
from pyvc.api import *  # noqa: F401,F403
from pyvc.values import LibFunc
from contracts.common import *  # noqa: F401,F403

ING = "cooler.create._ingest"


class _Chain:
    def __init__(self, log, stage="frame"):
        self.log, self.stage = log, stage

    def pyvc_getattr(self, I, attr, node):
        def call(I, *a, **k):
            self.log.append((attr, a, k))
            return _Chain(self.log, attr)
        return LibFunc("pandas." + attr, call)


@contract
class AggregateRecords(Contract):
    target = f"{ING}:aggregate_records"
    props = ["C05"]

    def configs(self, v):
        def mk(count, agg, rename, sort):
            def f(v):
                return dict(sort=sort, count=count, agg=(dict(agg) if agg is not None else None),
                            rename=(dict(rename) if rename is not None else None),
                            __ghost__={"agg0": dict(agg or {}), "rename0": dict(rename or {}), "count": count})
            return f
        S = None
        for sort in ("sym",):
            yield "count,no-aggregations", lambda v: mk(True, None, None, v.Bool("sort"))(v)
            yield "count,user-aggregations", lambda v: mk(True, {"mapq": "max", "w": "mean"}, None, v.Bool("sort"))(v)
            yield "count-column-aggregated-by-the-user", lambda v: mk(True, {"count": "sum"}, None, v.Bool("sort"))(v)
            yield "no-count", lambda v: mk(False, {"w": "sum"}, {"w": "weight"}, v.Bool("sort"))(v)

    def ensures(self, result, sort, count, agg, rename):
        I = self._I
        g = self._v.path.ghost
        log = []
        out = I.call(result, [_Chain(log)], {})
        names = [e[0] for e in log]
        o = {"group-aggregate-rename-keys-back-as-columns": names == ["groupby", "aggregate", "rename", "reset_index"]}
        if names != ["groupby", "aggregate", "rename", "reset_index"]:
            return o
        gb, ag, rn, ri = log
        o["grouped-by-pixel:both-bin-ids"] = list(gb[1][0]) == ["bin1_id", "bin2_id"]
        so = gb[2].get("sort")
        o["group-keys-sorted-iff-asked"] = (so is sort)
        want_agg = dict(g["agg0"])
        want_ren = dict(g["rename0"])
        if g["count"] and "count" not in g["agg0"]:
            want_agg["bin1_id"] = "size"
            want_ren["bin1_id"] = "count"
        o["every-record-counted-once:count-is-the-group-size-unless-the-caller-aggregates-count"] = dict(ag[1][0]) == want_agg
        o["count-column-named-count:callers-renames-kept"] = dict(rn[2].get("columns") or {}) == want_ren
        o["returns-the-aggregated-frame"] = isinstance(out, _Chain) and out.stage == "reset_index"
        return o
