"""Coordinator contract for `cooler cload pairs` (cli.cload:pairs; C16, C05): the column layout of the pairs file.

The four positional options -c1 -p1 -c2 -p2 take EVERY arrangement of a family of layouts (standard 4DN order, permuted, ids
after the value columns), `--field` options are concrete per configuration; the rest is symbolic/opaque.  parse_field_param is
executed inline; other calls are recording stubs.  Verified: pandas reads exactly one file column per field and the name
attached to file column c is the field the user put at column c (names attach in ascending file order: assumed contract of
read_csv); value columns are stored in the order given with the user's dtype and aggregation (default sum), count is always
stored; records are sanitized against the parsed bin table as genomic pairs (names decoded, validation on, one-based unless
--zero-based, reflect / drop by copy status and symmetry), then aggregated with exactly those aggregations, and every chunk of
the reader goes through both, in that order, into create_cooler(ordered=False) with the caller's paths and options."""
from pyvc.api import *  # noqa: F401,F403
from pyvc.values import LibFunc, LibNS
from contracts.common import *  # noqa: F401,F403
from contracts.cliload import _parse_field

CLOAD = "cooler.cli.cload"


def _parse_field_agg(arg):
    name, col, dt = _parse_field(arg.split(",agg=")[0] if ",agg=" in arg else (arg.split(":agg=")[0] if ":agg=" in arg else arg))
    agg = arg.split("agg=", 1)[1].split(",")[0] if "agg=" in arg else None
    return name, col, dt, agg


@contract
class CliCloadPairs(Contract):
    target = f"{CLOAD}:pairs"
    props = ["C16", "C05"]
    raises_exact = False

    def configs(self, v):
        def mk(pos, field, copy_status="unique", no_symm=False, append=False):
            def f(v):
                log = []
                bins = Opaque("bin table from parse_bins")
                w = {"log": log, "bins": bins, "pos": pos, "field": field, "copy_status": copy_status, "no_symm": no_symm, "append": append}

                def rec(name, ret=None):
                    def r(I, *a, **k):
                        out = ret if ret is not None else Opaque("result of " + name)
                        log.append((name, a, k, out))
                        return out
                    return LibFunc(name, r)
                reader = Opaque("chunk reader")
                np_ns = v.path.engine.lib["numpy"]
                np2 = LibNS("numpy", dict(np_ns._members, dtype=LibFunc("np.dtype", lambda I, t: ("dtype", t)), int64="int64"))
                zero_based = v.Bool("zero_based")
                sym = {"chunksize": v.Int("chunksize"), "mergebuf": v.Int("mergebuf"), "max_merge": v.Int("max_merge"),
                       "cool_path": v.Str("cool_path"), "pairs_path": v.Str("pairs_path"), "assembly": Opaque("assembly"),
                       "temp_dir": Opaque("temp_dir"), "no_delete_temp": v.Bool("no_delete_temp")}
                w.update(sym=sym, zero_based=zero_based, reader=reader)

                class _Handle:
                    handle = Opaque("file handle")

                    def pyvc_getattr(self, I, attr, node):
                        if attr == "handle":
                            return self.handle
                        raise Exception("get_handle()." + attr)

                    def pyvc_getitem(self, I, key, node):
                        return self.handle
                free = {"parse_bins": LibFunc("parse_bins", lambda I, p: (Opaque("chromsizes"), bins)),
                        "sanitize_records": rec("sanitize_records"), "aggregate_records": rec("aggregate_records"),
                        "compose": LibFunc("compose", lambda I, *fs: ("compose",) + tuple(fs)),
                        "pd": LibNS("pd", {"read_csv": rec("read_csv", reader)}),
                        "create_cooler": rec("create_cooler"),
                        "get_handle": LibFunc("get_handle", lambda I, p, **k: (log.append(("get_handle", p, k)), _Handle())[1]),
                        "get_header": LibFunc("get_header", lambda I, f_: (None, f_)),
                        "_pandas_version": ("2", "1", "0"),
                        "np": np2, "map": LibFunc("map", lambda I, fn, it: ("map", fn, it)),
                        "sys": LibNS("sys", {"stdin": Opaque("stdin")})}
                return dict(bins=v.Str("bins_arg"), pairs_path=sym["pairs_path"], cool_path=sym["cool_path"], metadata=None,
                            assembly=sym["assembly"], zero_based=zero_based, comment_char=Opaque("comment_char"),
                            input_copy_status=copy_status, no_symmetric_upper=no_symm, field=tuple(field), chunksize=sym["chunksize"],
                            mergebuf=sym["mergebuf"], temp_dir=sym["temp_dir"], no_delete_temp=sym["no_delete_temp"],
                            max_merge=sym["max_merge"], storage_options=None, append=append,
                            kwargs=dict(chrom1=pos[0], pos1=pos[1], chrom2=pos[2], pos2=pos[3]),
                            __free__=free, __ghost__=dict(w, __free_deep__=True))
            return f
        yield "4dn-order", mk((2, 3, 4, 5), [])
        yield "mates-swapped", mk((4, 5, 2, 3), [], copy_status="duplex")
        yield "positions-before-names", mk((2, 1, 4, 3), ["mapq=5:dtype=int32,agg=max"])
        yield "ids-after-values", mk((6, 7, 8, 9), ["score=1:dtype=float64", "n=3"], no_symm=True)
        yield "interleaved-descending", mk((7, 5, 3, 1), ["w=6:agg=mean", "count:dtype=int64"], append=True)

    def ensures(self, result, **a):
        w = self._v.path.ghost
        log, pos, field, sym = w["log"], w["pos"], w["field"], w["sym"]
        o = {}
        number = {"chrom1": pos[0] - 1, "pos1": pos[1] - 1, "chrom2": pos[2] - 1, "pos2": pos[3] - 1}
        in_names = ["chrom1", "pos1", "chrom2", "pos2"]
        out_names, out_dtypes, aggs = [], {}, {}
        for arg in field:
            name, col, dt, agg = _parse_field_agg(arg)
            if col is None:
                if dt is not None and name in ("bin1_id", "bin2_id", "count"):
                    out_dtypes[name] = ("dtype", dt)
                continue
            if name not in in_names:
                in_names.append(name)
            if name not in out_names:
                out_names.append(name)
            number[name] = col
            if dt is not None:
                out_dtypes[name] = ("dtype", dt)
            aggs[name] = agg if agg is not None else "sum"
        if "count" not in out_names:
            out_names.append("count")
        reads = [e for e in log if e[0] == "read_csv"]
        o["one-reader"] = len(reads) == 1
        if len(reads) == 1:
            _, ra, rk, _ = reads[0]
            use, names = list(rk.get("usecols") or []), list(rk.get("names") or [])
            o["reader:one-file-column-per-input-field-none-twice"] = sorted(names) == sorted(in_names) and len(use) == len(names) \
                and len(set(use)) == len(use)
            if len(use) == len(names) and len(set(use)) == len(use) and set(names) == set(in_names):
                attached = dict(zip(names, sorted(use)))
                o["reader:each-field-is-read-from-the-column-the-user-put-it-at"] = attached == {n: number[n] for n in in_names}
            o["reader:tab-separated-in-chunks-of-the-callers-size"] = rk.get("sep") == "\t" and rk.get("chunksize") is sym["chunksize"] \
                and rk.get("iterator") is True
        san = [e for e in log if e[0] == "sanitize_records"]
        agg_ = [e for e in log if e[0] == "aggregate_records"]
        o["one-sanitizer-one-aggregator"] = len(san) == 1 and len(agg_) == 1
        symm = not w["no_symm"]
        tril = None if not symm else {"unique": "reflect", "duplex": "drop"}.get(w["copy_status"])
        if len(san) == 1 and len(agg_) == 1:
            _, sa, sk, sfn = san[0]
            ob = sk.get("is_one_based")
            o["sanitizer:genomic-pairs-against-the-parsed-bins-validated"] = sa[0] is w["bins"] and sk.get("schema") == "pairs" \
                and sk.get("decode_chroms") is True and sk.get("validate") is True and sk.get("tril_action") == tril
            o["sanitizer:one-based-unless-zero-based"] = Iff(ob, Not(w["zero_based"])) if is_sym(ob) else False
            _, aa, ak, afn = agg_[0]
            o["aggregator:the-users-aggregations-default-sum-and-a-count"] = dict(ak.get("agg") or {}) == aggs and ak.get("count") is True
            cr = [e for e in log if e[0] == "create_cooler"]
            o["one-ingest"] = len(cr) == 1
            if len(cr) == 1 and len(reads) == 1:
                _, ca, ck, _ = cr[0]
                o["ingest:into-the-callers-path-with-the-parsed-bins"] = ca[0] is sym["cool_path"] and ca[1] is w["bins"]
                pl = ca[2]
                # compose(f, g)(x) = f(g(x)): sanitize first, aggregate second
                o["ingest:every-chunk-sanitized-then-aggregated"] = isinstance(pl, tuple) and pl[0] == "map" and pl[2] is w["reader"] \
                    and isinstance(pl[1], tuple) and pl[1] == ("compose", afn, sfn)
                o["ingest:stored-columns-value-columns-in-the-order-given-count-always"] = list(ck.get("columns") or []) == out_names
                dts = ck.get("dtypes") or {}
                o["ingest:dtypes-users"] = all(dts.get(n) == out_dtypes[n] for n in out_dtypes)
                o["ingest:unordered-with-symmetry-mode-and-options"] = ck.get("ordered") is False and ck.get("symmetric_upper") is symm \
                    and ck.get("mode") == ("a" if w["append"] else "w") and ck.get("mergebuf") is sym["mergebuf"] \
                    and ck.get("max_merge") is sym["max_merge"] and ck.get("temp_dir") is sym["temp_dir"] and ck.get("assembly") is sym["assembly"]
        return o
