"""Contract for util:GenomeSegmentation.fetch (C04): the bins of a genome segmentation that cover a genomic range.  For every
chromosome with valid bins (first start 0, consecutive, non-empty, last end = length) and every range 0 <= start < end <= length:
the rows returned are exactly the bins of that chromosome overlapping [start, end), in order; the whole chromosome is returned
for the whole-chromosome range.  parse_region is applied through its own contract (contracts/regions.py).
ASSUMED: groupby(...).get_group(name) returns the chromosome's rows in table order; numpy.searchsorted (pyvc model, sortedness
obliged); DataFrame.iloc[lo:hi]."""
from pyvc.api import *  # noqa: F401,F403
from pyvc.values import LibFunc, SymMap
from pyvc.lib_pandas import DataFrameV
from contracts.common import *  # noqa: F401,F403

UT = "cooler.util"
MAXC = 2 ** 40


@contract
class GenomeSegmentationFetch(Contract):
    target = f"{UT}:GenomeSegmentation.fetch"
    props = ["C04"]
    raises_exact = False

    def configs(self, v):
        def f(v):
            n = v.Int("nbins_of_chrom")
            st, en = v.Arr("start", n=n), v.Arr("end", n=n)
            grp = DataFrameV({"chrom": v.Arr("chrom", n=n), "start": st, "end": en}, None)
            chrom = v.Str("chrom_name")
            has = v.Fn("chromsizes.has", z3.StringSort(), z3.BoolSort())
            ln = v.Fn("chromsizes.len", z3.StringSort(), z3.IntSort())
            sizes = SymMap(lambda k: has(k), lambda k: ln(k), "chromsizes")

            class _Grouped:
                def pyvc_getattr(self, I, attr, node):
                    if attr == "get_group":
                        return LibFunc("GroupBy.get_group", lambda I, key: grp)
                    raise Exception("GroupBy." + attr)
            slf = v.Obj("GenomeSegmentation", UT, chromsizes=sizes, _bins_grouped=_Grouped())
            s_, e_ = v.Int("start"), v.Int("end")
            return dict(self=slf, region=(chrom, s_, e_),
                        __ghost__={"n": n, "st": st.at, "en": en.at, "clen": ln(chrom), "known": has(chrom), "s": s_, "e": e_, "grp": grp})
        yield "", f

    def requires(self, self_, region):
        g = self._v.path.ghost
        n, st, en, clen, s, e = g["n"], g["st"], g["en"], g["clen"], g["s"], g["e"]
        return [g["known"], n >= 1, clen < MAXC, st(0) == 0, en(n - 1) == clen,
                forall(0, n - 1, lambda k: st(k + 1) == en(k)), forall(0, n, lambda k: st(k) < en(k)),
                forall2(0, n, 0, n, lambda k1, k2: Implies(k1 < k2, And(st(k1) < st(k2), en(k1) < en(k2), en(k1) <= st(k2)))),
                0 <= s, s < e, e <= clen]

    @property
    def raises(self):
        return {"ValueError": lambda **a: False}

    def ensures(self, result, ghost, self_, region):
        g = self._v.path.ghost
        n, st, en, s, e = g["n"], g["st"], g["en"], g["s"], g["e"]
        o = {"a-frame": isinstance(result, DataFrameV)}
        if not o["a-frame"]:
            return o
        rs, re_ = result.cols["start"], result.cols["end"]
        m = L(rs)
        lo = self._v.Int("first_row")
        # the rows are a contiguous run [lo, lo+m) of the chromosome's bins ...
        o["hint:run"] = And(0 <= m, m <= n)
        # witness for "there is a first row q": the row the code computed (0 when the whole chromosome is returned)
        loc = ghost.get("__locals__", {})
        q = loc.get("lo", z3.IntVal(0))
        o["rows-are-exactly-the-overlapping-bins-in-order"] = And(
            0 <= q, q + m <= n,
            forall(0, m, lambda t: And(rs[t] == st(q + t), re_[t] == en(q + t))),
            forall(0, n, lambda k: Iff(And(q <= k, k < q + m), And(st(k) < e, en(k) > s))))
        return o


@contract
class Bedslice(GenomeSegmentationFetch):
    """util.bedslice: the same range query on a grouped BED-like frame given explicitly"""
    target = f"{UT}:bedslice"
    props = ["C04"]

    def configs(self, v):
        for label, mk in GenomeSegmentationFetch.configs(self, v):
            def f(v, mk=mk):
                d = mk(v)
                slf = d.pop("self")
                d["grouped"] = slf.attrs["_bins_grouped"]
                d["chromsizes"] = slf.attrs["chromsizes"]
                return d
            yield label, f

    def requires(self, grouped, chromsizes, region):
        return GenomeSegmentationFetch.requires(self, None, region)

    def ensures(self, result, ghost, grouped, chromsizes, region):
        return GenomeSegmentationFetch.ensures(self, result, ghost, None, region)
