"""Contracts for the per-chunk filters of the balancing pipeline (C10(i), C11 frame)."""
from pyvc.api import *  # noqa: F401,F403
from contracts.common import *  # noqa: F401,F403

BAL = "cooler._balance"


def _chunk(v, real_data=False):
    b1 = v.Arr("bin1_id")
    b2 = v.Arr("bin2_id", n=b1.n)
    cnt = v.Arr("count", n=b1.n)
    chrom = v.Arr("bins.chrom")
    chunk = {"pixels": {"bin1_id": b1, "bin2_id": b2, "count": cnt}, "bins": {"chrom": chrom}}
    data = v.Arr("data", kind="real" if real_data else "int", n=b1.n)
    return chunk, data


def _frame_ok(chunk, snap):
    """no per-chunk function writes the shared chunk: every array still has the element function it had"""
    ok = True
    for grp in ("pixels", "bins"):
        for k, a in chunk[grp].items():
            ok = ok and (a.at is snap[(grp, k)])
    return ok


def _snap(chunk):
    return {(grp, k): a.at for grp in ("pixels", "bins") for k, a in chunk[grp].items()}


class _Filter(Contract):
    props = ["C10", "C11"]
    real = False

    def configs(self, v):
        def f(v):
            chunk, data = _chunk(v, self.real)
            d = dict(chunk=chunk, data=data, __ghost__={"snap": _snap(chunk), "data0": data.at, "n": data.n})
            d.update(self.extra(v))
            return d
        yield "", f

    def extra(self, v):
        return {}

    def requires(self, chunk, data, **kw):
        b1, b2 = chunk["pixels"]["bin1_id"], chunk["pixels"]["bin2_id"]
        nb = L(chunk["bins"]["chrom"])
        return [forall(0, L(b1), lambda k: And(0 <= b1[k], b1[k] < nb, 0 <= b2[k], b2[k] < nb))]

    def expected(self, k, chunk, d0, **kw):
        raise NotImplementedError

    def ensures(self, result, chunk, data, **kw):
        g = self._v.path.ghost
        d0 = g["data0"]
        n = g["n"]
        return {
            "elementwise": And(L(result) == n, forall(0, n, lambda k: result[k] == self.expected(k, chunk, d0, **kw))),
            "chunk-not-written": _frame_ok(chunk, g["snap"]),
        }


@contract
class Binarize(_Filter):
    target = f"{BAL}:_binarize"

    def expected(self, k, chunk, d0, **kw):
        return If(d0(k) != 0, 1, d0(k))


@contract
class ZeroDiags(_Filter):
    """a pixel is zeroed iff |bin1 - bin2| < n_diags (strictly)"""
    target = f"{BAL}:_zero_diags"

    def extra(self, v):
        return {"n_diags": v.Int("n_diags")}

    def expected(self, k, chunk, d0, n_diags=None, **kw):
        b1, b2 = chunk["pixels"]["bin1_id"], chunk["pixels"]["bin2_id"]
        return If(Abs(b1[k] - b2[k]) < n_diags, 0, d0(k))


@contract
class ZeroTrans(_Filter):
    target = f"{BAL}:_zero_trans"

    def expected(self, k, chunk, d0, **kw):
        c = chunk["bins"]["chrom"]
        b1, b2 = chunk["pixels"]["bin1_id"], chunk["pixels"]["bin2_id"]
        return If(c[b1[k]] != c[b2[k]], 0, d0(k))


@contract
class ZeroCis(_Filter):
    target = f"{BAL}:_zero_cis"

    def expected(self, k, chunk, d0, **kw):
        c = chunk["bins"]["chrom"]
        b1, b2 = chunk["pixels"]["bin1_id"], chunk["pixels"]["bin2_id"]
        return If(c[b1[k]] == c[b2[k]], 0, d0(k))


@contract
class TimesOuterProduct(_Filter):
    """data * vec[bin1] * vec[bin2] (reals; NaN propagation through * is assumed, not modelled)"""
    target = f"{BAL}:_timesouterproduct"
    real = True

    def extra(self, v):
        return {"vec": v.Arr("vec", kind="real")}

    def requires(self, chunk, data, vec=None, **kw):
        r = super().requires(chunk, data)
        return r + [L(vec) == L(chunk["bins"]["chrom"])]

    def expected(self, k, chunk, d0, vec=None, **kw):
        b1, b2 = chunk["pixels"]["bin1_id"], chunk["pixels"]["bin2_id"]
        return vec[b1[k]] * vec[b2[k]] * d0(k)


@contract
class Init(Contract):
    """the pipeline starts from a FRESH copy of the counts: later filters cannot write through to the chunk"""
    target = f"{BAL}:_init"
    props = ["C10", "C11"]

    def configs(self, v):
        def f(v):
            chunk, _ = _chunk(v)
            return dict(chunk=chunk, __ghost__={"snap": _snap(chunk)})
        yield "", f

    def ensures(self, result, chunk):
        cnt = chunk["pixels"]["count"]
        return {"copy-of-counts": And(L(result) == L(cnt), forall(0, L(cnt), lambda k: result[k] == cnt[k])),
                "fresh-array": result is not cnt,
                "chunk-not-written": _frame_ok(chunk, self._v.path.ghost["snap"])}
