"""Coordinator contract for _reduce:coarsen_cooler (C08, C09): what the coarsener and create() are given.
ASSUMED (stubs): Cooler attributes, multiprocessing.Pool, CoolerCoarsener (own contracts for __init__/_aggregate),
create (own contract)."""
from pyvc.api import *  # noqa: F401,F403
from pyvc.values import LibFunc, LibNS
from contracts.common import *  # noqa: F401,F403

RED = "cooler._reduce"


@contract
class CoarsenCooler(Contract):
    """every requested value column must exist in the input (else ValueError before anything is created) and gets the
    caller's dtype when given, else the INPUT's dtype for that column; the coarsener is built from the base URI with the
    caller's factor, chunk size, columns and agg, batch size = nproc, and a pool map exactly when nproc > 1; the output is
    created at output_uri from the coarsener's new bin table with the coarsener as pixel stream, the same columns and
    those dtypes, symmetric iff the input is, appending by default; a pool that was opened is closed"""
    target = f"{RED}:coarsen_cooler"
    props = ["C08", "C09"]

    def configs(self, v):
        def mk(columns, given, parallel, missing=False):
            def f(v):
                log = []
                cols = columns or ["count"]
                in_dt = {c: Opaque(f"input dtype of {c}") for c in cols if not (missing and c == cols[-1])}
                mode = v.Str("storage_mode")
                new_bins = Opaque("new bin table")

                class _Sel:
                    def pyvc_getattr(self, I, attr, node):
                        if attr == "dtypes":
                            return dict(in_dt)
                        raise Exception("selector." + attr)

                class _Clr:
                    def pyvc_getattr(self, I, attr, node):
                        if attr == "pixels":
                            return LibFunc("Cooler.pixels", lambda I, **k: _Sel())
                        if attr == "storage_mode":
                            return mode
                        if attr == "filename":
                            return "input"
                        raise Exception("Cooler." + attr)

                class _It:
                    def pyvc_getattr(self, I, attr, node):
                        if attr == "new_bins":
                            return new_bins
                        raise Exception("CoolerCoarsener." + attr)
                it = _It()
                pool_map = Opaque("pool.map")

                class _Pool:
                    def pyvc_getattr(self, I, attr, node):
                        if attr == "map":
                            return pool_map
                        if attr == "close":
                            return LibFunc("Pool.close", lambda I: log.append(("pool.close",)))
                        raise Exception("Pool." + attr)

                def Pool(I, n):
                    log.append(("Pool", n))
                    return _Pool()

                def rec(name, ret=None):
                    def f_(I, *a, **kw):
                        log.append((name, a, kw))
                        return ret
                    return LibFunc(name, f_)
                nproc = v.Int("nproc")
                dts = None if not given else {cols[0]: Opaque("caller dtype")}
                base, outu = v.Str("base_uri"), v.Str("output_uri")
                gl_lock = Opaque("module lock")
                w = {"log": log, "cols": cols, "in_dt": in_dt, "mode": mode, "new_bins": new_bins, "it": it, "pool_map": pool_map,
                     "given": dict(dts) if dts else None, "parallel": parallel, "nproc": nproc, "missing": missing, "lock": gl_lock,
                     "columns_arg": columns}
                return dict(base_uri=base, output_uri=outu, factor=v.Int("factor"), chunksize=v.Int("chunksize"), nproc=nproc,
                            columns=columns, dtypes=dts, agg=Opaque("agg"), kwargs={"mode": Opaque("mode kwarg")},
                            __free__={"Cooler": LibFunc("Cooler", lambda I, u: (log.append(("Cooler", u)), _Clr())[1]),
                                      "mp": LibNS("mp", {"Pool": LibFunc("mp.Pool", Pool)}),
                                      "CoolerCoarsener": rec("CoolerCoarsener", it), "create": rec("create"), "lock": gl_lock},
                            __ghost__=w)
            return f
        for parallel in (False, True):
            yield f"default-column,{'parallel' if parallel else 'serial'}", mk(None, False, parallel)
            yield f"two-columns,dtype-given-for-one,{'parallel' if parallel else 'serial'}", mk(["count", "extra"], True, parallel)
        yield "column-missing-in-the-input", mk(["count", "extra"], False, False, True)

    def requires(self, **a):
        w = self._v.path.ghost
        r = [Or(w["mode"] == z3.StringVal("symmetric-upper"), w["mode"] == z3.StringVal("square")), a["factor"] >= 2]
        r.append(w["nproc"] > 1 if w["parallel"] else w["nproc"] == 1)
        return r

    @property
    def raises(self):
        return {"ValueError": lambda **a: self._v.path.ghost["missing"]}

    def ensures_raise(self, exc, **a):
        log = self._v.path.ghost["log"]
        return {"refused-before-anything-is-created": not [op for op in log if op[0] in ("create", "CoolerCoarsener", "Pool")]}

    def ensures(self, result, base_uri, output_uri, factor, chunksize, nproc, columns, dtypes, agg, kwargs):
        w = self._v.path.ghost
        log, cols = w["log"], w["cols"]
        out = {}
        cc = [op for op in log if op[0] == "CoolerCoarsener"]
        cr = [op for op in log if op[0] == "create"]
        out["one-coarsener-one-create"] = len(cc) == 1 and len(cr) == 1
        if not out["one-coarsener-one-create"]:
            return out
        a, kw = cc[0][1], cc[0][2]
        out["coarsener-from-the-base-with-factor-and-chunksize"] = And(a[1] == factor, a[2] == chunksize) if (len(a) == 3 and a[0] is base_uri) else False
        out["coarsener-gets-columns-agg-batchsize"] = kw.get("columns") == cols and kw.get("agg") is agg and kw.get("batchsize") is nproc
        pools = [op for op in log if op[0] == "Pool"]
        if w["parallel"]:
            out["parallel:pool-of-nproc-workers-and-its-map"] = len(pools) == 1 and pools[0][1] is nproc and kw.get("map") is w["pool_map"]
            out["parallel:pool-closed-afterwards"] = [op[0] for op in log].count("pool.close") == 1 and [op[0] for op in log].index("pool.close") > [op[0] for op in log].index("create")
        else:
            out["serial:no-pool-builtin-map"] = not pools and getattr(kw.get("map"), "name", None) in ("map", "builtins.map") or (not pools and kw.get("map") is not w["pool_map"])
        ca, ckw = cr[0][1], cr[0][2]
        out["created-at-the-output-uri-from-the-coarseners-bins-and-stream"] = len(ca) == 3 and ca[0] is output_uri and ca[1] is w["new_bins"] and ca[2] is w["it"]
        su = ckw.get("symmetric_upper")
        sym = w["mode"] == z3.StringVal("symmetric-upper")
        out["symmetric-iff-the-input-is"] = Iff(su, sym) if not isinstance(su, bool) else (sym if su else Not(sym))
        out["columns-passed"] = ckw.get("columns") == cols
        out["appends-by-default-and-passes-the-callers-options"] = ckw.get("append") is True and ckw.get("mode") is kwargs["mode"]
        if w["parallel"]:
            out["parallel:writer-shares-the-module-lock"] = ckw.get("lock") is w["lock"]
        d = ckw.get("dtypes")
        ok = isinstance(d, dict) and sorted(d) == sorted(cols)
        out["every-requested-column-has-a-dtype"] = ok
        if ok:
            for c in cols:
                if w["given"] and c in w["given"]:
                    out[f"dtype[{c}]-is-the-callers"] = d[c] is w["given"][c]
                else:
                    out[f"dtype[{c}]-is-the-inputs"] = d[c] is w["in_dt"][c]
        return out
