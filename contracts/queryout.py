"""Contracts for the output assembly of a matrix query (C03): concat / transpose / *_slice_from_dict and
BaseRangeQuery2D.get / to_sparse_matrix / to_array / to_frame.

"Dense, sparse and pixel-table outputs describe the same values": all three are built from the SAME record
dictionary get() returns - the tasks' results concatenated in task order (each task executed exactly once) -
with coordinates shifted by the window's origin and the window's shape.
ASSUMED: scipy.sparse.coo_matrix / toarray and pandas.DataFrame constructors (structural stubs), numpy.concatenate."""
from pyvc.api import *  # noqa: F401,F403
from pyvc.values import LibFunc, LibNS
from pyvc.lib_misc import CooMatrixV
from contracts.common import *  # noqa: F401,F403

RQ = "cooler.core._rangequery"


def _dct(v, tag="", index=False):
    b1 = v.Arr(tag + "bin1_id")
    d = {"bin1_id": b1, "bin2_id": v.Arr(tag + "bin2_id", n=b1.n), "count": v.Arr(tag + "count", n=b1.n)}
    if index:
        d["__index"] = v.Arr(tag + "__index", n=b1.n)
    return d


@contract
class Transpose(Contract):
    """the two id columns are exchanged, in place; every other column is left as it is"""
    target = f"{RQ}:transpose"
    props = ["C03"]
    inline = True

    def configs(self, v):
        def f(v):
            d = _dct(v, index=True)
            return dict(dct=d, __ghost__={"snap": dict(d)})
        yield "", f

    def ensures(self, result, dct):
        s = self._v.path.ghost["snap"]
        return {"same-dictionary": result is dct,
                "ids-exchanged": result["bin1_id"] is s["bin2_id"] and result["bin2_id"] is s["bin1_id"],
                "values-and-index-untouched": result["count"] is s["count"] and result["__index"] is s["__index"]
                and sorted(result) == sorted(s)}


@contract
class SpmatrixSlice(Contract):
    """sparse output of a window: the records' values at (bin1 - row_start, bin2 - col_start) in a matrix of the
    window's shape"""
    target = f"{RQ}:spmatrix_slice_from_dict"
    props = ["C03"]
    inline = True

    def configs(self, v):
        def f(v):
            return dict(dct=_dct(v), row_start=v.Int("i0"), row_stop=v.Int("i1"), col_start=v.Int("j0"), col_stop=v.Int("j1"),
                        field="count")
        yield "", f

    def ensures(self, result, dct, row_start, row_stop, col_start, col_stop, field):
        ok = isinstance(result, CooMatrixV) and isinstance(result.shape, tuple) and len(result.shape) == 2
        out = {"a-coordinate-matrix": ok}
        if ok:
            n = L(dct["bin1_id"])
            out["window-shape"] = And(result.shape[0] == row_stop - row_start, result.shape[1] == col_stop - col_start)
            out["values-are-the-records-field"] = result.data is dct[field]
            out["coordinates-relative-to-the-window-origin"] = And(
                L(result.row) == n, L(result.col) == n,
                forall(0, n, lambda k: And(result.row[k] == dct["bin1_id"][k] - row_start, result.col[k] == dct["bin2_id"][k] - col_start)))
        return out


@contract
class ArraySlice(Contract):
    """dense output = the sparse output made dense (same records, same origin, same shape)"""
    target = f"{RQ}:array_slice_from_dict"
    props = ["C03"]
    inline = True

    def configs(self, v):
        def f(v):
            return dict(dct=_dct(v), row_start=v.Int("i0"), row_stop=v.Int("i1"), col_start=v.Int("j0"), col_stop=v.Int("j1"),
                        field="count")
        yield "", f

    def ensures(self, result, dct, row_start, row_stop, col_start, col_stop, field):
        ok = isinstance(result, tuple) and len(result) == 2 and result[0] == "dense array of" and isinstance(result[1], CooMatrixV)
        out = {"dense-form-of-the-sparse-output": ok}
        if ok:
            m = result[1]
            n = L(dct["bin1_id"])
            out["same-records-origin-and-shape"] = And(
                m.shape[0] == row_stop - row_start, m.shape[1] == col_stop - col_start, m.data is dct[field],
                forall(0, n, lambda k: And(m.row[k] == dct["bin1_id"][k] - row_start, m.col[k] == dct["bin2_id"][k] - col_start)))
        return out


@contract
class FrameSlice(Contract):
    """pixel-table output: the two id columns and the field, in that order, labelled with the stored row numbers when
    the records carry them"""
    target = f"{RQ}:frame_slice_from_dict"
    props = ["C03"]
    inline = True

    def configs(self, v):
        def mk(index):
            def f(v):
                log = []

                def DataFrame(I, data=None, columns=None, index=None, **k):
                    log.append((data, columns, index, k))
                    return Opaque("frame")
                return dict(dct=_dct(v, index=index), field="count",
                            __free__={"pd": LibNS("pd", {"DataFrame": LibFunc("pd.DataFrame", DataFrame)})},
                            __ghost__={"log": log, "index": index})
            return f
        yield "with-row-numbers", mk(True)
        yield "without-row-numbers", mk(False)

    def ensures(self, result, dct, field):
        g = self._v.path.ghost
        log = g["log"]
        out = {"one-frame": len(log) == 1}
        if len(log) == 1:
            data, columns, index, k = log[0]
            out["built-from-the-records"] = data is dct and not k
            out["id-columns-then-the-field"] = columns == ["bin1_id", "bin2_id", field]
            out["labelled-with-the-stored-row-numbers-when-present"] = (index is dct["__index"]) if g["index"] else index is None
        return out


@contract
class Concat(Contract):
    """column by column, the arrays of the dictionaries joined in argument order; no dictionary: empty result"""
    target = f"{RQ}:concat"
    props = ["C03"]
    inline = True

    def configs(self, v):
        def mk(k):
            def f(v):
                ds = tuple(_dct(v, f"d{i}.") for i in range(k))
                return dict(dcts=ds)
            return f
        for k in (0, 1, 2, 3):
            yield f"{k}-dictionaries", mk(k)

    def ensures(self, result, dcts):
        if len(dcts) == 0:
            return {"empty": result == {}}
        out = {"same-columns": sorted(result) == sorted(dcts[0])}
        if not out["same-columns"]:
            return out
        for key in dcts[0]:
            r = result[key]
            offs = [0]
            for d in dcts:
                offs.append(offs[-1] + L(d[key]))
            out[f"{key}:total-length"] = L(r) == offs[-1]
            for i, d in enumerate(dcts):
                out[f"{key}:part-{i}-in-place"] = forall(0, L(d[key]), lambda t, i=i, d=d: r[offs[i] + t] == d[key][t])
        return out


def _query(v, k, log):
    def task_fn(i):
        def f(I, *a):
            log.append(("task", i, a))
            return outs[i]
        return LibFunc(f"task{i}", f)
    outs = [_dct(v, f"t{i}.") for i in range(k)]
    tasks = [(task_fn(i), Opaque(f"arg{i}a"), Opaque(f"arg{i}b")) for i in range(k)]

    class _Reader:
        def pyvc_getattr(self, I, attr, node):
            if attr == "get_dict_meta":
                def meta(I, field, return_index):
                    log.append(("meta", field, return_index))
                    return meta_d
                return LibFunc("CSRReader.get_dict_meta", meta)
            raise Exception("CSRReader." + attr)
    meta_d = Opaque("empty record dictionary with the right dtypes")
    bbox = tuple(v.Int(nm) for nm in ("i0", "i1", "j0", "j1"))
    slf = v.Obj("BaseRangeQuery2D", RQ, reader=_Reader(), bbox=bbox, field="count", return_index=v.Bool("return_index"), tasks=tasks)
    return slf, outs, tasks, meta_d, bbox


@contract
class QueryGet(Contract):
    """get(): every task is executed exactly once, in order, with its own arguments, and the records are the
    concatenation of the tasks' results in that order; a query without tasks returns the empty dictionary of the
    reader (right columns and dtypes)"""
    target = f"{RQ}:BaseRangeQuery2D.get"
    props = ["C03"]
    inline = True

    def configs(self, v):
        def mk(k):
            def f(v):
                log = []
                slf, outs, tasks, meta_d, bbox = _query(v, k, log)
                return dict(self=slf, __ghost__={"log": log, "outs": outs, "tasks": tasks, "meta": meta_d, "k": k})
            return f
        for k in (0, 1, 2, 3):
            yield f"{k}-tasks", mk(k)

    def ensures(self, result, self_):
        g = self._v.path.ghost
        log, outs, tasks, k = g["log"], g["outs"], g["tasks"], g["k"]
        runs = [op for op in log if op[0] == "task"]
        out = {"every-task-once-in-order": [op[1] for op in runs] == list(range(k)),
               "each-task-gets-its-own-arguments": all(len(op[2]) == 2 and op[2][0] is tasks[op[1]][1] and op[2][1] is tasks[op[1]][2] for op in runs)}
        if k == 0:
            out["no-task:the-readers-empty-dictionary"] = result is g["meta"] and [op[0] for op in log] == ["meta"] and \
                log[0][1] == "count" and log[0][2] is self_.attrs["return_index"]
            return out
        out["no-meta-call"] = not [op for op in log if op[0] == "meta"]
        ok = isinstance(result, dict) and sorted(result) == ["bin1_id", "bin2_id", "count"]
        out["a-record-dictionary"] = ok
        if ok:
            for key in ("bin1_id", "bin2_id", "count"):
                offs = [0]
                for d in outs:
                    offs.append(offs[-1] + L(d[key]))
                out[f"{key}:total-length"] = L(result[key]) == offs[-1]
                for i, d in enumerate(outs):
                    out[f"{key}:task-{i}-in-place"] = forall(0, L(d[key]), lambda t, i=i, d=d, key=key: result[key][offs[i] + t] == d[key][t])
        return out


def _out_contract(method, helper, with_bbox):
    class C(Contract):
        __doc__ = f"{method}(): {helper} of exactly what get() returns, with the query's window and field"
        target = f"{RQ}:BaseRangeQuery2D.{method}"
        props = ["C03"]

        def configs(self, v):
            def f(v):
                log = []
                got = Opaque("records of get()")
                slf, outs, tasks, meta_d, bbox = _query(v, 0, log)

                def helper_fn(I, *a, **k):
                    log.append((helper, a, k))
                    return Opaque("output")
                return dict(self=slf, __free__={helper: LibFunc(helper, helper_fn)},
                            __ghost__={"log": log, "bbox": bbox, "meta": meta_d})
            yield "", f

        def ensures(self, result, self_):
            g = self._v.path.ghost
            calls = [op for op in g["log"] if op[0] == helper]
            out = {"one-output-call": len(calls) == 1}
            if len(calls) == 1:
                a = calls[0][1]
                # with no task get() returns the reader's empty dictionary: identity shows the records come from get()
                out["records-come-from-get"] = len(a) >= 1 and a[0] is g["meta"]
                if with_bbox:
                    out["window-and-field-passed-in-order"] = And(*[a[1 + i] == g["bbox"][i] for i in range(4)]) \
                        if (len(a) == 6 and a[5] == "count") else False
                else:
                    out["field-passed"] = len(a) == 2 and a[1] == "count"
            return out
    C.__name__ = "Query_" + method
    return contract(C)


_out_contract("to_sparse_matrix", "spmatrix_slice_from_dict", True)
_out_contract("to_array", "array_slice_from_dict", True)
_out_contract("to_frame", "frame_slice_from_dict", False)
