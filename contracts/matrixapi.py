"""Contracts for api.matrix (C12 weighting, C03 engine choice) - rectangular (sparse/dense) outputs."""
from pyvc.api import *  # noqa: F401,F403
from contracts.common import *  # noqa: F401,F403

API = "cooler.api"


class Arr2V:
    """2-D array abstraction: shape (n1, n2), at(r, c)"""
    pyvc_symbolic = True

    def __init__(self, n1, n2, at):
        self.n1, self.n2, self.at = n1, n2, at

    def pyvc_binop(self, I, op, a, b):
        import ast as _ast
        if isinstance(a, Arr2V) and isinstance(b, Arr2V) and isinstance(op, _ast.Mult):
            I.path.oblige("shape", f"2d-operands#{I.path.ordinal('shape2')}", And(a.n1 == b.n1, a.n2 == b.n2))
            fa, fb = a.at, b.at
            return Arr2V(a.n1, a.n2, lambda r, c: fa(r, c) * fb(r, c))
        raise Exception("2-D operation outside the model")

    pyvc_rbinop = pyvc_binop


class CooV:
    """scipy coo_matrix as returned by to_sparse_matrix(): row, col, data (mutable attribute)"""
    pyvc_symbolic = True

    def __init__(self, row, col, data, shape):
        self.row, self.col, self.data, self.shape = row, col, data, shape

    def pyvc_getattr(self, I, attr, node):
        return {"row": self.row, "col": self.col, "data": self.data, "shape": self.shape}[attr]

    def pyvc_setattr(self, I, attr, val):
        if attr != "data":
            raise Exception("only mat.data is assigned by the verified code")
        self.data = val


class EngineV:
    """ASSUMED model of the query engines' outputs (their content is C03's business): the sparse
    matrix has coordinates inside the window shape; the dense array has the window shape"""
    pyvc_symbolic = True

    def __init__(self, kind, args, v):
        self.kind, self.args, self.v = kind, args, v

    def pyvc_getattr(self, I, attr, node):
        from pyvc.values import LibFunc
        reader, field, bbox, chunksize = self.args[:4]
        i0, i1, j0, j1 = bbox
        v = self.v
        if attr == "to_sparse_matrix":
            def f(I):
                row = v.Arr("mat.row")
                col = v.Arr("mat.col", n=row.n)
                data = v.Arr("mat.data", kind="real", n=row.n)
                v.assume(forall(0, row.n, lambda t: And(0 <= row[t], row[t] < i1 - i0, 0 <= col[t], col[t] < j1 - j0)))
                m = CooV(row, col, data, (i1 - i0, j1 - j0))
                self.out = m
                self.raw = data.at
                return m
            return LibFunc("engine.to_sparse_matrix", f)
        if attr == "to_array":
            def f(I):
                raw = v.Fn("arr.raw", "int", "int", "real")
                a = Arr2V(i1 - i0, j1 - j0, lambda r, c: raw(r, c))
                self.out = a
                self.raw = a.at
                return a
            return LibFunc("engine.to_array", f)
        if attr == "to_frame":
            def f(I):
                # the stored records inside the window (C03): ids inside the window, a value per record
                from pyvc.lib_pandas import DataFrameV
                b1 = v.Arr("frame.bin1_id")
                b2 = v.Arr("frame.bin2_id", n=b1.n)
                val = v.Arr("frame.count", kind="real", n=b1.n)
                v.assume(forall(0, b1.n, lambda t: And(i0 <= b1[t], b1[t] < i1, j0 <= b2[t], b2[t] < j1)))
                fr = DataFrameV({"bin1_id": b1, "bin2_id": b2, "count": val}, None)
                self.out = fr
                self.raw = val.at
                self.ids = (b1, b2)
                return fr
            return LibFunc("engine.to_frame", f)
        raise Exception("engine." + attr + " outside the model")


def np_outer(I, a, b):
    from pyvc.lib_numpy import as_arr
    a, b = as_arr(I, a), as_arr(I, b)
    fa, fb = a.at, b.at
    return Arr2V(a.n, b.n, lambda r, c: fa(r) * fb(c))


@contract
class MatrixApi(Contract):
    """C12: with balancing on, every raw value is multiplied by the weight of ITS row bin and ITS column
    bin taken from the selected column (reciprocals when divisive), rows from [i0,i1), columns from
    [j0,j1) even when the two ranges differ; a missing weight column is a ValueError.
    C03: the fill-lower engine is used iff fill_lower, with the window as bounding box."""
    target = f"{API}:matrix"
    props = ["C12", "C03"]

    def configs(self, v):
        from pyvc.values import LibFunc

        def mk(sparse, balance, has_col, as_pixels=False, join=False):
            def f(v):
                nb = v.Int("nbins")
                w = v.Arr("weights", kind="real", n=nb)
                colname = balance if isinstance(balance, str) else "weight"
                bins = {"chrom": v.Arr("bins.chrom", n=nb)}
                if has_col:
                    bins[colname] = w
                h5 = {"bins": bins, "pixels": Opaque("pixels"), "indexes/bin1_offset": v.Arr("O", n=nb + 1)}
                made = []

                def engine(kind):
                    def ctor(I, reader, field, bbox, chunksize, return_index=False):
                        e = EngineV(kind, (reader, field, bbox, chunksize, return_index), v)
                        made.append(e)
                        return e
                    return LibFunc(kind, ctor)
                ann = []

                class _Sel:     # Cooler(h5).bins()[[columns]]: a selector over those columns of THIS group's bin table (assumed)
                    def __init__(self, grp, cols=None):
                        self.grp, self.cols = grp, cols

                    def pyvc_getattr(self, I, attr, node):
                        if attr == "bins":
                            return LibFunc("Cooler.bins", lambda I, **k: _Sel(self.grp, None))
                        raise Exception("Cooler." + attr + " outside the model")

                    def pyvc_getitem(self, I, key, node):
                        return _Sel(self.grp, list(key) if isinstance(key, list) else key)

                def annotate(I, df, bins_, replace=False):
                    # ASSUMED: the contract of api.annotate (proved separately, contracts/apitables.py): every record gets the
                    # columns of its own two bins, suffixed 1 and 2, in front; ids dropped iff replace
                    from pyvc.lib_pandas import DataFrameV
                    ann.append((df, bins_, replace))
                    if not (isinstance(bins_, _Sel) and isinstance(bins_.cols, list) and isinstance(df, DataFrameV)):
                        return Opaque("annotated frame")
                    cols = {}
                    for suf, idc in (("1", "bin1_id"), ("2", "bin2_id")):
                        ids = df.cols[idc]
                        for c in bins_.cols:
                            src = bins_.grp["bins"][c] if c in bins_.grp["bins"] else v.Arr("bins." + c, n=nb)
                            cols[c + suf] = Arr(ids.n, (lambda t, src=src, ids=ids: src.at(ids.at(t))), src.kind)
                    for c, a in df.cols.items():
                        if not (replace and c in ("bin1_id", "bin2_id")):
                            cols[c] = a
                    out = DataFrameV(cols, None)
                    out._annotated_from = (df, bins_, replace)
                    return out
                np_ns = v.path.engine.lib["numpy"]
                from pyvc.values import LibNS
                np2 = LibNS("numpy", dict(np_ns._members, outer=LibFunc("np.outer", np_outer)))
                return dict(h5=h5, i0=v.Int("i0"), i1=v.Int("i1"), j0=v.Int("j0"), j1=v.Int("j1"), field=None,
                            balance=balance, sparse=sparse, as_pixels=as_pixels, join=join, ignore_index=v.Bool("ignore_index"),
                            divisive_weights=v.Bool("divisive"), chunksize=v.Int("chunksize"), fill_lower=v.Bool("fill_lower"),
                            __free__={"CSRReader": LibFunc("CSRReader", lambda I, *a: Opaque("reader")),
                                      "DirectRangeQuery2D": engine("Direct"), "FillLowerRangeQuery2D": engine("FillLower"),
                                      "np": np2, "Cooler": LibFunc("Cooler", lambda I, grp, **k: _Sel(grp)),
                                      "annotate": LibFunc("annotate (own contract, assumed here)", annotate)},
                            __ghost__={"w": w, "nb": nb, "made": made, "has_col": has_col, "ann": ann, "h5": h5, "Sel": _Sel})
            return f
        for sparse in (True, False):
            for balance in (False, True, "KR"):
                yield f"{'sparse' if sparse else 'dense'},balance={balance!r}", mk(sparse, balance, True)
            yield f"{'sparse' if sparse else 'dense'},balance=True,column-missing", mk(sparse, True, False)
            yield f"{'sparse' if sparse else 'dense'},balance='KR',column-missing", mk(sparse, "KR", False)
        yield "pixels,balance=False", mk(False, False, True, as_pixels=True)
        for balance in (True, "KR"):
            for join in (False, True):
                yield f"pixels,balance={balance!r},join={join}", mk(False, balance, True, as_pixels=True, join=join)
        yield "pixels,balance=False,join=True", mk(False, False, True, as_pixels=True, join=True)
        yield "pixels,balance=True,column-missing", mk(False, True, False, as_pixels=True)

    def _g(self):
        return self._v.path.ghost

    def requires(self, h5, i0, i1, j0, j1, balance, divisive_weights, **kw):
        g = self._g()
        nb, w = g["nb"], g["w"]
        r = [0 <= i0, i0 <= i1, i1 <= nb, 0 <= j0, j0 <= j1, j1 <= nb]
        if balance:
            # numpy turns a zero divisor into inf with a warning; reciprocal weights are specified for non-zero weights
            r.append(Implies(divisive_weights, forall(0, nb, lambda k: w[k] != 0)))
        return r

    @property
    def raises(self):
        return {"ValueError": lambda balance=None, **kw: bool(balance) and not self._g()["has_col"]}

    def ensures(self, result, h5, i0, i1, j0, j1, field, balance, sparse, divisive_weights, fill_lower, chunksize,
                as_pixels=False, ignore_index=None, **kw):
        g = self._g()
        w, made = g["w"], g["made"]
        out = {"one-engine-built": len(made) == 1}
        if len(made) != 1:
            return out
        e = made[0]
        reader, efield, bbox, ecs, eri = e.args
        if as_pixels:
            # pixel output lists exactly the STORED records in the window: direct engine, whole window
            out = {"direct-engine-for-pixels": e.kind == "Direct",
                   "bounding-box-is-the-window": And(bbox[0] == i0, bbox[1] == i1, bbox[2] == j0, bbox[3] == j1),
                   "index-requested-iff-not-ignored": Iff(eri, Not(ignore_index))}
            join = kw.get("join", False)
            ann, Sel = g["ann"], g["Sel"]
            fr = e.out
            name = balance if isinstance(balance, str) else "weight"
            n_expected = (1 if balance else 0) + (1 if join else 0)
            out["annotations:one-per-request"] = len(ann) == n_expected
            if len(ann) != n_expected:
                return out
            if balance:
                df_, sel_, rep_ = ann[0]
                out["weights:looked-up-for-the-engines-records-in-this-collections-bin-table"] = df_ is fr and isinstance(sel_, Sel) \
                    and sel_.grp is g["h5"] and sel_.cols == [name] and rep_ is False
                b1, b2 = e.ids
                n = L(b1)
                u = lambda k: If(divisive_weights, 1 / w[k], w[k])   # noqa: E731
                bal = fr.cols.get("balanced")
                out["balanced-column-added-to-the-engines-frame"] = bal is not None
                if bal is not None:
                    out["balanced:value-times-weight-of-its-row-bin-and-its-column-bin"] = And(L(bal) == n, forall(
                        0, n, lambda t: bal[t] == u(b1[t]) * u(b2[t]) * e.raw(t)))
                    out["raw-values-and-ids-untouched"] = fr.cols["count"].at is e.raw and fr.cols["bin1_id"] is b1 and fr.cols["bin2_id"] is b2
            if join:
                df_, sel_, rep_ = ann[-1]
                out["join:the-same-frame-annotated-with-bin-coordinates-replacing-ids"] = df_ is fr and isinstance(sel_, Sel) \
                    and sel_.grp is g["h5"] and sel_.cols == ["chrom", "start", "end"] and rep_ is True
                out["join:returns-the-annotated-frame"] = getattr(result, "_annotated_from", (None,))[0] is fr
            else:
                out["frame-of-the-engine"] = result is fr
            return out
        out["engine-choice"] = (e.kind == "FillLower") == fill_lower if isinstance(fill_lower, bool) else \
            Iff(fill_lower, e.kind == "FillLower")
        out["bounding-box-is-the-window"] = And(bbox[0] == i0, bbox[1] == i1, bbox[2] == j0, bbox[3] == j1)
        out["default-field"] = efield == "count"
        out["chunksize-passed"] = ecs == chunksize
        u = (lambda k: If(divisive_weights, 1 / w[k], w[k])) if balance else (lambda k: 1)
        if sparse:
            out["same-sparse-object"] = result is e.out
            row, col = result.row, result.col
            n = L(row)
            if balance:
                out["sparse-weighting"] = And(L(result.data) == n, forall(0, n, lambda t: result.data[t] == u(i0 + row[t]) * u(j0 + col[t]) * e.raw(t)))
            else:
                out["raw-untouched"] = result.data.at is e.raw
        else:
            if balance:
                r_, c_ = self._v.Int("r"), self._v.Int("c")
                out["dense-weighting"] = And(result.n1 == i1 - i0, result.n2 == j1 - j0, Implies(
                    And(0 <= r_, r_ < i1 - i0, 0 <= c_, c_ < j1 - j0),
                    result.at(r_, c_) == e.raw(r_, c_) * u(i0 + r_) * u(j0 + c_)))
            else:
                out["raw-untouched"] = result is e.out
        return out


@contract
class CoolerMatrix(Contract):
    """C12/C03: Cooler.matrix passes the caller's options to api.matrix unchanged, with divisive weights
    by default exactly for the conventional 4DN names (KR, VC, VC_SQRT) when the caller passed None,
    and fill_lower = the collection's storage mode is symmetric-upper."""
    target = f"{API}:Cooler.matrix"
    props = ["C12", "C03"]

    def configs(self, v):
        from pyvc.values import LibFunc

        def mk(balance, div):
            def f(v):
                calls = []

                class _CM:
                    def pyvc_enter(self, I):
                        return {"/": Opaque("grp")}

                    def pyvc_exit(self, I, exc):
                        return None
                slf = v.Obj("Cooler", API, store=Opaque("store"), open_kws={}, root="/", _is_symm_upper=v.Bool("is_symm_upper"),
                            _info={"nbins": v.Int("nbins")}, _chromsizes=Opaque("chromsizes"), _chromids=Opaque("chromids"))

                def rec(I, *a, **k):
                    calls.append((a, k))
                    return Opaque("matrix result")
                return dict(self=slf, field=None, balance=balance, sparse=v.Bool("sparse"), as_pixels=v.Bool("as_pixels"),
                            join=v.Bool("join"), ignore_index=v.Bool("ignore_index"), divisive_weights=div,
                            chunksize=v.Int("chunksize"),
                            __free__={"open_hdf5": LibFunc("open_hdf5", lambda I, *a, **k: _CM()), "matrix": LibFunc("matrix", rec)},
                            __ghost__={"calls": calls})
            return f
        for balance in (True, False, "weight", "KR", "VC", "VC_SQRT", "w2"):
            for div in (None, True, False):
                yield f"balance={balance!r},divisive={div}", mk(balance, div)

    def ensures(self, result, self_, field, balance, sparse, as_pixels, join, ignore_index, divisive_weights, chunksize):
        I = self._I
        v = self._v
        calls = v.path.ghost["calls"]
        i0, i1, j0, j1 = v.Int("i0"), v.Int("i1"), v.Int("j0"), v.Int("j1")
        sl = result.attrs["_slice"]
        I.call(sl, ["count", i0, i1, j0, j1], {})
        out = {"one-matrix-call": len(calls) == 1}
        if len(calls) != 1:
            return out
        a, k = calls[0]
        # matrix(grp, i0, i1, j0, j1, field, balance, sparse, as_pixels, join, ignore_index, divisive_weights, chunksize, is_symm_upper)
        exp_div = divisive_weights if divisive_weights is not None else (True if balance in ("KR", "VC", "VC_SQRT") else None)
        out.update({
            "window-passed": And(a[1] == i0, a[2] == i1, a[3] == j0, a[4] == j1),
            "balance-passed": a[6] == balance if not isinstance(balance, bool) else a[6] is balance,
            "options-passed": And(Iff(a[7], sparse), Iff(a[8], as_pixels), Iff(a[9], join), Iff(a[10], ignore_index), a[12] == chunksize),
            "divisive-default-only-for-4DN-names-when-None": (a[11] is exp_div) if (exp_div is None or isinstance(exp_div, bool)) else False,
            "fill-lower-iff-symmetric-upper": Iff(a[13], self_.attrs["_is_symm_upper"]),
            "shape": result.attrs["_shape"][0] == self_.attrs["_info"]["nbins"],
        })
        return out
