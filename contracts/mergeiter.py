"""Contract for _reduce:CoolerMerger.__iter__ (C06 C07): the merge loop.

For k = 1, 2, 3 inputs, every bin count, every offset index and every buffer size: the epochs read, from every
input, the consecutive slices [index_i[P[t]], index_i[P[t+1]]) between the boundaries merge_breakpoints returned
(its contract is applied modularly) - invariant: starts[i] == index_i[P[t]] - so the slices of one input are
disjoint, in order, cut only at row offsets (a bin1 row is never split over two epochs) and, because the last
boundary exhausts every input, cover [0, nnz_i): every input record is read exactly once.  Within an epoch
every input with a non-empty slice contributes, in input order, and what is yielded is the
groupby(bin1_id, bin2_id, sort=True).aggregate(self.agg) of their concatenation.
ASSUMED (stubs): Cooler.open / pixels() selectors (C14), pandas concat / groupby / aggregate / reset_index."""
from pyvc.api import *  # noqa: F401,F403
from pyvc.values import LibFunc, LibNS
from contracts.common import *  # noqa: F401,F403

RED = "cooler._reduce"


class _Piece:
    def __init__(self, i, start, stop):
        self.i, self.start, self.stop = i, start, stop


class _PixSel:
    def __init__(self, w, i):
        self.w, self.i = w, i

    def pyvc_len(self, I):
        return self.w["nnz"][self.i]

    def pyvc_getitem(self, I, key, node):
        assert isinstance(key, SliceV) and key.step is None
        env = I.top_env.vars
        o = I.path.ordinal("read")
        # the slice read from input i is the one between this epoch's boundaries of input i
        I.path.oblige("post", f"slice-read-is-between-this-epochs-boundaries-of-the-same-input#{o}",
                      And(key.start == env["starts"][self.i], key.stop == env["stops"][self.i]))
        self.w["reads_now"].append(self.i)
        return _Piece(self.i, key.start, key.stop)


class _Clr:
    def __init__(self, w, i):
        self.w, self.i = w, i

    def pyvc_getattr(self, I, attr, node):
        if attr == "open":
            return LibFunc("Cooler.open", lambda I, mode="r", **k: {"indexes/bin1_offset": self.w["O"][self.i]})
        if attr == "pixels":
            return LibFunc("Cooler.pixels", lambda I, **k: _PixSel(self.w, self.i))
        raise Exception("Cooler." + attr)


class _Frame:
    def __init__(self, w, stage, pieces, info=None):
        self.w, self.stage, self.pieces, self.info = w, stage, pieces, info

    def pyvc_getattr(self, I, attr, node):
        w = self.w
        if attr == "groupby" and self.stage == "concat":
            def gb(I, keys, sort=True, **k):
                I.path.oblige("post", "grouped-by-the-pixel-key-sorted", keys == ["bin1_id", "bin2_id"] and sort is True and not k)
                return _Frame(w, "grouped", self.pieces)
            return LibFunc("DataFrame.groupby", gb)
        if attr == "aggregate" and self.stage == "grouped":
            def ag(I, agg):
                I.path.oblige("post", "aggregated-with-the-mergers-functions", agg is w["agg"])
                return _Frame(w, "aggregated", self.pieces)
            return LibFunc("GroupBy.aggregate", ag)
        if attr == "reset_index" and self.stage == "aggregated":
            return LibFunc("DataFrame.reset_index", lambda I: _Frame(w, "final", self.pieces))
        if attr == "items" and self.stage == "final":
            return LibFunc("DataFrame.items", lambda I: [(c, _Col(self, c)) for c in ("bin1_id", "bin2_id", "count")])
        raise Exception(f"DataFrame.{attr} at stage {self.stage}")


class _Col:
    def __init__(self, frame, name):
        self.frame, self.name = frame, name

    def pyvc_getattr(self, I, attr, node):
        if attr == "values":
            return ("values", self.frame, self.name)
        raise Exception("Series." + attr)


@contract
class MergerIter(Contract):
    target = f"{RED}:CoolerMerger.__iter__"
    props = ["C06", "C07"]

    def configs(self, v):
        def mk(k):
            def f(v):
                n = v.Int("nrows1")
                O = [v.Arr(f"O{i}", n=n) for i in range(k)]
                nnz = [v.Int(f"nnz{i}") for i in range(k)]
                agg = {"count": "sum"}
                w = {"k": k, "n": n, "O": O, "nnz": nnz, "agg": agg, "epochs": [], "reads_now": []}
                coolers = [_Clr(w, i) for i in range(k)]

                def concat(I, pieces, axis=0, ignore_index=False, **kw):
                    env = I.top_env.vars
                    o = I.path.ordinal("concat")
                    members = [p.i for p in pieces]
                    I.path.oblige("post", f"pieces-in-input-order-no-repeats#{o}", members == sorted(set(members)) and axis == 0)
                    for i in range(k):
                        nonempty = env["stops"][i] - env["starts"][i] > 0
                        # (an empty slice may or may not be passed along: it contributes no record either way)
                        if i not in members:
                            I.path.oblige("post", f"input-{i}-contributes-whenever-its-slice-is-non-empty#{o}", Not(nonempty))
                    return _Frame(w, "concat", list(pieces))
                mb = v.Int("mergebuf")
                w.update({f"r_O{i}": O[i] for i in range(k)}, r_mergebuf=mb, r_k=k)     # flat copies for the replay adapter
                slf = v.Obj("CoolerMerger", RED, coolers=coolers, mergebuf=mb, columns=["count"], agg=agg)
                return dict(self=slf, __free__={"pd": LibNS("pd", {"concat": LibFunc("pd.concat", concat)})}, __ghost__=w)
            return f
        for k in (1, 2, 3):
            yield f"k={k}", mk(k)

    def _w(self):
        return self._v.path.ghost

    def requires(self, self_):
        w = self._w()
        n = w["n"]
        r = [n >= 2, self_.attrs["mergebuf"] >= 1]
        for O, z in zip(w["O"], w["nnz"]):
            # representation invariant of each input (C02): a valid offset index whose last entry is its nnz
            r += [L(O) == n, O[0] == 0, nondecreasing(O), O[n - 1] < 2 ** 50, z == O[n - 1]]
        return r

    def _inv(self, S):
        w = self._w()
        t = S.it
        P = S.bin1_partition
        inv = {"epoch-in-range": And(0 <= t, t <= L(P) - 1)}
        for i in range(w["k"]):
            inv[f"input-{i}-consumed-up-to-the-current-boundary"] = S.starts[i] == w["O"][i][P[t]]
        return inv

    def _ghost_step(self, S, I):
        """end of an epoch (also when it was skipped with `continue`): every input whose slice between the two
        boundaries is non-empty has been read in this epoch, exactly once"""
        w = self._w()
        P = S.bin1_partition
        t0 = S.it - 1
        for i in range(w["k"]):
            n_reads = w["reads_now"].count(i)
            I.path.oblige("post", f"input-{i}-read-at-most-once-per-epoch", n_reads <= 1)
            if n_reads == 0:
                I.path.oblige("post", f"input-{i}-is-read-in-every-epoch-where-it-has-records",
                              Not(w["O"][i][P[t0 + 1]] > w["O"][i][P[t0]]))

    @property
    def loops(self):
        def starts(v):
            return [v.Int(f"starts{i}") for i in range(v.path.ghost["k"])]
        return {0: LoopSpec(self._inv, havoc={"starts": starts}, ghost_step=self._ghost_step)}

    def ensures(self, result, ghost, self_):
        w = self._w()
        loc = ghost["__locals__"]
        out = {}
        for i in range(w["k"]):
            out[f"input-{i}-is-read-to-its-end"] = loc["starts"][i] == w["nnz"][i]
        return out
