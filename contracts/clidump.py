"""Coordinator contracts for `cooler dump` (C16, C12, C03):

* cli.dump:dump - the pixel-table branch.  Every helper and library call is a recording stub (api.Cooler, the range-query
  engines, region_to_extent / parse_region, make_annotator, pandas.DataFrame / to_csv, sys, gzip); flags, regions, storage
  mode and chunk size are symbolic.  Verified: the bounding box is the full matrix without regions, the extent of -r on both
  axes with -r alone, the extents of -r (rows) and -r2 (columns) with both - each looked up with THIS cooler's ids, lengths and
  bin size; the engine fills the lower triangle iff --fill-lower was given AND the cooler is symmetric-upper, for EVERY box
  (no geometric shortcut); the caller's chunk size (default: number of bins) reaches the engine; every chunk of the engine is
  written exactly once, in order, through the annotator iff any of -b/--join/--annotate/--one-based-* was given (built from the
  cooler's own bin table and exactly those flags), restricted to -c columns AFTER annotation; the header is written once iff asked.
* cli.dump:make_annotator.annotator - the balanced column is count x weight of the row bin x weight of the column bin looked up
  through api.annotate in the bin table given (api.annotate: own contract, assumed here), join replaces ids by coordinates,
  one-based flags add exactly one to the ids / starts that are present.
ASSUMED: the stubs above; text formatting (to_csv) is outside the contract (bounded tier compares the text)."""
from pyvc.api import *  # noqa: F401,F403
from pyvc.values import ExcVal, LibFunc, LibNS, PyRaise
from contracts.common import *  # noqa: F401,F403

DUMP = "cooler.cli.dump"


class _Sel:
    def __init__(self, w, table, cols=None):
        self.w, self.table, self.cols = w, table, cols

    def pyvc_getitem(self, I, key, node):
        if isinstance(key, list):
            return _Sel(self.w, self.table, key)
        if isinstance(key, SliceV) and key.start is None and key.stop is None:
            return _Frame(self.w, self.table, self.cols)
        raise Exception("selector subscript outside the model")


class _Frame:
    """a table read whole: len = number of rows, columns as stored"""

    def __init__(self, w, table, cols=None, tag=None, sel=None, annotated=None, head=False):
        self.w, self.table, self.cols, self.tag, self.sel, self.annotated, self.head = w, table, cols, tag, sel, annotated, head

    def pyvc_len(self, I):
        return self.w["n_" + self.table]

    def pyvc_getattr(self, I, attr, node):
        if attr == "columns":
            return ["chrom", "start", "end", "weight"] if self.table == "bins" else ["name", "length"]
        if attr == "to_csv":
            def to_csv(I, f, **k):
                self.w["log"].append(("to_csv", self, f, k))
            return LibFunc("to_csv", to_csv)
        raise Exception("DataFrame." + attr)

    def pyvc_getitem(self, I, key, node):
        if isinstance(key, list):
            return _Frame(self.w, self.table, self.cols, self.tag, list(key), self.annotated, self.head)
        if isinstance(key, SliceV) and key.start == 0 and key.stop == 0:
            return _Frame(self.w, self.table, self.cols, self.tag, self.sel, self.annotated, True)
        raise Exception("DataFrame subscript outside the model")


class _Dataset:
    """an HDF5 dataset read whole: ds[:] is its content"""

    def __init__(self, tag):
        self.tag = tag

    def pyvc_getitem(self, I, key, node):
        return self


@contract
class CliDump(Contract):
    target = f"{DUMP}:dump"
    props = ["C16", "C03"]

    def configs(self, v):
        def mk(r, r2, columns, annotate, chunksize_none=False):
            def f(v):
                log = []
                w = {"log": log, "n_bins": v.Int("n_bins"), "n_chroms": v.Int("n_chroms"), "n_pixels": v.Int("nnz")}
                mode = v.Str("storage_mode")
                h5 = {"pixels": Opaque("pixels group"), "indexes/bin1_offset": _Dataset("bin1_offset")}
                ids, sizes, bsz = Opaque("chromids"), Opaque("chromsizes"), Opaque("binsize")

                class _Clr:
                    def pyvc_getattr(self, I, attr, node):
                        if attr in ("chroms", "bins"):
                            return LibFunc("Cooler." + attr, lambda I, **k: _Sel(w, attr))
                        if attr == "storage_mode":
                            return mode
                        if attr == "open":
                            return LibFunc("Cooler.open", lambda I, m="r", **k: (log.append(("open", m)), h5)[1])
                        if attr == "_chromids":
                            return ids
                        if attr == "chromsizes":
                            return sizes
                        if attr == "binsize":
                            return bsz
                        raise Exception("Cooler." + attr)
                clr = _Clr()
                ext = []

                def r2e(I, h5_, ids_, region, binsize=None):
                    lo, hi = v.Int("ext%d.lo" % len(ext)), v.Int("ext%d.hi" % len(ext))
                    ext.append((h5_, ids_, region, binsize, (lo, hi)))
                    return lo, hi
                made = []

                def engine(kind):
                    def ctor(I, reader, field, bbox, chunksize, **k):
                        items = [Opaque("engine chunk 0"), Opaque("engine chunk 1")]
                        made.append((kind, reader, field, bbox, chunksize, items))
                        return items
                    return LibFunc(kind, ctor)

                def DataFrame(I, data=None, columns=None, **k):
                    return _Frame(w, "pixels", list(columns), tag=data)
                ann = []

                def make_annotator(I, *a):
                    ann.append(a)
                    return LibFunc("annotator", lambda I, ch: _Frame(ch.w, ch.table, ch.cols, ch.tag, ch.sel, a, ch.head))
                class _Out:
                    def pyvc_getattr(self, I, attr, node):
                        if attr in ("flush", "close"):
                            return LibFunc("stream." + attr, lambda I: log.append((attr,)))
                        raise Exception("stream." + attr)
                stdout = _Out()
                flags = {k: v.Bool(k) for k in ("fill_lower", "balanced", "join", "one_based_ids", "one_based_starts", "header")}
                free = {"api": LibNS("api", {"Cooler": LibFunc("api.Cooler", lambda I, uri: (log.append(("Cooler", uri)), clr)[1])}),
                        "sys": LibNS("sys", {"stdout": stdout, "stderr": Opaque("stderr"),
                                             "exit": LibFunc("sys.exit", lambda I, c=0: (_ for _ in ()).throw(PyRaise(ExcVal("SystemExit", (c,)))))}),
                        "CSRReader": LibFunc("CSRReader", lambda I, px, off: ("reader", px, off)),
                        "region_to_extent": LibFunc("region_to_extent", r2e),
                        "parse_region": LibFunc("parse_region", lambda I, reg, cs=None: ("parsed", reg, cs)),
                        "FillLowerRangeQuery2D": engine("FillLower"), "DirectRangeQuery2D": engine("Direct"),
                        "pd": LibNS("pd", {"DataFrame": LibFunc("pd.DataFrame", DataFrame)}),
                        "make_annotator": LibFunc("make_annotator", make_annotator),
                        "print": LibFunc("print", lambda I, *a, **k: None)}
                uri = v.Str("cool_uri")
                cs = None if chunksize_none else v.Int("chunksize")
                w.update(mode=mode, h5=h5, ids=ids, sizes=sizes, bsz=bsz, ext=ext, made=made, ann=ann, stdout=stdout, flags=flags,
                         uri=uri, r=r, r2=r2, cs=cs)
                return dict(cool_uri=uri, table="pixels", columns=columns, header=flags["header"], na_rep="", float_format=None,
                            range=r, range2=r2, fill_lower=flags["fill_lower"], balanced=flags["balanced"], join=flags["join"],
                            annotate=annotate, one_based_ids=flags["one_based_ids"], one_based_starts=flags["one_based_starts"],
                            chunksize=cs, out=None, __free__=free, __ghost__=w)
            return f
        R1, R2 = Opaque("region given with -r"), Opaque("region given with -r2")
        yield "no-region", mk(None, None, None, None)
        yield "-r", mk(R1, None, None, None)
        yield "-r,-r2", mk(R1, R2, None, None)
        yield "-r,-r2,-c,--annotate", mk(R1, R2, ("bin1_id", "count"), ("weight",))
        yield "no-region,-c,chunksize-default", mk(None, None, ("count",), None, True)

    def ensures(self, result, cool_uri, table, columns, header, na_rep, float_format, range, range2, fill_lower, balanced, join,
                annotate, one_based_ids, one_based_starts, chunksize, out):
        w = self._v.path.ghost
        log, made, ext, ann = w["log"], w["made"], w["ext"], w["ann"]
        o = {"one-engine": len(made) == 1}
        if len(made) != 1:
            return o
        kind, reader, field, bbox, cs, items = made[0]
        symm = w["mode"] == z3.StringVal("symmetric-upper")
        # the plain engine is admitted for a box that lies entirely above the main diagonal (rows end where the columns begin):
        # such a box has no cell whose value is stored in the other triangle, so both engines list the same pixels
        above = And(bbox[1] <= bbox[2]) if isinstance(bbox, tuple) and len(bbox) == 4 else False
        o["lower-triangle-filled-iff-asked-and-symmetric-upper-wherever-the-box-reaches-below-the-diagonal"] = (
            And(fill_lower, symm) if kind == "FillLower" else Or(Not(And(fill_lower, symm)), above))
        o["reader-over-this-coolers-pixels-and-row-index"] = isinstance(reader, tuple) and reader[1] is w["h5"]["pixels"] \
            and reader[2] is w["h5"]["indexes/bin1_offset"] and field == "count"
        nb = w["n_bins"]
        o["chunksize-is-the-callers-or-the-number-of-bins"] = (cs == chunksize) if chunksize is not None else (cs == nb)
        ok_box = isinstance(bbox, tuple) and len(bbox) == 4
        o["box-has-four-bounds"] = ok_box
        if ok_box:
            if range is None:
                o["no-region:the-whole-matrix"] = And(bbox[0] == 0, bbox[1] == nb, bbox[2] == 0, bbox[3] == nb)
                o["no-region:no-extent-lookup"] = len(ext) == 0
            else:
                want = 1 if range2 is None else 2
                o["regions:one-extent-lookup-per-region"] = len(ext) == want
                if len(ext) == want:
                    def good(e, reg):
                        return e[0] is w["h5"] and e[1] is w["ids"] and e[3] is w["bsz"] and isinstance(e[2], tuple) \
                            and e[2][0] == "parsed" and e[2][1] is reg and e[2][2] is w["sizes"]
                    o["regions:looked-up-with-this-coolers-ids-lengths-and-bin-size"] = good(ext[0], range) and \
                        (range2 is None or good(ext[1], range2))
                    rows, cols = ext[0][4], (ext[0][4] if range2 is None else ext[1][4])
                    o["regions:rows-from--r,columns-from--r2-or--r"] = And(bbox[0] == rows[0], bbox[1] == rows[1],
                                                                          bbox[2] == cols[0], bbox[3] == cols[1])
        # what is written
        writes = [e for e in log if e[0] == "to_csv"]
        body = [e for e in writes if not e[1].head]
        heads = [e for e in writes if e[1].head]
        o["every-engine-chunk-written-once-in-order-to-stdout"] = len(body) == len(items) and all(
            e[1].tag is it and e[2] is w["stdout"] for e, it in zip(body, items))
        any_flag = Or(balanced, join, one_based_ids, one_based_starts) if annotate is None else True
        if body:
            annotated = body[0][1].annotated is not None
            o["annotator-applied-iff-an-annotation-option-was-given"] = (any_flag if annotated else Not(any_flag))
            o["annotator-applied-to-every-chunk-or-none"] = all((e[1].annotated is not None) == annotated for e in body)
            if annotated and len(ann) == 1:
                a = ann[0]
                bins_ok = isinstance(a[0], _Frame) and a[0].table == "bins" and a[0].cols is None
                o["annotator-built-from-this-coolers-bins-and-exactly-the-flags"] = bins_ok and a[1] is balanced and a[2] is join \
                    and a[3] is annotate and a[4] is one_based_ids and a[5] is one_based_starts
            o["columns-restricted-after-annotation"] = all(e[1].sel == (list(columns) if columns is not None else None) for e in body)
        o["header-iff-asked"] = (header if len(heads) == 1 else Not(header))
        o["header-at-most-once-before-the-first-chunk"] = len(heads) <= 1 and (not heads or not body or log.index(heads[0]) < log.index(body[0]))
        return o

    @property
    def raises(self):
        return {}

    raises_exact = False


# ------------------------------------------------------------------ the annotator
from pyvc.lib_pandas import DataFrameV, SeriesV  # noqa: E402


@contract
class DumpAnnotator(Contract):
    target = f"{DUMP}:make_annotator.annotator"
    props = ["C16", "C12"]

    def configs(self, v):
        def mk(balanced, join, ob_ids, ob_starts):
            def f(v):
                n, nb = v.Int("n"), v.Int("nbins")
                b1, b2 = v.Arr("bin1_id", n=n), v.Arr("bin2_id", n=n)
                cnt = v.Arr("count", kind="real", n=n)
                wgt = v.Arr("bins.weight", kind="real", n=nb)
                st = v.Arr("bins.start", n=nb)
                chunk = DataFrameV({"bin1_id": b1, "bin2_id": b2, "count": cnt}, None)
                bins = DataFrameV({"chrom": v.Arr("bins.chrom", n=nb), "start": st, "end": v.Arr("bins.end", n=nb), "weight": wgt}, None)
                calls = []

                def annotate(I, df, bt, replace=False):
                    # ASSUMED: the contract of api.annotate (contracts/apitables.py)
                    calls.append((df, bt, replace))
                    cols = {}
                    for suf, idc in (("1", "bin1_id"), ("2", "bin2_id")):
                        ids = df.cols[idc]
                        for c, src in bt.cols.items():
                            cols[c + suf] = Arr(ids.n, (lambda t, src=src, ids=ids: src.at(ids.at(t))), src.kind)
                    for c, a in df.cols.items():
                        if not (replace and c in ("bin1_id", "bin2_id")):
                            cols[c] = a
                    return DataFrameV(cols, None)
                snap = {"b1": b1.at, "b2": b2.at, "cnt": cnt.at, "w": wgt.at, "st": st.at}
                return dict(chunk=chunk,
                            __free__={"bins": bins, "balanced": balanced, "join": join, "annotate": None, "one_based_ids": ob_ids,
                                      "one_based_starts": ob_starts,
                                      "api": LibNS("api", {"annotate": LibFunc("api.annotate", annotate)})},
                            __ghost__={"n": n, "nb": nb, "snap": snap, "calls": calls, "bins": bins,
                                       "cfg": (balanced, join, ob_ids, ob_starts)})
            return f
        for balanced in (False, True):
            for join in (False, True):
                for ob_ids in (False, True):
                    for ob_starts in (False, True):
                        yield f"balanced={balanced},join={join},one_based_ids={ob_ids},one_based_starts={ob_starts}", mk(balanced, join, ob_ids, ob_starts)

    def requires(self, chunk):
        g = self._v.path.ghost
        s, n, nb = g["snap"], g["n"], g["nb"]
        return [n >= 0, nb >= 0, forall(0, n, lambda t: And(0 <= s["b1"](t), s["b1"](t) < nb, 0 <= s["b2"](t), s["b2"](t) < nb))]

    def ensures(self, result, chunk):
        g = self._v.path.ghost
        s, n = g["snap"], g["n"]
        balanced, join, ob_ids, ob_starts = g["cfg"]
        o = {"a-frame": isinstance(result, DataFrameV)}
        if not o["a-frame"]:
            return o
        cols = result.cols
        if balanced:
            o["balanced-column-present"] = "balanced" in cols
            if "balanced" in cols:
                o["balanced:count-times-weight-of-its-row-bin-and-its-column-bin"] = And(L(cols["balanced"]) == n, forall(
                    0, n, lambda t: cols["balanced"][t] == s["w"](s["b1"](t)) * s["w"](s["b2"](t)) * s["cnt"](t)))
        else:
            o["no-balanced-column"] = "balanced" not in cols
        o["count-untouched"] = "count" in cols and forall(0, n, lambda t: cols["count"][t] == s["cnt"](t))
        one = 1 if ob_ids else 0
        if join:
            o["join:ids-replaced-by-coordinates"] = "bin1_id" not in cols and all(c in cols for c in ("chrom1", "start1", "end1", "chrom2", "start2", "end2"))
            if "start1" in cols and "start2" in cols:
                z = 1 if ob_starts else 0
                o["join:starts-of-the-pixels-own-bins(+1-iff-one-based)"] = forall(0, n, lambda t: And(
                    cols["start1"][t] == s["st"](s["b1"](t)) + z, cols["start2"][t] == s["st"](s["b2"](t)) + z))
        else:
            o["ids-kept(+1-iff-one-based)"] = "bin1_id" in cols and "bin2_id" in cols and forall(0, n, lambda t: And(
                cols["bin1_id"][t] == s["b1"](t) + one, cols["bin2_id"][t] == s["b2"](t) + one))
        return o
