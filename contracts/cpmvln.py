"""Coordinator contracts for fileops cp / mv / ln (C15): the public wrappers select the behaviour of _copy (own contract,
contracts/fileops.py; recorded here): cp copies (no link, no rename), mv renames (the only operation that removes the source),
ln makes a hard link by default and a soft / external link when asked; URIs and the overwrite flag are passed unchanged."""
from pyvc.api import *  # noqa: F401,F403
from pyvc.values import LibFunc
from contracts.common import *  # noqa: F401,F403

FOP = "cooler.fileops"


class _Wrapper(Contract):
    props = ["C15"]
    want = None

    def configs(self, v):
        def f(v):
            calls = []
            d = dict(src_uri=v.Str("src_uri"), dst_uri=v.Str("dst_uri"), overwrite=v.Bool("overwrite"),
                     __free__={"_copy": LibFunc("_copy", lambda I, *a, **k: calls.append((a, k)))}, __ghost__={"calls": calls})
            if self.target.endswith(":ln"):
                d["soft"] = v.Bool("soft")
            return d
        yield "", f

    def ensures(self, result, src_uri, dst_uri, overwrite, soft=None):
        calls = self._v.path.ghost["calls"]
        o = {"one-copy-operation": len(calls) == 1}
        if len(calls) != 1:
            return o
        a, k = calls[0]
        names = ["src_uri", "dst_uri", "overwrite", "link", "rename", "soft_link"]
        got = dict(zip(names, a))
        got.update(k)
        o["uris-and-overwrite-passed-unchanged"] = got.get("src_uri") is src_uri and got.get("dst_uri") is dst_uri and got.get("overwrite") is overwrite
        kind = self.target.split(":")[1]
        if kind == "cp":
            o["copies:no-link-no-rename"] = got.get("link") is False and got.get("rename") is False and got.get("soft_link") is False
        elif kind == "mv":
            o["moves:rename-only"] = got.get("link") is False and got.get("rename") is True and got.get("soft_link") is False
        else:
            ln, sl = got.get("link"), got.get("soft_link")
            o["links:hard-unless-soft-asked-never-renames"] = And(Iff(ln, Not(soft)), Iff(sl, soft)) if (is_sym(ln) or is_sym(sl)) else False
            o["links:source-kept"] = got.get("rename") is False
        return o


@contract
class Cp(_Wrapper):
    target = f"{FOP}:cp"


@contract
class Mv(_Wrapper):
    target = f"{FOP}:mv"


@contract
class Ln(_Wrapper):
    target = f"{FOP}:ln"
