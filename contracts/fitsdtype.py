"""Contract for create._create:_check_fits_dtype (C07): the range check write_pixels relies on (its contract there is the
assumption `ValueError iff some value of the array given does not fit the dtype given`; here it is discharged on the real
body).  Integer data into an integer dtype with limits [lo, hi]: ValueError exactly when some value lies outside the limits;
an empty array, or a non-integer source or destination kind, is never refused.
ASSUMED: numpy.iinfo(dtype).min/.max are the limits of the dtype; ndarray.min/.max (pyvc/lib_numpy.py)."""
from pyvc.api import *  # noqa: F401,F403
from pyvc.values import LibFunc, LibNS
from contracts.common import *  # noqa: F401,F403

CR = "cooler.create._create"


class _DT:
    def __init__(self, kind):
        self.kind = kind

    def pyvc_getattr(self, I, attr, node):
        if attr == "kind":
            return self.kind
        raise Exception("dtype." + attr)


class _Limits:
    def __init__(self, lo, hi):
        self.min, self.max = lo, hi

    def pyvc_getattr(self, I, attr, node):
        return {"min": self.min, "max": self.max}[attr]


@contract
class CheckFitsDtype(Contract):
    target = f"{CR}:_check_fits_dtype"
    props = ["C07"]
    inline = True     # write_pixels uses its own statement of this contract (with the dataset's dtype object)

    def configs(self, v):
        def mk(dst_kind, src_kind):
            def f(v):
                data = v.Arr("data", kind="int" if src_kind in "iu" else "real")
                lo, hi = v.Int("dtype.min"), v.Int("dtype.max")
                dt = _DT(dst_kind)
                np_ns = v.path.engine.lib["numpy"]

                class _Data:
                    """np.asarray(data): the array with a dtype of the configured kind"""
                    def __init__(self, a):
                        self.a = a
                        self.dtype = _DT(src_kind)

                    def pyvc_len(self, I):
                        return self.a.n

                    def pyvc_getattr(self, I, attr, node):
                        if attr == "dtype":
                            return self.dtype
                        return I.getattr(self.a, attr, node)
                np2 = LibNS("numpy", dict(np_ns._members, asarray=LibFunc("np.asarray", lambda I, x, **k: _Data(x)),
                                          iinfo=LibFunc("np.iinfo", lambda I, t: _Limits(lo, hi))))
                return dict(data=data, dtype=dt, name="count", __free__={"np": np2},
                            __ghost__={"lo": lo, "hi": hi, "dst": dst_kind, "src": src_kind, "arr": data})
            return f
        for dst in ("i", "u", "f"):
            for src in ("i", "f"):
                yield f"{'integer' if src == 'i' else 'float'}-data-into-{ {'i': 'signed', 'u': 'unsigned', 'f': 'float'}[dst] }-column", mk(dst, src)

    def requires(self, **a):
        g = self._v.path.ghost
        return [g["lo"] <= g["hi"]]

    def _bad(self):
        g = self._v.path.ghost
        if g["dst"] not in "iu" or g["src"] not in "iu":
            return False
        a = g["arr"]
        return exists(0, a.n, lambda k: Or(a[k] < g["lo"], a[k] > g["hi"]))

    @property
    def raises(self):
        return {"ValueError": lambda **a: self._bad()}

    def ensures(self, result, data, dtype, name):
        return {"returns-nothing": result is None}
