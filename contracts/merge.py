"""Contracts for the k-way merge planning (C06, C07): merge_breakpoints."""
from pyvc.api import *  # noqa: F401,F403
from contracts.common import *  # noqa: F401,F403

RED = "cooler._reduce"


def _as_symlist(x):
    from pyvc.values import SymList
    import z3 as _z3
    if isinstance(x, SymList):
        return x
    if isinstance(x, list):
        items = list(x)

        def at(k, items=items):
            r = items[-1]
            for i in range(len(items) - 2, -1, -1):
                r = _z3.If(k == i, items[i], r)
            return r
        return SymList(len(items), at)
    raise Exception("expected a python list")


@contract
class MergeBreakpoints(Contract):
    """C06/C07: the epoch boundaries are a strictly increasing sequence of row ids starting at 0
    whose last element e has combined_index[e] == total (every input is exhausted there: all rows
    >= e are empty in all inputs); cum_nrecords[j] == combined_index[partition[j]].  Verified for
    k = 1, 2, 3 input indexes (the bisect loop itself does not depend on k)."""
    target = f"{RED}:merge_breakpoints"
    props = ["C06", "C07"]

    def configs(self, v):
        def mk(k):
            def f(v):
                n = v.Int("nrows1")      # length of every index = n_bins + 1
                idx = [v.Arr(f"O{i}", n=n) for i in range(k)]
                return dict(indexes=idx, bufsize=v.Int("bufsize"))
            return f
        for k in (1, 2, 3):
            yield f"k={k}", mk(k)

    def requires(self, indexes, bufsize):
        n = L(indexes[0])
        r = [n >= 2, bufsize >= 1]
        for O in indexes:
            r += [L(O) == n, O[0] == 0, nondecreasing(O), O[n - 1] < 2 ** 50]
        return r

    @staticmethod
    def _ci(indexes):
        return lambda k: sum((O[k] for O in indexes[1:]), indexes[0][k])

    def _inv(self, S):
        from pyvc.floats import as_real
        ci_arr = S.combined_index
        n = ci_arr.n
        ci = lambda k: as_real(ci_arr[k])
        Pn, P = seq_view(S.bin1_partition)
        Cn, C = seq_view(S.cum_nrecords)
        lo = S.lo
        nnz = as_real(S.combined_nnz)
        return {
            "lengths": And(Pn == Cn, Pn >= 1),
            "starts-at-0": And(P(0) == 0, as_real(C(0)) == 0),
            "partition-increasing": forall2(0, Pn, 0, Pn, lambda j1, j2: Implies(j1 < j2, P(j1) < P(j2))),
            "partition-in-range": forall(0, Pn, lambda j: And(0 <= P(j), P(j) <= n - 1)),
            "cum-matches-index": forall(0, Pn, lambda j: as_real(C(j)) == ci(P(j))),
            "lo-is-last-boundary": And(lo == P(Pn - 1), 0 <= lo, lo <= n - 1),
            "start-matches-index": as_real(S.combined_start) == ci(lo),
            "not-exhausted-yet": Or(Pn == 1, ci(lo) < nnz),
            "total": nnz == ci(n - 1),
        }

    def _prepare(self, S, I):
        for nm in ("bin1_partition", "cum_nrecords"):
            S.set_local(nm, _as_symlist(getattr(S, nm)))

    @property
    def loops(self):
        def hv(name):
            def f(v):
                fn = v.Fn(name, "int", "int")
                n = v.Int(name + ".n")
                v.assume(n >= 0)
                return SymList(n, lambda k: fn(k))
            return f

        def hv_real(name):
            def f(v):
                fn = v.Fn(name, "int", "real")
                n = v.Int(name + ".n")
                v.assume(n >= 0)
                return SymList(n, lambda k: fn(k))
            return f
        # loop 0 is `for i in range(len(indexes))` (concrete: unrolled); loop 1 is `while True`
        return {1: LoopSpec(self._inv, prepare=self._prepare,
                            havoc={"bin1_partition": hv("part"), "cum_nrecords": hv_real("cum")},
                            variant=lambda S: S.combined_index.n - S.lo)}

    def result(self, v, indexes, bufsize):
        P = v.Arr("bp.partition")
        return (P, v.Arr("bp.cum", kind="real", n=P.n))

    def ensures(self, result, indexes, bufsize):
        from pyvc.floats import as_real
        P, C = result
        n = L(indexes[0])
        m = L(P)
        ci = self._ci(indexes)
        total = ci(n - 1)
        last = P[m - 1]
        return {
            "lengths": And(m >= 2, L(C) == m),
            "starts-at-0": P[0] == 0,
            "strictly-increasing": forall2(0, m, 0, m, lambda j1, j2: Implies(j1 < j2, P[j1] < P[j2])),
            "in-range": forall(0, m, lambda j: And(0 <= P[j], P[j] <= n - 1)),
            "cum-matches-index": forall(0, m, lambda j: as_real(C[j]) == as_real(ci(P[j]))),
            "last-boundary-exhausts-every-input": as_real(ci(last)) == as_real(total),
        }
