"""Contracts for the index builders (C02): rlencode, index_pixels, index_bins."""
from pyvc.api import *  # noqa: F401,F403
from contracts.common import *  # noqa: F401,F403

UT = "cooler.util"
CR = "cooler.create._create"

inline_ok(f"{UT}:asarray_or_dataset")


def lemma_constant_run(a, p, q):
    """no change point strictly inside (p, q)  ==>  a is constant on [p, q)"""
    return Implies(forall(p + 1, q, lambda k: a[k] == a[k - 1]), forall(p, q, lambda k: a[k] == a[p]))


def rle_spec(a, n, S, Ln, Vv, rank):
    """starts S = {0} u {k : a[k] != a[k-1]}, strictly increasing; values and lengths follow"""
    m = L(S)
    return {
        "empty-input": Implies(n == 0, And(m == 0, L(Ln) == 0, L(Vv) == 0)),
        "nonempty-has-first-run": Implies(n > 0, And(m >= 1, S[0] == 0)),
        "same-lengths": And(L(Ln) == m, L(Vv) == m),
        "starts-increasing": forall2(0, m, 0, m, lambda j1, j2: Implies(j1 < j2, S[j1] < S[j2])),
        "starts-in-range": forall(0, m, lambda j: And(0 <= S[j], S[j] < n)),
        "values-are-run-heads": forall(0, m, lambda j: Vv[j] == a[S[j]]),
        "every-later-start-is-a-change-point": forall(1, m, lambda j: a[S[j]] != a[S[j] - 1]),
        "every-change-point-is-a-start": forall(1, n, lambda k: Implies(
            a[k] != a[k - 1], And(0 <= rank(k), rank(k) < m, S[rank(k)] == k))),
        "lengths": forall(0, m, lambda j: Ln[j] == If(j + 1 < m, S[j + 1], n) - S[j]),
    }


@contract
class Rlencode(Contract):
    """C02: chunked run-length encoder; the carry of the last value across EVERY block boundary
    (any chunksize >= 1) is what the invariant covers."""
    target = f"{UT}:rlencode"
    props = ["C02", "C01"]

    def configs(self, v):
        yield "chunksize=int", lambda v: dict(array=v.Arr("a"), chunksize=v.Int("chunksize"))
        yield "chunksize=None", lambda v: dict(array=v.Arr("a"), chunksize=None)

    def requires(self, array, chunksize):
        return [] if chunksize is None else [chunksize >= 1]

    # loop 0: for i in range(0, n, chunksize)
    def _inv(self, S):
        from pyvc.values import nan_view
        a = S.array
        n = S.n
        cs = S.chunksize
        t = S.it
        P = Min(t * cs, n)
        st, vl = S.starts, S.values
        Sf, Vf = st.flat, vl.flat
        m = Sf.n
        rank = S.rank
        inv = {}
        if getattr(S, "last_val", None) is not None:
            # the carried value (if the code keeps one): NaN before the first block, then a[P-1]
            isnan, lv = nan_view(S.last_val)
            inv["carry-first-block"] = Implies(t == 0, isnan)
            inv["carry"] = Implies(t > 0, And(Not(isnan), lv == a[P - 1]))
        inv.update({
            "counts": And(st.count == t, vl.count == t, Vf.n == m, m >= 0),
            "first-block": Implies(t == 0, m == 0),
            "after-first-block": Implies(t > 0, And(m >= 1, Sf[0] == 0, P >= 1)),
            "starts-increasing": forall2(0, m, 0, m, lambda j1, j2: Implies(j1 < j2, Sf[j1] < Sf[j2])),
            "starts-in-range": forall(0, m, lambda j: And(0 <= Sf[j], Sf[j] < P)),
            "values-are-run-heads": forall(0, m, lambda j: Vf[j] == a[Sf[j]]),
            "every-later-start-is-a-change-point": forall(1, m, lambda j: a[Sf[j]] != a[Sf[j] - 1]),
            "every-change-point-is-a-start": forall(1, P, lambda k: Implies(
                a[k] != a[k - 1], And(0 <= rank(k), rank(k) < m, Sf[rank(k)] == k))),
            "n": And(n == L(a), n > 0, cs >= 1),
        })
        return inv

    def _prepare(self, S, I):
        from pyvc.values import ConcatList, Arr
        for nm in ("starts", "values"):
            if isinstance(getattr(S, nm), list) and not getattr(S, nm):
                S.set_local(nm, ConcatList(z3.IntVal(0), Arr(0, lambda k: z3.IntVal(0), "int")))

    def _ghost_init(self, S, I):
        return {"rank": z3.Function(I.path.fresh_name("g.rank"), z3.IntSort(), z3.IntSort())}

    def _ghost_step(self, S, I):
        """rank of the change points found in this block: position in the flat starts array"""
        from pyvc.lib_numpy import mask_filter
        # the mask the code built: where(x[1:] != x[:-1]); recover its filter through locs' provenance
        msk = I.path.ghost.get("last_mask")
        i = S.i
        old = S.rank
        x = S.x
        locs = S.locs
        st = S.starts
        m_new = st.flat.n
        m_old = m_new - locs.n
        if msk is None:
            raise Exception("ghost: mask of the block not found")
        mm, fsrc, frank = msk
        # locs = [0]? ++ (flatnonzero(mask) + 1): offset of the interior change points inside locs
        off0 = locs.n - mm
        S.set_ghost("rank", lambda p: z3.If(p < i, old(p), z3.If(p == i, m_old, m_old + off0 + frank(p - i - 1))))

    @property
    def loops(self):
        from pyvc.values import MaybeNaN
        return {0: LoopSpec(self._inv, prepare=self._prepare, ghost_init=self._ghost_init,
                            ghost_step=self._ghost_step,
                            havoc={"last_val": lambda v: MaybeNaN(v.Bool("last_val.isnan"), v.Int("last_val")),
                                   "__g_rank": lambda v: v.Fn("g.rank", "int", "int")})}

    def result(self, v, array, chunksize):
        S = v.Arr("rle.starts")
        return (S, v.Arr("rle.lengths", n=S.n), v.Arr("rle.values", n=S.n)), \
            {"__ghost__": True, "rank": v.Fn("rle.rank", "int", "int")}

    def ensures(self, result, ghost, array, chunksize):
        S, Ln, Vv = result
        a = array
        n = L(a)
        rank = ghost["rank"] if "rank" in ghost else (lambda k: 0)
        out = rle_spec(a, n, S, Ln, Vv, rank)
        m = L(S)
        # consequence by induction (lemma constant-run, proved below): every run is constant.
        # Stated for all runs j and all positions k of run j (flat two-variable form).
        nxt = lambda j: If(j + 1 < m, S[j + 1], n)
        in_run = lambda j, k: And(S[j] <= k, k < nxt(j))
        out["hint:no-change-point-inside-a-run"] = forall2(0, m, 1, n, lambda j, k: Implies(
            And(S[j] < k, k < nxt(j)), a[k] == a[k - 1]))
        # lemma constant-run: (no change point inside [p, q)) ==> a constant on [p, q).  Its antecedent
        # has just been proved for every run, so the instances contribute the conclusion.
        out["by-lemma:constant-run@every-run"] = forall2(0, m, 0, n, lambda j, k: Implies(in_run(j, k), a[k] == a[S[j]]))
        out["runs-are-constant"] = forall2(0, m, 0, n, lambda j, k: Implies(in_run(j, k), a[k] == Vv[j]))
        out["runs-cover-the-array"] = Implies(n > 0, And(S[0] == 0, nxt(m - 1) == n))
        return out

    def lemmas(self, path, v):
        """constant-run by induction on k: base k = p, step k -> k+1"""
        a = v.Arr("La")
        p, q, k = v.Int("Lp"), v.Int("Lq"), v.Int("Lk")
        path.assume(forall(p + 1, q, lambda kk: a[kk] == a[kk - 1]))
        path.oblige("lemma", "constant-run/base", Implies(p < q, a[p] == a[p]))
        path.oblige("lemma", "constant-run/step",
                    Implies(And(p <= k, k + 1 < q, a[k] == a[p]), a[k + 1] == a[p]))


def rl_index_spec(O, A, nvals, upto=None):
    """O[i] is the lower bound of i in the sorted array A, for all i < upto (default nvals + 1):
    every position before O[i] holds a value < i, every position from O[i] on a value >= i"""
    upto = nvals + 1 if upto is None else upto
    return And(forall(0, upto, lambda i: And(0 <= O[i], O[i] <= L(A))),
               forall2(0, upto, 0, L(A), lambda i, k: And(Implies(k < O[i], A[k] < i), Implies(k >= O[i], A[k] >= i))))


def _mk_index_contract(name, target, keycol, outname, nvalsarg, totalarg, chunked):
    class C(Contract):
        __doc__ = f"C02: {name} builds exactly the run-length (lower-bound) index of `{keycol}`"
        props = ["C02", "C01"]

        def configs(self, v):
            def f(v):
                A = v.Arr(keycol)
                return {"grp": {keycol: A}, nvalsarg: v.Int(nvalsarg), totalarg: v.Int(totalarg)}
            yield "", f

        def requires(self, **a):
            A = a["grp"][keycol]
            nvals, total = a[nvalsarg], a[totalarg]
            return [nvals >= 0, total == L(A), nondecreasing(A), forall(0, L(A), lambda k: And(0 <= A[k], A[k] < nvals))]

        def _inv(self, S):
            A = S.grp[keycol]
            nvals, total = getattr(S, nvalsarg), getattr(S, totalarg)
            O = getattr(S, outname)
            t = S.it
            vl_at = lambda k: S.item_at(k)[2]
            cur = S.curr_val
            return {
                "offset-length": O.n == nvals + 1,
                "curr-val": And(cur == If(t == 0, 0, vl_at(t - 1) + 1), 0 <= cur, cur <= nvals),
                "filled-part-is-the-lower-bound-index": rl_index_spec(O, A, nvals, upto=cur),
            }

        @property
        def loops(self):
            return {0: LoopSpec(self._inv)}

        def result(self, v, **a):
            return v.Arr(outname, n=a[nvalsarg] + 1)

        def ensures(self, result, **a):
            A = a["grp"][keycol]
            nvals, total = a[nvalsarg], a[totalarg]
            O = result
            return {
                "length": L(O) == nvals + 1,
                "is-the-run-length-index": rl_index_spec(O, A, nvals),
                "starts-at-0": O[0] == 0,
                "ends-at-total": O[nvals] == total,
                # the key stored at an offset is at least the row (instance k = O[i] of the index property;
                # it puts the terms A[O[i]] on the table for the monotonicity argument)
                "hint:key-at-offset": forall(0, nvals + 1, lambda i: Implies(O[i] < L(A), A[O[i]] >= i)),
                "nondecreasing": forall2(0, nvals + 1, 0, nvals + 1, lambda i1, i2: Implies(i1 <= i2, O[i1] <= O[i2])),
            }
    C.target = target
    C.__name__ = name
    return contract(C)


IndexPixels = _mk_index_contract("IndexPixels", f"{CR}:index_pixels", "bin1_id", "bin1_offset", "n_bins", "nnz", True)
IndexBins = _mk_index_contract("IndexBins", f"{CR}:index_bins", "chrom", "chrom_offset", "n_chroms", "n_bins", False)
