"""Coordinator contract for _reduce:zoomify_cooler (C09), for concrete small plans (one base with a chain of levels;
two bases with interleaved levels): file names, chunk size, options are symbolic/opaque; get_multiplier_sequence is
the callee under its own contract (contracts/zoom.py) and is replaced here by the plan it returns.
What is verified: the output file is truncated exactly once (first base) and re-opened r+ afterwards, inputs are only
read; every base level is a copy of its input's chroms, bins, requested pixel columns, indexes and attributes under
/resolutions/<binsize>; every planned non-base level is produced by exactly one coarsen_cooler call, in plan order,
from the level the plan names with the factor the plan names, inside the output file in r+ mode; base levels are
never re-derived; the file is finally marked as a multi-resolution file."""
from pyvc.api import *  # noqa: F401,F403
from pyvc.values import LibFunc, LibNS
from contracts.common import *  # noqa: F401,F403

RED = "cooler._reduce"


class _Node:
    def __init__(self, f, path):
        self.f, self.path = f, path

    def pyvc_getattr(self, I, attr, node):
        if attr == "attrs":
            return _Attrs(self)
        raise Exception("Group." + attr)


class _Attrs:
    def __init__(self, node):
        self.node = node

    def pyvc_getattr(self, I, attr, node):
        if attr == "update":
            def upd(I, other):
                self.node.f.log.append(("attrs.update", self.node.f.role, self.node.path,
                                        (other.node.f.role, other.node.path) if isinstance(other, _Attrs) else other))
            return LibFunc("attrs.update", upd)
        raise Exception("attrs." + attr)


class _File:
    def __init__(self, log, role, path, mode):
        self.log, self.role, self.path, self.mode = log, role, path, mode
        self.attrs = _Attrs(_Node(self, "/"))

    def pyvc_enter(self, I):
        return self

    def pyvc_exit(self, I, exc):
        self.log.append(("close", self.role))

    def pyvc_getitem(self, I, key, node):
        return _Node(self, key)

    def pyvc_getattr(self, I, attr, node):
        if attr == "copy":
            def cp(I, source, dest, name=None):
                self.log.append(("copy", self.role, source, dest.role if isinstance(dest, _File) else None, name))
            return LibFunc("File.copy", cp)
        if attr == "attrs":
            return self.attrs
        raise Exception("File." + attr)


class _Chain:
    """clr.bins()[:].groupby(...).size().max(): only its existence matters here"""

    def pyvc_getitem(self, I, key, node):
        return self

    def pyvc_getattr(self, I, attr, node):
        return LibFunc("chain." + attr, lambda I, *a, **k: self if attr != "max" else Opaque("bins in the longest chromosome"))


@contract
class ZoomifyCooler(Contract):
    target = f"{RED}:zoomify_cooler"
    props = ["C09"]

    def configs(self, v):
        def mk(bases, resolutions, plan, columns):
            def f(v):
                log = []
                out = v.Str("outfile")
                uris = {b: v.Str(f"base_uri_{b}") for b in bases}
                files = {b: (v.Str(f"infile_{b}"), v.Str(f"ingroup_{b}")) for b in bases}
                by_uri = {id(u): b for b, u in uris.items()}

                def parse(I, u):
                    return files[by_uri[id(u)]]

                class _Clr:
                    def __init__(self, b):
                        self.b = b

                    def pyvc_getattr(self, I, attr, node):
                        if attr == "binsize":
                            return self.b
                        if attr == "bins":
                            return LibFunc("Cooler.bins", lambda I, **k: _Chain())
                        raise Exception("Cooler." + attr)

                def Cooler(I, infile, ingroup):
                    b = [bb for bb, (f_, g_) in files.items() if f_ is infile][0]
                    return _Clr(b)

                def File(I, path, mode="r", **k):
                    role = "out" if path is out else ("in", [bb for bb, (f_, g_) in files.items() if f_ is path][0])
                    log.append(("open", role, mode))
                    return _File(log, role, path, mode)

                def gms(I, res, base_res):
                    log.append(("plan", list(res), set(base_res)))
                    return plan

                def coarsen(I, *a, **kw):
                    log.append(("coarsen", a, kw))
                opts = {"chunksize": v.Int("chunksize"), "nproc": v.Int("nproc"), "dtypes": Opaque("dtypes"), "agg": Opaque("agg")}
                base_arg = uris[bases[0]] if len(bases) == 1 else [uris[b] for b in bases]
                args = dict(base_uris=base_arg, outfile=out, resolutions=list(resolutions), chunksize=opts["chunksize"], nproc=opts["nproc"],
                            columns=columns, dtypes=opts["dtypes"], agg=opts["agg"], kwargs={})
                args["__free__"] = {"parse_cooler_uri": LibFunc("parse_cooler_uri", parse), "Cooler": LibFunc("Cooler", Cooler),
                                    "h5py": LibNS("h5py", {"File": LibFunc("h5py.File", File)}),
                                    "get_multiplier_sequence": LibFunc("get_multiplier_sequence", gms),
                                    "coarsen_cooler": LibFunc("coarsen_cooler", coarsen)}
                args["__ghost__"] = {"log": log, "out": out, "files": files, "bases": bases, "plan": plan, "opts": opts,
                                     "columns": columns, "resolutions": resolutions}
                return args
            return f
        yield "one-base,chain", mk([10], [10, 20, 40], ([10, 20, 40], [-1, 0, 1], [1, 2, 2]), None)
        yield "one-base,fan-out,extra-column", mk([10], [20, 30], ([10, 20, 30], [-1, 0, 0], [1, 2, 3]), ["count", "extra"])
        yield "two-bases,interleaved", mk([10, 30], [10, 20, 30, 60], ([10, 20, 30, 60], [-1, 0, -1, 2], [1, 2, 1, 2]), None)
        yield "base-only", mk([10], [10], ([10], [-1], [1]), None)

    def ensures(self, result, base_uris, outfile, resolutions, chunksize, nproc, columns, dtypes, agg, kwargs):
        g = self._v.path.ghost
        log, out, files, bases, plan = g["log"], g["out"], g["files"], g["bases"], g["plan"]
        resn, pred, mult = plan
        cols = list(columns) if columns is not None else ["count"]
        res = {}
        opens = [op for op in log if op[0] == "open"]
        outs = [op for op in opens if op[1] == "out"]
        res["output-truncated-exactly-once-then-r+"] = len(outs) >= 1 and outs[0][2] == "w" and all(op[2] == "r+" for op in outs[1:])
        res["inputs-only-read"] = all(op[2] == "r" for op in opens if op[1] != "out")
        pl = [op for op in log if op[0] == "plan"]
        res["planned-once-from-the-requested-resolutions-and-the-bases"] = len(pl) == 1 and pl[0][1] == list(g["resolutions"]) and pl[0][2] == set(bases)
        copies = [op for op in log if op[0] == "copy"]
        for b in bases:
            ing = files[b][1]
            pre = f"/resolutions/{b}"
            mine = [op for op in copies if op[1] == ("in", b)]
            want = ["/chroms", "/bins"] + [f"/pixels/{c}" for c in ["bin1_id", "bin2_id"] + cols] + ["/indexes"]
            ok = len(mine) == len(want) and all(op[3] == "out" for op in mine)
            res[f"base-{b}:tables-copied-once-into-the-output"] = ok
            if ok:
                dst_ok = all(op[4] == pre + sfx for op, sfx in zip(mine, want))
                res[f"base-{b}:copied-from-its-own-group-to-/resolutions/{b}"] = And(*[
                    op[2] == z3.Concat(ing, z3.StringVal(sfx)) for op, sfx in zip(mine, want)]) if dst_ok else False
            at = [op for op in log if op[0] == "attrs.update" and op[1] == "out" and op[2] == pre]
            res[f"base-{b}:attributes-copied"] = len(at) == 1 and isinstance(at[0][3], tuple) and at[0][3][0] == ("in", b) and at[0][3][1] is ing
        cz = [op for op in log if op[0] == "coarsen"]
        steps = [i for i in range(len(resn)) if pred[i] != -1]
        res["one-coarsening-per-planned-non-base-level"] = len(cz) == len(steps)
        if len(cz) == len(steps):
            for op, i in zip(cz, steps):
                a, kw = op[1], op[2]
                src_b, dst_b = resn[pred[i]], resn[pred[i]] * mult[i]
                tag = f"level-{resn[i]}"
                res[f"{tag}:target-is-the-planned-level"] = dst_b == resn[i]
                ok = len(a) == 4
                res[f"{tag}:from-the-planned-predecessor-inside-the-output"] = (a[0] == z3.Concat(out, z3.StringVal(f"::resolutions/{src_b}"))) if ok else False
                res[f"{tag}:to-its-own-level-inside-the-output"] = (a[1] == z3.Concat(out, z3.StringVal(f"::resolutions/{dst_b}"))) if ok else False
                if ok:
                    res[f"{tag}:with-the-planned-factor-and-the-callers-chunksize"] = And(a[2] == mult[i], a[3] == chunksize) if not isinstance(a[2], int) \
                        else (a[3] == chunksize if a[2] == mult[i] else False)
                res[f"{tag}:appended-with-the-callers-options"] = kw.get("mode") == "r+" and kw.get("columns") == cols and kw.get("dtypes") is dtypes \
                    and kw.get("agg") is agg and kw.get("nproc") is nproc
            order = [op[0] for op in log]
            if steps:
                res["levels-derived-after-every-base-is-copied"] = order.index("coarsen") > max(i for i, o in enumerate(order) if o == "copy")
        fin = [op for op in log if op[0] == "attrs.update" and op[1] == "out" and op[2] == "/"]
        res["marked-as-multi-resolution-file"] = len(fin) == 1 and isinstance(fin[0][3], dict) and fin[0][3].get("format") == "HDF5::MCOOL"
        return res
