"""Contracts for bin-table generation and inference (C20; used by C02 C04 C05 C07 C08)."""
from pyvc.api import *  # noqa: F401,F403
from contracts.common import *  # noqa: F401,F403

UT = "cooler.util"
MAXCOORD = 2 ** 40


def _frame(v, nchrom, off, start, end, chrom):
    from pyvc.lib_pandas import DataFrameV
    return DataFrameV({"chrom": chrom, "start": start, "end": end}, None, runs=(nchrom, off))


@contract
class BinnifyEach(Contract):
    """C20: per chromosome, consecutive bins from 0 of exactly the requested width with one
    possibly shorter last bin ending at the chromosome length."""
    target = f"{UT}:binnify._each"
    props = ["C20"]
    inline = True     # its clauses read the free variables of its own configuration: binnify (own contract) executes the body

    def configs(self, v):
        def f(v):
            has = v.Fn("chromsizes.has", z3.StringSort(), z3.BoolSort())
            ln = v.Fn("chromsizes.len", z3.StringSort(), z3.IntSort())
            return dict(chrom=v.Str("chrom"),
                        __free__={"chromsizes": SymMap(lambda k: has(k), lambda k: ln(k), "chromsizes"),
                                  "binsize": v.Int("binsize")})
        yield "", f

    def _free(self):
        return self._v.path.ghost["__free__"]

    def requires(self, chrom):
        fr = self._free()
        cs, b = fr["chromsizes"], fr["binsize"]
        clen = cs.get(chrom)
        return [cs.has(chrom), clen >= 0, clen < MAXCOORD, b >= 1, b < MAXCOORD]

    def ensures(self, result, chrom):
        fr = self._free()
        cs, b = fr["chromsizes"], fr["binsize"]
        clen = cs.get(chrom)
        start, end, ch = result.cols["start"], result.cols["end"], result.cols["chrom"]
        n = cdiv(clen, b)
        pre = True
        return {
            "column-order": list(result.cols.keys()) == ["chrom", "start", "end"],
            "hint:count-bounds": Implies(pre, And((n - 1) * b < clen, clen <= n * b, n >= 0)),
            "bin-count": Implies(pre, And(L(start) == n, L(end) == n, L(ch) == n)),
            "starts-are-multiples": Implies(pre, forall(0, n, lambda k: start[k] == k * b)),
            "ends-clamped-to-length": Implies(pre, forall(0, n, lambda k: end[k] == Min((k + 1) * b, clen))),
            "last-bin-ends-at-length": Implies(And(pre, n > 0), end[n - 1] == clen),
            "chromosome-label": Implies(pre, forall(0, n, lambda k: ch.at(k) == chrom)),
        }


def _is_nonlast(off, chrom, k):
    """bin k is not the last bin of its chromosome"""
    return k + 1 < off[chrom[k] + 1]


def _widths_ok(off, chrom, start, end, hi, b):
    """every non-last bin among the first ``hi`` bins has width b (flat form)"""
    return forall(0, hi, lambda k: Implies(_is_nonlast(off, chrom, k), end[k] - start[k] == b))


@contract
class GetBinsize(Contract):
    """C20: a bin table is reported as having a fixed size b only if every bin is
    [k*b, min((k+1)*b, length)).  For a valid table this means: every non-last bin of
    every chromosome has width b AND no last bin is longer than b."""
    target = f"{UT}:get_binsize"
    props = ["C20", "C04", "C05", "C07", "C08"]

    def configs(self, v):
        def f(v):
            nchrom = v.Int("nchrom")
            off = v.Arr("chrom_offset", n=nchrom + 1)
            start = v.Arr("bins.start")
            end = v.Arr("bins.end", n=start.n)
            chrom = v.Arr("bins.chrom", n=start.n)
            clen = v.Arr("clen", n=nchrom)
            return dict(bins=_frame(v, nchrom, off, start, end, chrom),
                        __ghost__={"nchrom": nchrom, "off": off, "start": start, "end": end, "clen": clen,
                                   "chrom": chrom})
        yield "", f

    def _g(self):
        return self._v.path.ghost

    def requires(self, bins):
        g = self._g()
        # weakest precondition: only the grouping structure and non-empty bins are needed
        # (both follow from valid_bins by instantiation)
        nb = L(g["start"])
        return [bins_grouped(g["nchrom"], g["off"], g["chrom"], nb), L(g["end"]) == nb,
                forall(0, nb, lambda k: g["start"][k] < g["end"][k])]

    # loop 0: for _chrom, group in bins.groupby("chrom", observed=True)
    def _inv(self, S):
        g = self._g()
        off, start, end, chrom = g["off"], g["start"], g["end"], g["chrom"]
        c = S.it
        sz = S.sizes
        done = off[c]         # bins of the chromosomes processed so far: [0, off[c])
        inv = {
            "card-le-1": And(sz.card >= 0, sz.card <= 1),
            "singleton-is-the-common-width": Implies(sz.card == 1, _widths_ok(off, chrom, start, end, done, sz.elem)),
            "empty-iff-no-nonlast-bins": Implies(sz.card == 0, forall(0, done, lambda k: Not(_is_nonlast(off, chrom, k)))),
            "nonempty-has-witness": Implies(sz.card == 1, And(0 <= S.wit, S.wit < done, _is_nonlast(off, chrom, S.wit))),
            "position": And(0 <= c, c <= g["nchrom"]),
        }
        if getattr(S, "max_last", None) is not None:
            inv["max-last-bounds-every-last-bin"] = forall(0, done, lambda k: Implies(
                Not(_is_nonlast(off, chrom, k)), end[k] - start[k] <= S.max_last))
        return inv

    def _prepare(self, S, I):
        from pyvc.lib_builtin import SymSet
        if isinstance(S.sizes, set) and not S.sizes:
            S.set_local("sizes", SymSet.empty())

    def _ghost_init(self, S, I):
        return {"wit": z3.IntVal(-1)}

    def _ghost_step(self, S, I):
        # ghost witness: a non-last bin (exists as soon as the set is non-empty)
        g = self._g()
        off = g["off"]
        c = S.it - 1
        S.set_ghost("wit", If(off[c + 1] - 1 - off[c] > 0, off[c], S.wit))

    @property
    def loops(self):
        return {0: LoopSpec(self._inv, prepare=self._prepare, ghost_init=self._ghost_init, ghost_step=self._ghost_step)}

    def ensures(self, result, bins):
        g = self._g()
        nchrom, off, start, end, chrom = g["nchrom"], g["off"], g["start"], g["end"], g["chrom"]
        if result is None:
            return {}
        b = result
        nb = L(start)
        return {
            "nonlast-bins-have-width-b": _widths_ok(off, chrom, start, end, nb, b),
            "positive": b >= 1,
            # the clause the property adds and the original code never looked at (D2, fixed in 14bf095):
            "last-bins-not-longer-than-b": forall(0, nb, lambda k: Implies(
                Not(_is_nonlast(off, chrom, k)), end[k] - start[k] <= b)),
        }

    def lemmas(self, path, v):
        """widths == b for non-last bins + last bins <= b  ==>  fixed_bins(T, b)  (by induction
        along a chromosome; here: the inductive step, base and conclusion as three obligations)"""
        nchrom = v.Int("L.nchrom")
        off = v.Arr("L.off", n=nchrom + 1)
        start = v.Arr("L.start")
        end = v.Arr("L.end", n=start.n)
        clen = v.Arr("L.clen", n=nchrom)
        b = v.Int("L.b")
        c = v.Int("L.c")
        path.assume([0 <= c, c < nchrom, b >= 1])
        path.assume(valid_bins_at(off, start, end, clen, c))
        path.assume(forall(off[c], off[c + 1] - 1, lambda k: end[k] - start[k] == b))
        path.assume(end[off[c + 1] - 1] - start[off[c + 1] - 1] <= b)
        lo = off[c]
        # induction on j: start[lo + j] == j * b
        j = v.Int("L.j")
        path.oblige("lemma", "fixed-from-widths/base", start[lo] == 0 * b)
        path.oblige("lemma", "fixed-from-widths/step",
                    Implies(And(0 <= j, lo + j + 1 < off[c + 1], start[lo + j] == j * b), start[lo + j + 1] == (j + 1) * b))
        # conclusion, given the induction result as a quantified fact
        path.assume(forall(0, off[c + 1] - lo, lambda jj: start[lo + jj] == jj * b))
        path.oblige("lemma", "fixed-from-widths/conclusion", fixed_bins_at(off, start, end, clen, c, b))


@contract
class GetChromsizes(Contract):
    """C20: the chromosome lengths inferred from a bin table are the ends of its last bins, in table order"""
    target = f"{UT}:get_chromsizes"
    props = ["C20", "C02"]

    def configs(self, v):
        def f(v):
            nchrom = v.Int("nchrom")
            off = v.Arr("chrom_offset", n=nchrom + 1)
            start = v.Arr("bins.start")
            end = v.Arr("bins.end", n=start.n)
            chrom = v.Arr("bins.chrom", n=start.n)
            clen = v.Arr("clen", n=nchrom)
            return dict(bins=_frame(v, nchrom, off, start, end, chrom),
                        __ghost__={"nchrom": nchrom, "off": off, "start": start, "end": end, "clen": clen, "chrom": chrom})
        yield "", f

    def requires(self, bins):
        g = self._v.path.ghost
        return [valid_bins(g["nchrom"], g["off"], g["start"], g["end"], g["clen"]),
                chrom_of_bin_ok(g["nchrom"], g["off"], g["chrom"])]

    def ensures(self, result, bins):
        g = self._v.path.ghost
        nchrom, off, end, clen = g["nchrom"], g["off"], g["end"], g["clen"]
        n, dat = seq_view(result.values)
        ni, idx = seq_view(result.index)
        return {
            "one-entry-per-chromosome": And(n == nchrom, ni == nchrom),
            "length-is-end-of-last-bin": forall(0, nchrom, lambda c: dat(c) == end[off[c + 1] - 1]),
            "equals-true-lengths": forall(0, nchrom, lambda c: dat(c) == clen[c]),
            "table-order": forall(0, nchrom, lambda c: idx(c) == c),
        }
