"""Contract for _balance:balance_cooler as a coordinator (C10 C11).

The iterative sweeps (_balance_genomewide/_cisonly/_transonly) and the split-apply-combine engine (parallel.split)
are replaced by recording stubs; what is verified, for every nnz, bin count, chunk size, threshold and flag:
  * the chunk spans tile [0, nnz) - first span starts at 0, consecutive spans of exactly `chunksize` pixels, the last
    one reaches nnz and no span starts at or beyond nnz ("visits every stored pixel exactly once for every chunk size");
  * which filter pipeline each marginal pass uses (binarised pass only when min_nnz > 0; cis-only drops trans pixels;
    ignore_diags drops the first diagonals) and that every pass runs over the same spans with the caller's map;
  * the initial bias handed to the sweeps: 0 exactly for the bins excluded by min_nnz / min_count, 1 otherwise;
  * which balancer runs, with which arguments; the statistics record (converged iff var < tol); what `store` writes.
NOT covered here (requires exclude them; bounded tier): the MAD-max block (mad_max > 0), caller-supplied x0 and
blacklist.  ASSUMED: numpy arange / ones / zeros / boolean-mask store, functools.partial."""
from pyvc.api import *  # noqa: F401,F403
from pyvc.values import LibFunc, SymList, is_z3
from contracts.common import *  # noqa: F401,F403

BAL = "cooler._balance"


class _Stub:
    def pyvc_getattr(self, I, attr, node):
        d = self.__dict__
        if attr in d:
            return d[attr]
        m = getattr(self, "m_" + attr, None)
        if m is not None:
            return LibFunc(type(self).__name__ + "." + attr, m)
        raise Exception(f"stub {type(self).__name__} has no attribute {attr}")


class _Pipe(_Stub):
    def __init__(self, w, clr, spans, map_, use_lock):
        self.w, self.head, self.steps = w, (clr, spans, map_, use_lock), []

    def m_prepare(self, I, f):
        self.steps.append(("prepare", f))
        return self

    def m_pipe(self, I, f, *a, **k):
        self.steps.append(("pipe", f, a, k))
        return self

    def m_reduce(self, I, binop, init):
        n = len(self.w["passes"])
        out = I.path.fresh_arr(f"marginal{n}", "real", n=self.w["nbins"])
        self.w["passes"].append(dict(head=self.head, steps=list(self.steps), binop=binop, init=init, out=out))
        self.w["log"].append(("pass", n))
        return out


class _Attrs(_Stub):
    def __init__(self, w, path):
        self.w, self.path = w, path

    def m_update(self, I, d):
        self.w["log"].append(("attrs.update", self.path, d))


class _Node(_Stub):
    def __init__(self, w, path):
        self.w, self.path = w, path
        self.attrs = _Attrs(w, path)

    def pyvc_getitem(self, I, key, node):
        return _Node(self.w, self.path + (key,))

    def pyvc_contains(self, I, key):
        return self.w["weight_exists"]

    def pyvc_delitem(self, I, key):
        self.w["log"].append(("delete", self.path + (key,)))

    def m_create_dataset(self, I, name, data=None, **kw):
        self.w["log"].append(("create_dataset", self.path + (name,), data, kw))

    def pyvc_enter(self, I):
        return self

    def pyvc_exit(self, I, exc):
        self.w["log"].append(("close",))


class _Clr(_Stub):
    def __init__(self, w):
        self.w = w
        self.info = {"nnz": w["nnz"], "nbins": w["nbins"]}

    def m_open(self, I, mode="r", **k):
        self.w["log"].append(("open", mode))
        return _Node(self.w, ())


@contract
class BalanceCooler(Contract):
    target = f"{BAL}:balance_cooler"
    props = ["C10", "C11"]

    def configs(self, v):
        def mk(mode, chunk_none, diags, store):
            def f(v):
                w = {"log": [], "passes": [], "nnz": v.Int("nnz"), "nbins": v.Int("n_bins"),
                     "weight_exists": v.Bool("stored_weight_exists"), "balancer": []}
                clr = _Clr(w)
                cs = None if chunk_none else v.Int("chunksize")
                ig = False if not diags else v.Int("ignore_diags")
                tol = v.Real("tol")
                var, scale = v.Real("var"), Opaque("scale")
                out_bias = v.path.fresh_arr("bias_out", "real", n=w["nbins"])

                def balancer(name):
                    def b(I, *a):
                        w["balancer"].append((name, a))
                        w["log"].append(("balance", name))
                        return (out_bias, scale, RealV(var))
                    return LibFunc(name, b)
                mp, lock = Opaque("map"), v.Bool("use_lock")
                w.update(clr=clr, cs=cs, ig=ig, tol=tol, var=var, scale=scale, out_bias=out_bias, map=mp, lock=lock,
                         r_mode=mode, r_store=store)
                args = dict(clr=clr, cis_only=(mode == "cis"), trans_only=(mode == "trans"), ignore_diags=ig, mad_max=0,
                            min_nnz=v.Int("min_nnz"), min_count=v.Int("min_count"), blacklist=None,
                            rescale_marginals=v.Bool("rescale"), x0=None, tol=RealV(tol), max_iters=v.Int("max_iters"),
                            chunksize=cs, map=mp, use_lock=lock, store=store, store_name=v.Str("store_name"))
                args["__free__"] = {
                    "split": LibFunc("split", lambda I, c, spans=None, map=None, use_lock=None, **k: _Pipe(w, c, spans, map, use_lock)),
                    "add": Opaque("operator.add"),
                    "_balance_cisonly": balancer("cis"), "_balance_transonly": balancer("trans"),
                    "_balance_genomewide": balancer("genomewide"),
                }
                args["__ghost__"] = w
                return args
            return f
        for mode in ("genomewide", "cis", "trans"):
            for chunk_none in (False, True):
                for diags in (True, False):
                    yield f"{mode},chunksize={'None' if chunk_none else 'int'},ignore_diags={'int' if diags else 'False'}", \
                        mk(mode, chunk_none, diags, False)
        yield "store", mk("genomewide", False, True, True)
        yield "cis+trans-flags", mk("cis", False, True, False)

    def _w(self):
        return self._v.path.ghost

    def requires(self, **a):
        w = self._w()
        r = [w["nnz"] >= 0, w["nbins"] >= 0]
        if w["cs"] is not None:
            r.append(w["cs"] >= 1)
        if w["ig"] is not False:
            r.append(w["ig"] >= 0)
        return r

    # ------------------------------------------------------------------
    def _spans_ok(self, spans):
        w = self._w()
        nnz, cs = w["nnz"], w["cs"]
        if cs is None:
            ok = isinstance(spans, list) and len(spans) == 1 and len(spans[0]) == 2
            if not ok:
                return {"spans:one-span-over-everything": False}
            return {"spans:one-span-over-everything": And(spans[0][0] == 0, spans[0][1] == nnz)}
        if not isinstance(spans, SymList):
            return {"spans:a-list-of-pairs": False}
        n = spans.n
        out = {
            "spans:consecutive-chunks-of-exactly-chunksize-from-0": forall(
                0, n, lambda k: And(spans.at(k)[0] == k * cs, spans.at(k)[1] == (k + 1) * cs)),
            "spans:count-is-ceil(nnz/chunksize)": And(n * cs >= nnz, n * cs < nnz + cs, n >= 0),
            "spans:reach-the-last-pixel": n * cs >= nnz,
            "spans:no-span-starts-at-or-after-nnz": Implies(n > 0, (n - 1) * cs < nnz),
        }
        return out

    def _filters(self, fs):
        """names of a filter list as the stubs see it"""
        out = []
        for f in fs:
            nm = getattr(f, "qualname", None)
            if nm is None and hasattr(f, "func"):
                nm = ("partial", getattr(f.func, "qualname", None), tuple(f.args))
            out.append(nm)
        return out

    def ensures(self, result, clr, cis_only, trans_only, ignore_diags, mad_max, min_nnz, min_count, blacklist,
                rescale_marginals, x0, tol, max_iters, chunksize, map, use_lock, store, store_name):
        w = self._w()
        I = self._I
        out = {}
        passes = w["passes"]
        # which passes ran: the binarised one only when min_nnz > 0 (decided on this path), then the count pass
        binarised = [p for p in passes if any(s[0] == "pipe" and isinstance(s[1], list) and "_binarize" in self._filters(s[1])
                                              for s in p["steps"])]
        has_nnz_pass = self._v.path.implied(min_nnz > 0)
        out["binarised-pass-iff-min_nnz-positive"] = (len(binarised) == 1) == bool(has_nnz_pass) and len(passes) == len(binarised) + 1
        if not passes:
            return out
        spans = passes[0]["head"][1]
        out.update(self._spans_ok(spans))
        out["every-pass-runs-over-the-same-spans-with-the-callers-map-and-lock"] = all(
            p["head"][0] is clr and p["head"][1] is spans and p["head"][2] is map and p["head"][3] is use_lock for p in passes)
        base = (["_zero_trans"] if cis_only else []) + ([("partial", "_zero_diags", (ignore_diags,))] if ignore_diags is not False else [])
        diag_on = True if ignore_diags is False else self._v.path.implied(ignore_diags != 0)
        if ignore_diags is not False and not diag_on:
            base = (["_zero_trans"] if cis_only else [])

        def shape(p):
            st = p["steps"]
            ok = (len(st) == 3 and st[0] == ("prepare", st[0][1]) and getattr(st[0][1], "qualname", None) == "_init"
                  and st[1][0] == "pipe" and isinstance(st[1][1], list) and st[2][0] == "pipe"
                  and getattr(st[2][1], "qualname", None) == "_marginalize")
            return ok, (self._filters(st[1][1]) if ok else None)
        for p in passes:
            ok, fl = shape(p)
            tag = "binarised" if p in binarised else "count"
            out[f"{tag}-pass:init-filters-marginalize"] = ok
            if ok:
                want = (["_binarize"] if p in binarised else []) + base
                out[f"{tag}-pass:filters-are-exactly-the-requested-ones"] = self._same_filters(fl, want)
            out[f"{tag}-pass:summed-into-zeros-of-n_bins"] = And(p["init"].n == w["nbins"], forall(0, w["nbins"], lambda k: p["init"].at(k) == 0)) \
                and p["binop"] is I.top_env.vars.get("add", p["binop"]) if False else And(p["init"].n == w["nbins"], forall(0, w["nbins"], lambda k: p["init"].at(k) == 0))
        # the balancer and its arguments
        bl = w["balancer"]
        want_b = "cis" if cis_only else ("trans" if trans_only else "genomewide")
        out["exactly-one-balancer-by-mode"] = len(bl) == 1 and bl[0][0] == want_b
        if len(bl) == 1:
            a = bl[0][1]
            ok = len(a) == 10
            out["balancer-gets-ten-arguments"] = ok
            if ok:
                b0 = a[0]
                cnt = passes[-1]["out"]
                nz = binarised[0]["out"] if binarised else None
                def excluded(k):
                    conds = []
                    if nz is not None:
                        conds.append(nz.at(k) < z3.ToReal(min_nnz))
                    conds.append(And(min_count != 0, cnt.at(k) < z3.ToReal(min_count)))
                    return Or(*conds)
                out["initial-bias:0-exactly-for-bins-excluded-by-min_nnz-or-min_count-else-1"] = And(
                    b0.n == w["nbins"], forall(0, w["nbins"], lambda k: b0.at(k) == If(excluded(k), z3.RealVal(0), z3.RealVal(1))))
                eff_cs = chunksize if chunksize is not None else If(w["nnz"] >= 1, w["nnz"], 1)
                out["balancer-arguments-are-the-callers"] = And(
                    a[1] is clr, a[2] is spans, self._same_filters(self._filters(a[3]), base), a[4] == eff_cs, a[5] is map,
                    _real(a[6]) == _real(tol), a[7] == max_iters, Iff(a[8], rescale_marginals), Iff(a[9], use_lock) if is_z3(a[9]) else a[9] is use_lock)
        # result and statistics
        ok = isinstance(result, tuple) and len(result) == 2 and isinstance(result[1], dict)
        out["returns-bias-and-stats"] = ok
        if ok:
            st = result[1]
            out["bias-is-the-balancers"] = result[0] is w["out_bias"]
            keys = {"tol", "min_nnz", "min_count", "mad_max", "cis_only", "ignore_diags", "scale", "converged", "var", "divisive_weights"}
            out["stats:exactly-the-documented-keys"] = set(st) == keys
            if set(st) == keys:
                out["stats:converged-iff-variance-below-tolerance"] = Iff(st["converged"], w["var"] < w["tol"])
                out["stats:parameters-echoed"] = And(_real(st["tol"]) == w["tol"], st["min_nnz"] == min_nnz, st["min_count"] == min_count,
                                                     st["mad_max"] == mad_max, st["cis_only"] is cis_only,
                                                     (st["ignore_diags"] is ignore_diags) or st["ignore_diags"] == ignore_diags,
                                                     st["scale"] is w["scale"], _real(st["var"]) == w["var"], st["divisive_weights"] is False)
        # store
        log = w["log"]
        fileops = [op for op in log if op[0] in ("open", "delete", "create_dataset", "attrs.update")]
        if not store:
            out["nothing-is-written-unless-store"] = not fileops
        else:
            kinds = [op[0] for op in fileops]
            exists = self._v.path.implied(w["weight_exists"])
            out["store:opened-writable-after-balancing"] = kinds[:1] == ["open"] and fileops[0][1] == "r+" and \
                [op[0] for op in log].index("open") > [op[0] for op in log].index("balance")
            out["store:old-column-removed-iff-present-then-written-with-stats"] = kinds == (["open"] + (["delete"] if exists else []) + ["create_dataset", "attrs.update"])
            for op in fileops:
                if op[0] in ("delete", "create_dataset"):
                    out[f"store:{op[0]}-touches-only-bins/<store_name>"] = len(op[1]) == 2 and op[1][0] == "bins" and op[1][1] is store_name
                if op[0] == "create_dataset":
                    out["store:the-returned-weights-are-stored"] = op[2] is w["out_bias"]
                if op[0] == "attrs.update" and ok:
                    out["store:the-returned-stats-are-attached-to-the-column"] = op[2] is result[1] and len(op[1]) == 2 and op[1][1] is store_name
        return out

    def _same_filters(self, got, want):
        if got is None or len(got) != len(want):
            return False
        conds = []
        # the filters zero entries by position or map non-zeros to 1: they commute, so order is not part of the contract
        key = lambda f: repr(f[:2]) if isinstance(f, tuple) else repr(f)
        for g, x in zip(sorted(got, key=key), sorted(want, key=key)):
            if isinstance(x, tuple):
                if not (isinstance(g, tuple) and g[0] == "partial" and g[1] == x[1] and len(g[2]) == len(x[2])):
                    return False
                for ga, xa in zip(g[2], x[2]):
                    conds.append(ga == xa if (is_z3(ga) or is_z3(xa)) else (ga is xa or ga == xa))
            elif g != x:
                return False
        return And(*conds) if conds else True


def _real(x):
    return x.term if isinstance(x, RealV) else x
