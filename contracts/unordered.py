"""Contract for create._create:create_from_unordered (C06, C01): the external sort behind every unordered ingest, for
EVERY number of chunks n, every max_merge and buffer size.

Ghost view: a temporary collection is named by (temporary file, label); `uris` is the list j -> (tf, j).  The body is
executed against recording stubs whose obligations are checked per iteration (the loops are cut by invariants):

  sort pass     the i-th chunk - and nothing else - is written, in append mode, to the temporary collection (tf, i), with the
                caller's bin table copy, columns (ids removed), dtypes and options                          [loop 0]
  merge plan    when a first merge level is built (the code does so iff n > max_merge > 0; WHEN is not part of the property and not
                demanded): its j-th collection is the merge of exactly the temporary
                collections edges[j] .. edges[j+1]-1 of the sort pass, where edges is a non-decreasing sequence from 0 to n
                (consecutive groups tile [0, n): every chunk is in exactly one group)                          [loop 1]
  final merge   one merger over ALL collections of the last level, in order, with the caller's buffer size and columns, is
                streamed into the caller's URI with the caller's mode; nothing else is written there.

ASSUMED (stubs): tempfile.NamedTemporaryFile (a fresh file per call), create() (own contract, contracts/createfn.py),
CoolerMerger (own contracts, contracts/mergeiter.py / mergefn.py) and Cooler(uri) are recorded; numpy.linspace(dtype=int)
(first = lo, last = hi, non-decreasing: pyvc/lib_numpy.py), int(numpy.sqrt(n)) (FSQRT64); str(i) / f-strings give distinct
labels for distinct numbers (labels are kept abstract)."""
from pyvc.api import *  # noqa: F401,F403
from pyvc.values import LibFunc, LibNS
from contracts.common import *  # noqa: F401,F403

CR = "cooler.create._create"


class _Label:
    def __init__(self, term):
        self.term = term


class _Name:
    """tf.name: `name + "::" + label` is the URI of the collection `label` of that temporary file"""

    def __init__(self, tag, sep=False):
        self.tag, self.sep = tag, sep

    def pyvc_binop(self, I, op, a, b):
        if a is self and b == "::" and not self.sep:
            return _Name(self.tag, True)
        if a is self and self.sep:
            if isinstance(b, _Label):
                return _Uri(self.tag, b.term)
            parts = getattr(b, "parts", None)       # f"{lo}-{hi}"
            if parts is not None and len(parts) == 3 and parts[1] == "-":
                return _Uri(self.tag, (parts[0], parts[2]))
            return _Uri(self.tag, None)
        raise Exception("temporary file name used outside the URI pattern")


class _Uri:
    """label: the chunk number (sort pass) or the pair (lo, hi) of a merge group"""

    def __init__(self, tag, label):
        self.tag, self.label = tag, label

    @staticmethod
    def pyvc_ite(cond, a, b):
        if not (isinstance(a, _Uri) and isinstance(b, _Uri) and a.tag == b.tag and type(a.label) is type(b.label) or
                (isinstance(a, _Uri) and isinstance(b, _Uri) and a.tag == b.tag and not isinstance(a.label, tuple) and not isinstance(b.label, tuple))):
            return _Uri("mixed", None)
        if isinstance(a.label, tuple):
            return _Uri(a.tag, tuple(If(cond, x, y) for x, y in zip(a.label, b.label)))
        if a.label is None or b.label is None:
            return _Uri(a.tag, None)
        return _Uri(a.tag, If(cond, a.label, b.label))


class _Tmp:
    def __init__(self, tag):
        self.tag = tag
        self.name = _Name(tag)
        self.closed = False

    def pyvc_getattr(self, I, attr, node):
        if attr == "name":
            return self.name
        if attr == "closed":
            return self.closed
        if attr == "close":
            return LibFunc("tmp.close", lambda I: None)
        raise Exception("NamedTemporaryFile." + attr)


class _Clr:
    def __init__(self, uri):
        self.uri = uri


class _Merger:
    def __init__(self, coolers, mergebuf, columns):
        self.coolers, self.mergebuf, self.columns = coolers, mergebuf, columns


class _Bins:
    """the caller's bin table: copied, chrom column re-typed on the copy"""

    def __init__(self, origin=None):
        self.origin = origin
        self.sets = []

    def pyvc_getattr(self, I, attr, node):
        if attr == "copy":
            return LibFunc("DataFrame.copy", lambda I, **k: _Bins(self))
        raise Exception("DataFrame." + attr)

    def pyvc_getitem(self, I, key, node):
        return _BCol(self, key)

    def pyvc_setitem(self, I, key, val):
        if self.origin is None:
            raise Exception("the caller's bin table is modified in place")
        self.sets.append(key)


class _BCol:
    def __init__(self, fr, key):
        self.fr, self.key = fr, key

    def pyvc_getattr(self, I, attr, node):
        if attr == "astype":
            return LibFunc("Series.astype", lambda I, t: self)
        raise Exception("Series." + attr)


@contract
class CreateFromUnordered(Contract):
    target = f"{CR}:create_from_unordered"
    props = ["C06", "C01"]

    def configs(self, v):
        def mk(columns):
            def f(v):
                n = v.Int("n_chunks")
                w = {"n": n, "tmp": [], "final": [], "lvl1_n": z3.IntVal(0), "sort_creates": z3.IntVal(0), "mergers": []}
                bins = _Bins()
                chunk_of = lambda j: ("chunk", j)     # noqa: E731
                chunks = SymList(n, chunk_of, "chunks")
                cool_uri, mode = v.Str("cool_uri"), Opaque("mode")
                mergebuf, max_merge = v.Int("mergebuf"), v.Int("max_merge")
                dtypes = Opaque("dtypes")
                w.update(bins=bins, cool_uri=cool_uri, mode=mode, mergebuf=mergebuf, max_merge=max_merge, dtypes=dtypes,
                         columns=columns, r_n=n, r_max_merge=max_merge)

                def tmpfile(I, **k):
                    t = _Tmp("tf%d" % len(w["tmp"]))
                    w["tmp"].append((t, k))
                    return t

                def create(I, uri, bins_, pixels, columns=None, dtypes=None, mode=None, **kw):
                    p = I.path
                    common = bins_.origin is bins and bins_.sets == ["chrom"] and dtypes is w["dtypes_seen"] and \
                        columns == ([c for c in w["columns"] if c not in ("bin1_id", "bin2_id")] if w["columns"] is not None else None) \
                        and kw.get("ensure_sorted") is w["opt"]
                    if isinstance(uri, _Uri) and uri.tag == "tf0":
                        # sort pass: called inside loop 0 with the loop's own i and chunk
                        i = I.top_env.lookup("i")
                        ch = I.top_env.lookup("chunk")
                        p.oblige("post", "sort-pass:chunk-i-goes-to-its-own-temporary-collection-in-append-mode",
                                 And(uri.label == i, ch[1] == i) if (pixels is ch and mode == "a" and common) else False)
                        w["sort_creates"] = w["sort_creates"] + 1
                        I.top_env.set("__g_nsorted", I.top_env.lookup("__g_nsorted") + 1)
                    elif isinstance(uri, _Uri) and uri.tag == "tf1":
                        lo, hi = I.top_env.lookup("lo"), I.top_env.lookup("hi")
                        ok = isinstance(pixels, _Merger) and mode == "a" and common and pixels.mergebuf is w["mergebuf"] \
                            and pixels.columns == columns
                        cl = pixels.coolers if ok else None
                        jj = z3.Int(p.fresh_name("jj"))
                        member = cl.at(jj) if ok else None
                        ok = ok and isinstance(member, _Clr) and isinstance(member.uri, _Uri) and member.uri.tag == "tf0"
                        p.oblige("post", "merge-plan:group-merges-exactly-the-sort-pass-collections-lo..hi-1-in-order",
                                 And(cl.n == hi - lo, lo <= hi, forall(0, hi - lo, lambda j: cl.at(j).uri.label == lo + j))
                                 if ok and member.uri.label is not None and not isinstance(member.uri.label, tuple) else False)
                        I.top_env.set("__g_ngroups", I.top_env.lookup("__g_ngroups") + 1)
                    else:
                        w["final"].append((uri, bins_, pixels, columns, dtypes, mode, kw, common))
                    return None
                w["opt"] = Opaque("ensure_sorted option")
                w["dtypes_seen"] = Opaque("dtypes after _get_dtypes_arg")
                free = {
                    "tempfile": LibNS("tempfile", {"NamedTemporaryFile": LibFunc("NamedTemporaryFile", tmpfile)}),
                    "create": LibFunc("create", create),
                    "CoolerMerger": LibFunc("CoolerMerger", lambda I, coolers, mergebuf, columns=None, **k: _Merger(coolers, mergebuf, columns)),
                    "Cooler": LibFunc("Cooler", lambda I, uri, **k: _Clr(uri)),
                    "str": LibFunc("str", lambda I, x: _Label(x)),
                    "_get_dtypes_arg": LibFunc("_get_dtypes_arg", lambda I, d, kw: w["dtypes_seen"]),
                    "parse_cooler_uri": LibFunc("parse_cooler_uri", lambda I, u: (v.Str("filepath"), "/")),
                    "op": LibNS("os.path", {"dirname": LibFunc("dirname", lambda I, p: Opaque("dirname"))}),
                    "os": LibNS("os", {"name": "posix", "remove": LibFunc("os.remove", lambda I, p: None)}),
                }
                return dict(cool_uri=cool_uri, bins=bins, chunks=chunks, columns=columns, dtypes=dtypes, mode=mode, mergebuf=mergebuf,
                            delete_temp=True, temp_dir=None, max_merge=max_merge, kwargs={"ensure_sorted": w["opt"]},
                            __free__=free, __ghost__=w)
            return f
        yield "columns=None", mk(None)
        yield "columns=given", mk(["bin1_id", "count", "extra"])

    def _w(self):
        return self._v.path.ghost

    def requires(self, **a):
        w = self._w()
        return [w["n"] >= 0, w["n"] < 2 ** 40]

    # ---------------------------------------------------------------- loops
    def _uri_list(self, count, tag):
        return SymList(count, lambda j, tag=tag: _Uri(tag, j))

    def _inv0(self, S):
        w = self._w()
        t = S.it
        u = S.uris
        if isinstance(u, list) and not u:
            u = SymList(z3.IntVal(0), lambda j: _Uri("tf0", j))
        probe = u.at(z3.Int("probe")) if isinstance(u, SymList) else None
        ok = isinstance(probe, _Uri) and probe.tag == "tf0" and probe.label is not None and not isinstance(probe.label, tuple)
        return {"iteration-in-range": And(0 <= t, t <= w["n"]),
                "one-temporary-collection-per-chunk-so-far": (And(u.n == t, forall(0, t, lambda j: u.at(j).label == j)) if ok else False),
                "one-create-per-chunk-so-far": S.nsorted == t}

    def _inv1(self, S):
        w = self._w()
        t = S.it
        u = S.uris2
        edges = S.edges
        if isinstance(u, list) and not u:
            u = SymList(z3.IntVal(0), lambda j: _Uri("tf1", (z3.IntVal(0), z3.IntVal(0))))
        probe = u.at(z3.Int("probe")) if isinstance(u, SymList) else None
        ok = isinstance(probe, _Uri) and probe.tag == "tf1" and isinstance(probe.label, tuple)
        return {"iteration-in-range": And(0 <= t, t <= edges.n - 1),
                "one-group-collection-per-interval-so-far": (And(u.n == t, S.ngroups == t, forall(
                    0, t, lambda j: And(u.at(j).label[0] == edges[j], u.at(j).label[1] == edges[j + 1]))) if ok else False)}

    @property
    def loops(self):
        mk0 = lambda v: SymList(v.Int("uris.n"), lambda j: _Uri("tf0", j))     # noqa: E731
        def mk1(v):
            LO, HI = v.Fn("uris2.lo", "int", "int"), v.Fn("uris2.hi", "int", "int")
            return SymList(v.Int("uris2.n"), lambda j: _Uri("tf1", (LO(j), HI(j))))
        return {0: LoopSpec(self._inv0, havoc={"uris": mk0}, ghost_init=lambda S, I: {"nsorted": z3.IntVal(0)}),
                1: LoopSpec(self._inv1, havoc={"uris2": mk1}, ghost_init=lambda S, I: {"ngroups": z3.IntVal(0)})}

    # ---------------------------------------------------------------- postcondition
    def ensures(self, result, ghost, cool_uri, bins, chunks, columns, dtypes, mode, mergebuf, delete_temp, temp_dir, max_merge, kwargs):
        w = self._w()
        n = w["n"]
        I = self._I
        out = {"one-final-create": len(w["final"]) == 1}
        if len(w["final"]) != 1:
            return out
        uri, bins_, pixels, cols_, dt_, mode_, kw, common = w["final"][0]
        out["final:into-the-callers-uri-with-the-callers-mode-bins-columns-dtypes-options"] = uri is cool_uri and mode_ is mode and common
        ok = isinstance(pixels, _Merger)
        out["final:streams-one-merger-with-the-callers-buffer-and-columns"] = ok and pixels.mergebuf is mergebuf and pixels.columns == cols_
        if not ok:
            return out
        cl = pixels.coolers
        jj = self._v.Int("jf")
        member = cl.at(jj) if isinstance(cl, SymList) else None
        if isinstance(member, _Clr) and isinstance(member.uri, _Uri) and member.uri.tag == "tf0":
            out["single-pass:final-merger-reads-every-sort-pass-collection-once-in-order"] = And(
                cl.n == n, forall(0, n, lambda j: cl.at(j).uri.label == j))
            out["temporary-files:one"] = len(w["tmp"]) == 1
        elif isinstance(member, _Clr) and isinstance(member.uri, _Uri) and member.uri.tag == "tf1":
            edges = I.top_env.lookup("edges")
            m = edges.n
            out["two-pass:groups-tile-the-chunks:edges-run-from-0-to-n-without-going-back"] = And(
                m >= 2, edges[0] == 0, edges[m - 1] == n, forall(0, m - 1, lambda k: edges[k] <= edges[k + 1]))
            out["two-pass:final-merger-reads-every-group-once-in-order"] = And(
                cl.n == m - 1, ghost["ngroups"] == m - 1,
                forall(0, m - 1, lambda j: And(cl.at(j).uri.label[0] == edges[j], cl.at(j).uri.label[1] == edges[j + 1]))
                if isinstance(member.uri.label, tuple) else False)
            out["temporary-files:two-distinct"] = len(w["tmp"]) == 2
        else:
            out["final-merger-reads-temporary-collections"] = False
        out["every-chunk-was-written-to-the-sort-pass"] = ghost["nsorted"] == n
        for t, k in w["tmp"]:
            out.setdefault("temporary-files:deleted-on-close-beside-the-output", True)
            out["temporary-files:deleted-on-close-beside-the-output"] = out["temporary-files:deleted-on-close-beside-the-output"] and \
                k.get("delete") is True and k.get("suffix") == ".multi.cool"
        return out
