"""Coordinator contract for _reduce:CoolerCoarsener.__iter__ (C08): how the aggregated chunks reach the writer.

For 0..5 pixel spans (edge VALUES symbolic) and batch sizes 1, 2, 3: the spans are the consecutive pairs of the
partition's edges; they are handed to the worker map in batches of at most `batchsize`, each span exactly
once; the stream yields exactly one chunk per span IN SPAN ORDER - the columns of that span's aggregate - so no group of
pixels is duplicated, dropped or emitted out of order; the global lock is held around a batch iff workers run in
parallel (batchsize > 1) and is always released.
ASSUMED (stubs): the map returns its results in the order of its inputs (builtin map, Pool.map); `aggregate` is the
method under its own contract (CoolerCoarsener._aggregate, contracts/coarsenagg.py) and is recorded here."""
from pyvc.api import *  # noqa: F401,F403
from pyvc.values import LibFunc
from contracts.common import *  # noqa: F401,F403

RED = "cooler._reduce"


class _Col:
    def __init__(self, span, name):
        self.span, self.name = span, name

    def pyvc_getattr(self, I, attr, node):
        if attr == "values":
            return ("values", self.span, self.name)
        raise Exception("Series." + attr)


class _AggFrame:
    """the aggregate of one span: a frame with the output columns"""
    COLS = ["bin1_id", "bin2_id", "count"]

    def __init__(self, span):
        self.span = span

    def pyvc_getattr(self, I, attr, node):
        if attr == "items":
            return LibFunc("DataFrame.items", lambda I: [(c, _Col(self.span, c)) for c in self.COLS])
        raise Exception("DataFrame." + attr)


@contract
class CoarsenerIter(Contract):
    target = f"{RED}:CoolerCoarsener.__iter__"
    props = ["C08"]

    def configs(self, v):
        def mk(nspans, batchsize):
            def f(v):
                log = []
                edges = [v.Int(f"edge{j}") for j in range(nspans + 1)]

                def agg(I, span):
                    log.append(("aggregate", span))
                    return _AggFrame(span)

                def map_(I, fn, items):
                    items = list(items)
                    log.append(("map", items))
                    return [I.call(fn, [it], {}) for it in items]

                class _Lock:
                    def pyvc_getattr(self, I, attr, node):
                        return LibFunc("lock." + attr, lambda I: log.append((attr,)))
                slf = v.Obj("CoolerCoarsener", RED, batchsize=batchsize, edges=edges, _map=LibFunc("map (order-preserving)", map_),
                            aggregate=LibFunc("aggregate", agg))
                return dict(self=slf, __free__={"lock": _Lock()}, __ghost__={"log": log, "edges": edges, "nspans": nspans, "bs": batchsize})
            return f
        for nspans in range(0, 6):
            for bs in (1, 2, 3):
                yield f"spans={nspans},batchsize={bs}", mk(nspans, bs)

    def ensures(self, result, self_):
        g = self._v.path.ghost
        log, edges, n, bs = g["log"], g["edges"], g["nspans"], g["bs"]
        spans = [(edges[j], edges[j + 1]) for j in range(n)]
        items = list(result.items) if hasattr(result, "items") and not isinstance(result, dict) else list(result)
        out = {"one-chunk-per-span": len(items) == n}

        def same(sp, j):
            return isinstance(sp, tuple) and len(sp) == 2 and sp[0] is spans[j][0] and sp[1] is spans[j][1]
        aggs = [e[1] for e in log if e[0] == "aggregate"]
        def once_each(sps):      # every span exactly once, in any order (the order of the work does not matter, that of the output does)
            return len(sps) == n and all(sum(1 for sp in sps if same(sp, j)) == 1 for j in range(n))
        out["every-span-aggregated-exactly-once"] = once_each(aggs)
        if len(items) == n:
            ok = True
            for j, ch in enumerate(items):
                ok = ok and isinstance(ch, dict) and list(ch.keys()) == _AggFrame.COLS and all(
                    isinstance(val, tuple) and val[0] == "values" and same(val[1], j) and val[2] == c for c, val in ch.items())
            out["chunks-are-the-span-aggregates-in-span-order"] = ok
        maps = [e[1] for e in log if e[0] == "map"]
        flat = [sp for m in maps for sp in m]
        out["batches-of-at-most-batchsize-spans-cover-every-span-once"] = once_each(flat) and all(len(m) <= bs for m in maps)
        # lock discipline around every batch
        held, ok = False, True
        for e in log:
            if e[0] == "acquire":
                ok, held = ok and not held, True
            elif e[0] == "release":
                ok, held = ok and held, False
            elif e[0] == "map":
                ok = ok and (held == (bs > 1))
        out["lock-held-around-a-batch-iff-parallel-and-released"] = ok and not held
        return out
