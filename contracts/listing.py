"""Coordinator contracts for the tree-walking functions of cooler.fileops (C15, C17, C09):
list_coolers, list_scool_cells, is_scool_file, is_multires_file - and, executed inline as their callees, visititems,
TreeNode.get_children and _is_cooler (own contract).

The HDF5 file is a ghost TREE of concrete shape (four shapes: collections side by side and NESTED BELOW ONE ANOTHER with
datasets in between, an empty file, a multi-resolution layout, a single-cell layout whose cell names mix digit-initial and
letter-initial names); what is symbolic is the `format` attribute of EVERY group (a z3 string each), so one run covers every
assignment of "is a collection" to the groups of the shape.

ASSUMED (stubs): h5py.is_hdf5, h5py.File as a context manager yielding the root group, Group.values()/keys()/[name]/.name/
.attrs.get; natsorted = sorted with the key "digit runs compare as numbers" (cooler.util.natsort_key re-stated; Python's
comparison of an int with a str raises TypeError, as in CPython)."""
import re as _re

from pyvc.api import *  # noqa: F401,F403
from pyvc.values import ExcVal, LibFunc, LibNS, PyRaise
from contracts.common import *  # noqa: F401,F403

FOP = "cooler.fileops"
MAGIC, MAGIC_SCOOL, MAGIC_MCOOL = "HDF5::Cooler", "HDF5::SCOOL", "HDF5::MCOOL"


class _Attrs:
    def __init__(self, fmt):
        self.fmt = fmt

    def pyvc_getattr(self, I, attr, node):
        if attr == "get":
            return LibFunc("attrs.get", lambda I, key, default=None: self.fmt if (key == "format" and self.fmt is not None) else default)
        raise Exception("attrs." + attr)


class _Node:
    """group (children: dict name -> node) or dataset (children None)"""

    def __init__(self, name, children=None, fmt=None):
        self.name, self.children, self.fmt = name, children, fmt
        self.attrs = _Attrs(fmt)

    def pyvc_hasattr(self, I, attr):
        if attr in ("values", "keys"):
            return self.children is not None
        if attr in ("shape", "dtype"):
            return self.children is None
        return attr in ("name", "attrs")

    def pyvc_getattr(self, I, attr, node):
        if attr == "attrs":
            return self.attrs
        if attr == "name":
            return self.name
        if self.children is not None and attr == "values":
            return LibFunc("Group.values", lambda I: list(self.children.values()))
        if self.children is not None and attr == "keys":
            return LibFunc("Group.keys", lambda I: list(self.children.keys()))
        if self.children is not None and attr == "items":
            return LibFunc("Group.items", lambda I: list(self.children.items()))
        if self.children is None and attr in ("shape", "dtype"):
            return Opaque(attr)
        if attr in ("values", "keys", "items", "shape", "dtype"):
            raise PyRaise(ExcVal("AttributeError", (attr,)))     # a dataset has no members, a group no shape: as in h5py
        from pyvc.values import Unsupported
        raise Unsupported(f"h5py object attribute .{attr} is outside the ghost-tree model")

    def pyvc_getitem(self, I, key, node):
        if self.children is None or key not in self.children:
            raise PyRaise(ExcVal("KeyError", (key,)))
        return self.children[key]

    def pyvc_contains(self, I, item):
        return self.children is not None and item in self.children

    def pyvc_enter(self, I):
        return self

    def pyvc_exit(self, I, exc):
        return None

    def groups(self):
        out = [self] if self.children is not None else []
        for c in (self.children or {}).values():
            out += c.groups()
        return out


def natsort_key(s):
    return tuple(int(x) if x.isdigit() else x for x in _re.split(r"(\d+)", s) if x)


def _natsorted(I, items):
    items = list(items)
    try:
        return sorted(items, key=natsort_key)
    except TypeError:
        raise PyRaise(ExcVal("TypeError", ("'<' not supported between instances of 'int' and 'str'",)))


def _tree(v, shape):
    """-> root node; every group gets a symbolic format string"""
    def G(path_, **ch):
        return _Node(path_, dict(ch), v.Str("format@" + path_))

    def D(path_):
        return _Node(path_, None, None)
    if shape == "nested":
        return G("/", a=G("/a", chroms=G("/a/chroms", **{"name": D("/a/chroms/name")}), inner=G("/a/inner", deep=G("/a/inner/deep"))),
                 b=G("/b"), data=D("/data"))
    if shape == "empty":
        return G("/")
    if shape == "mcool":
        return _Node("/", {"resolutions": G("/resolutions", **{"1000": G("/resolutions/1000"), "5000": G("/resolutions/5000")})}, v.Str("format@/"))
    if shape == "scool":
        return _Node("/", {"chroms": G("/chroms"), "bins": G("/bins"),
                           "cells": _Node("/cells", {"7": G("/cells/7"), "control": G("/cells/control"), "10b": G("/cells/10b")},
                                          v.Str("format@/cells"))}, v.Str("format@/"))
    raise ValueError(shape)


class _ListingBase(Contract):
    shapes = ("nested", "empty", "mcool", "scool")

    def configs(self, v):
        def mk(shape, is_h5=True):
            def f(v):
                root = _tree(v, shape)
                opens = []
                fp = v.Str("filepath")

                def File(I, path, mode="r", **k):
                    opens.append((path, mode))
                    return root
                h5 = LibNS("h5py", {"is_hdf5": LibFunc("h5py.is_hdf5", lambda I, p: is_h5), "File": LibFunc("h5py.File", File)})
                return dict(filepath=fp, __free__={"h5py": h5, "natsorted": LibFunc("natsorted", _natsorted)},
                            __ghost__=dict({"root": root, "opens": opens, "fp": fp, "is_h5": is_h5, "shape": shape, "__free_deep__": True},
                                           # flat copies for concretisation at replay
                                           **{"fmt:" + nd.name: nd.fmt for nd in root.groups()}))
            return f
        for shape in self.shapes:
            yield f"tree={shape}", mk(shape)
        yield "not-an-hdf5-file", mk("empty", False)

    def _is(self, node, magic=MAGIC):
        return node.fmt == z3.StringVal(magic)

    def _readonly(self, out):
        g = self._v.path.ghost
        out["file-opened-read-only"] = all(m == "r" and p is g["fp"] for p, m in g["opens"])


@contract
class ListCoolers(_ListingBase):
    """C15: list_coolers(file) reports exactly the groups that are collections - the root and groups at any depth, including
    collections stored below another collection - each once, in natural order; a non-HDF5 file is an OSError; read-only."""
    target = f"{FOP}:list_coolers"
    props = ["C15", "C09"]

    @property
    def raises(self):
        return {"OSError": lambda **a: not self._v.path.ghost["is_h5"]}

    def ensures(self, result, filepath):
        g = self._v.path.ghost
        out = {"a-list-of-paths": isinstance(result, list) and all(isinstance(x, str) for x in result)}
        if not out["a-list-of-paths"]:
            return out
        for nd in g["root"].groups():
            # listed iff it is a collection (decided on this path by the comparisons the code made)
            out[f"{nd.name}:listed-iff-collection"] = self._is(nd) if nd.name in result else Not(self._is(nd))
        out["nothing-else-listed-and-nothing-twice"] = len(set(result)) == len(result) and \
            set(result) <= {nd.name for nd in g["root"].groups()}
        out["natural-order"] = result == sorted(result, key=natsort_key)
        self._readonly(out)
        return out


@contract
class IsScoolFile(_ListingBase):
    """C17: a file is recognised as a single-cell file iff its root carries the scool format, it has the chroms, bins and cells
    groups, at least one cell, and every cell is a collection; a non-HDF5 file is an OSError."""
    target = f"{FOP}:is_scool_file"
    props = ["C17"]
    inline = True      # coordinator contract over its own ghost tree: callers (list_scool_cells) execute the real body
    shapes = ("scool", "empty", "nested")

    @property
    def raises(self):
        return {"OSError": lambda **a: not self._v.path.ghost["is_h5"]}

    def _want(self):
        root = self._v.path.ghost["root"]
        ch = root.children
        if not all(k in ch for k in ("chroms", "bins", "cells")) or not ch["cells"].children:
            return False
        return And(self._is(root, MAGIC_SCOOL), *[self._is(c) for c in ch["cells"].children.values()])

    def ensures(self, result, filepath):
        want = self._want()
        out = {"true-exactly-for-single-cell-files": (Iff(result, want) if not isinstance(result, bool) else
                                                      (want if result else (Not(want) if want is not False else True)))}
        self._readonly(out)
        return out


@contract
class ListScoolCells(IsScoolFile):
    """C17: the cell listing of a single-cell file names exactly the cells - every collection below the root, the root itself
    excluded - each once, in natural order, whatever the cell names look like (digit-initial and letter-initial names mixed);
    a file that is not a single-cell file is an OSError."""
    target = f"{FOP}:list_scool_cells"
    props = ["C17"]
    shapes = ("scool", "empty")

    @property
    def raises(self):
        def not_scool(**a):
            if not self._v.path.ghost["is_h5"]:
                return True
            w = self._want()
            return True if w is False else Not(w)
        return {"OSError": not_scool}

    def ensures(self, result, filepath):
        g = self._v.path.ghost
        out = {"a-list-of-paths": isinstance(result, list) and all(isinstance(x, str) for x in result)}
        if not out["a-list-of-paths"]:
            return out
        cells = g["root"].children["cells"].children
        for nd in cells.values():
            out[f"{nd.name}:listed"] = nd.name in result
        others = [nd for nd in g["root"].groups() if nd.name not in {c.name for c in cells.values()} and nd.name != "/"]
        for nd in others:
            out[f"{nd.name}:listed-iff-collection"] = self._is(nd) if nd.name in result else Not(self._is(nd))
        out["root-not-listed-nothing-twice"] = "/" not in result and len(set(result)) == len(result)
        out["natural-order"] = result == sorted(result, key=natsort_key)
        self._readonly(out)
        return out


@contract
class IsMultiresFile(_ListingBase):
    """C09: a file is recognised as multi-resolution iff it is HDF5, has a non-empty /resolutions group, carries the mcool
    format and its first resolution is a collection (legacy layout: a collection at /0, for min_version < 2); False - not an
    error - otherwise."""
    target = f"{FOP}:is_multires_file"
    props = ["C09"]
    shapes = ("mcool", "empty", "nested")

    def ensures(self, result, filepath, min_version=1):
        g = self._v.path.ghost
        root = g["root"]
        if not g["is_h5"]:
            return {"false-for-a-non-hdf5-file": result is False}
        res = root.children.get("resolutions")
        if res is not None and res.children:
            first = next(iter(res.children.values()))
            want = And(self._is(root, MAGIC_MCOOL), self._is(first))
        else:
            want = False
        out = {"true-exactly-for-multires-files": (Iff(result, want) if not isinstance(result, bool) else
                                                  (want if result else (Not(want) if want is not False else True)))}
        self._readonly(out)
        return out
