"""Contracts for the string parsers of cooler.util (C19, C15)."""
from pyvc.api import *  # noqa: F401,F403

UT = "cooler.util"

UNITS = {"": 1, "k": 1000, "K": 1000, "kb": 1000, "Kb": 1000, "kB": 1000, "KB": 1000,
         "m": 10 ** 6, "M": 10 ** 6, "mb": 10 ** 6, "Mb": 10 ** 6, "MB": 10 ** 6,
         "g": 10 ** 9, "G": 10 ** 9, "gb": 10 ** 9, "Gb": 10 ** 9, "GB": 10 ** 9,
         " kb": 1000, "Mb ": 10 ** 6}
BAD_UNITS = ["x", "bp", "kbp", "T", "kk", "Mbp"]


@contract
class ParseHumanized(Contract):
    """C19: numeral x unit parses to exactly the integer it denotes.  The numeral is abstracted
    to the value D/p it denotes (p = 10^k); the unit ranges over a finite list of spellings
    (case variants, surrounding blanks, unknown units)."""
    target = f"{UT}:parse_humanized"
    props = ["C19"]

    def configs(self, v):
        from pyvc.strings import HumanStr, NumeralStr

        def mk(unit):
            def f(v):
                D, p = v.Int("D"), v.Int("p")
                return dict(s=HumanStr(NumeralStr(D, p, v.Bool("has_point")), unit),
                            __ghost__={"D": D, "p": p, "unit": unit})
            return f
        for u in list(UNITS) + BAD_UNITS:
            yield f"unit={u!r}", mk(u)

    def _g(self):
        return self._v.path.ghost

    def requires(self, s):
        g = self._g()
        D, p = g["D"], g["p"]
        # <= 15 significant digits; p a power of ten up to 10^15; no point => p == 1
        return [D >= 0, D < 10 ** 15, Or(*[p == 10 ** k for k in range(0, 16)]),
                Implies(Not(s.num.has_point), p == 1)]

    @property
    def raises(self):
        def cond(s=None):
            g = self._g()
            if g["unit"] in BAD_UNITS:
                return True
            if g["unit"] == "":
                return s.num.has_point      # int("1.5") refuses
            return False
        return {"ValueError": cond}

    def ensures(self, result, s):
        g = self._g()
        D, p, unit = g["D"], g["p"], g["unit"]
        mult = UNITS[unit]
        exact = mod(D * mult, p) == 0
        return {"exact-integer": Implies(exact, result * p == D * mult)}


@contract
class ParseCoolerUri(Contract):
    """C19/C15: no '::' -> (s, '/'); one -> (file, group with a leading slash added if missing);
    more -> ValueError"""
    target = f"{UT}:parse_cooler_uri"
    props = ["C19", "C15"]

    def configs(self, v):
        yield "", lambda v: dict(s=v.Str("uri"))

    def _split(self, s):
        sep = z3.StringVal("::")
        i1 = z3.IndexOf(s, sep, 0)
        a = z3.SubString(s, 0, i1)
        rest = z3.SubString(s, i1 + 2, z3.Length(s) - i1 - 2)
        i2 = z3.IndexOf(rest, sep, 0)
        return i1, a, rest, i2

    @property
    def raises(self):
        def cond(s=None):
            i1, a, rest, i2 = self._split(s)
            return And(i1 >= 0, i2 >= 0)
        return {"ValueError": cond}

    def result(self, v, s):
        return (v.Str("uri.file"), v.Str("uri.group"))

    def ensures(self, result, s):
        f, g = result
        i1, a, rest, i2 = self._split(s)
        slash = z3.StringVal("/")
        return {
            "no-separator": Implies(i1 < 0, And(f == s, g == slash)),
            "one-separator-file": Implies(And(i1 >= 0, i2 < 0), f == a),
            "one-separator-group": Implies(And(i1 >= 0, i2 < 0),
                                           g == If(z3.PrefixOf(slash, rest), rest, z3.Concat(slash, rest))),
            "group-has-leading-slash": z3.PrefixOf(slash, g),
        }
