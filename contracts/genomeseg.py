"""Contract for util:GenomeSegmentation.__init__ (C05, C08): the lookup tables the record sanitizer and the coarsener bin with.
For every chromosome table and every bin table grouped by chromosome: chrom_binoffset[c] is the row of the first bin of
chromosome c (0 for the first, previous + number of bins of the previous chromosome), chrom_abspos[c] the sum of the lengths of
the chromosomes before c, start_abspos[k] = chrom_abspos[chromosome of bin k] + start of bin k; the bin size is the one
get_binsize infers for the same table; contigs are the chromosome names in the given order.
ASSUMED: check_bins (makes the chromosome column a categorical with the chromosome table's order, so its codes are chromosome
ids), pandas groupby(...).size() on the run-sorted key, numpy.cumsum / r_ (pyvc models), get_binsize (own contract, C20)."""
from pyvc.api import *  # noqa: F401,F403
from pyvc.values import LibFunc, LibNS
from pyvc.lib_pandas import DataFrameV, SeriesV
from contracts.common import *  # noqa: F401,F403

UT = "cooler.util"


@contract
class GenomeSegmentationInit(Contract):
    target = f"{UT}:GenomeSegmentation.__init__"
    props = ["C05", "C08"]

    def configs(self, v):
        def f(v):
            nch = v.Int("nchrom")
            off = v.Arr("chrom_offset", n=nch + 1)
            nb = v.Int("nbins")
            code, start, end = v.Arr("bins.chrom.code", n=nb), v.Arr("bins.start", n=nb), v.Arr("bins.end", n=nb)
            clen = v.Arr("chromsizes.values", n=nch)
            bins = DataFrameV({"chrom": code, "start": start, "end": end}, None, runs=(nch, off))
            names = Opaque("chromosome names in order")

            class _Sizes:
                pyvc_symbolic = True

                def pyvc_len(self, I):
                    return nch

                def pyvc_getattr(self, I, attr, node):
                    if attr == "keys":
                        return LibFunc("Series.keys", lambda I: names)
                    if attr == "values":
                        return clen
                    if attr == "index":
                        return names
                    raise Exception("Series." + attr)
            sizes = _Sizes()
            log = []
            pd_real = v.path.engine.lib["pandas"]
            pd2 = LibNS("pandas", dict(pd_real._members, Series=LibFunc("pd.Series", lambda I, **k: ("idmap", k.get("index"), k.get("data")))))
            free = {"check_bins": LibFunc("check_bins", lambda I, b, cs: (log.append(("check_bins", b, cs)), b)[1]),
                    "get_binsize": LibFunc("get_binsize", lambda I, b: (log.append(("get_binsize", b)), ("binsize-of", b))[1]),
                    "list": LibFunc("list", lambda I, x: ("list", x)), "pd": pd2}
            slf = v.Obj("GenomeSegmentation", UT)
            return dict(self=slf, chromsizes=sizes, bins=bins, __free__=free,
                        __ghost__={"nch": nch, "off": off, "nb": nb, "code": code, "start": start, "clen": clen, "bins": bins, "sizes": sizes,
                                   "names": names, "log": log})
        yield "", f

    def requires(self, self_, chromsizes, bins):
        g = self._v.path.ghost
        nch, off, nb, code = g["nch"], g["off"], g["nb"], g["code"]
        return [nch >= 1, nb >= 0, off[0] == 0, off[nch] == nb, nondecreasing(off),
                forall(0, nb, lambda k: And(0 <= code[k], code[k] < nch))]

    def ensures(self, result, self_, chromsizes, bins):
        g = self._v.path.ghost
        nch, off, nb, code, start, clen = g["nch"], g["off"], g["nb"], g["code"], g["start"], g["clen"]
        at = self_.attrs
        o = {}
        bo, ap, sa = at.get("chrom_binoffset"), at.get("chrom_abspos"), at.get("start_abspos")
        ok = all(isinstance(x, Arr) for x in (bo, ap, sa))
        o["three-lookup-arrays"] = ok
        if ok:
            o["chrom_binoffset:first-bin-row-of-every-chromosome"] = And(L(bo) == nch + 1, bo[0] == 0, forall(
                0, nch, lambda c: bo[c + 1] == bo[c] + (off[c + 1] - off[c])))
            o["chrom_abspos:sum-of-the-lengths-before"] = And(L(ap) == nch + 1, ap[0] == 0, forall(0, nch, lambda c: ap[c + 1] == ap[c] + clen[c]))
            o["start_abspos:chromosome-origin-plus-bin-start"] = And(L(sa) == nb, forall(0, nb, lambda k: sa[k] == ap[code[k]] + start[k]))
        o["bin-size-inferred-from-the-same-table"] = at.get("binsize") == ("binsize-of", g["bins"]) and at.get("binsize")[1] is g["bins"]
        o["contigs-are-the-names-in-order"] = at.get("contigs") == ("list", g["names"]) and at.get("chromsizes") is g["sizes"]
        o["bins-checked-against-the-chromosome-table"] = [e[0] for e in g["log"]][:1] == ["check_bins"] and g["log"][0][2] is g["sizes"]
        return o
