"""Contract for _reduce:CoolerCoarsener._aggregate (C08): where each fine pixel goes.

For every chunk [lo, hi) of the joined pixel table, every chromosome layout, bin size and factor k >= 2: the new
bin ids written into the chunk are, for BOTH ends of every pixel, the coarse bin that contains the pixel's fine
bin:      new_id = new_chrom_offset[c] + (fine_id - old_chrom_offset[c]) div k
(fixed-width path: floor(start / (k*binsize)); variable-width path: searchsorted over the absolute starts of the
coarse bins), and the chunk is then grouped by (bin1_id, bin2_id), sorted, and aggregated with the coarsener's
functions - i.e. each coarse pixel is the aggregate of exactly the fine pixels of its k x k block in this chunk.
Preconditions tie the joined columns to the fine bins (start1[p] is the start of fine bin b1[p] ...) and the new
segmentation to the old one (what coarsen_bins / GenomeSegmentation build; bounded tier).
ASSUMED: pixels(join=True, convert_enum=False) selector (C14), pandas groupby/aggregate/reset_index (stubs),
FDIV64 for floor(start / binsize)."""
from pyvc.api import *  # noqa: F401,F403
from pyvc.values import LibFunc
from contracts.common import *  # noqa: F401,F403

RED = "cooler._reduce"
MAXC = 2 ** 40


class _Col:
    def __init__(self, arr):
        self.values = arr

    def pyvc_getattr(self, I, attr, node):
        if attr == "values":
            return self.values
        raise Exception("Series." + attr)


class _Chunk:
    def __init__(self, w, cols):
        self.w, self.cols, self.stage = w, dict(cols), "chunk"

    def pyvc_getitem(self, I, key, node):
        return _Col(self.cols[key])

    def pyvc_setitem(self, I, key, val):
        self.cols[key] = val

    def pyvc_getattr(self, I, attr, node):
        w = self.w
        if attr == "groupby":
            def gb(I, keys, sort=True, **k):
                w["log"].append(("groupby", keys, sort, k))
                return self
            return LibFunc("DataFrame.groupby", gb)
        if attr == "aggregate":
            def ag(I, agg):
                w["log"].append(("aggregate", agg))
                return self
            return LibFunc("GroupBy.aggregate", ag)
        if attr == "reset_index":
            def ri(I):
                w["log"].append(("reset_index",))
                return ("aggregated", self)
            return LibFunc("DataFrame.reset_index", ri)
        raise Exception("DataFrame." + attr)


class _Table:
    def __init__(self, w):
        self.w = w

    def pyvc_getitem(self, I, key, node):
        w = self.w
        if isinstance(key, list):
            w["log"].append(("columns", key))
            return self
        assert isinstance(key, SliceV)
        w["log"].append(("rows", key.start, key.stop))
        return w["chunk"]


class _GS:
    def __init__(self, w):
        self.w = w

    def pyvc_getattr(self, I, attr, node):
        return {"binsize": self.w["B"], "chrom_binoffset": self.w["NO"], "chrom_abspos": self.w["CA"],
                "start_abspos": self.w["SA"]}[attr]


@contract
class CoarsenAggregate(Contract):
    target = f"{RED}:CoolerCoarsener._aggregate"
    props = ["C08"]

    def configs(self, v):
        def mk(fixed, end):
            def f(v):
                log = []
                m = v.Int("m")
                nchrom = v.Int("nchrom")
                cols = {nm: v.Arr(nm, n=m) for nm in ("chrom1", "start1", "chrom2", "start2", "count")}
                b1, b2 = v.Arr("fine_bin1", n=m), v.Arr("fine_bin2", n=m)
                OO, NO = v.Arr("old_chrom_offset", n=nchrom + 1), v.Arr("new_chrom_offset", n=nchrom + 1)
                CA = v.Arr("chrom_abspos", n=nchrom + 1)
                SA = v.Arr("start_abspos")
                OS = v.Arr("old_bin_start")
                k, bs = v.Int("factor"), v.Int("old_binsize")
                w = {"log": log, "m": m, "nchrom": nchrom, "cols": cols, "b1": b1, "b2": b2, "OO": OO, "NO": NO, "CA": CA, "SA": SA,
                     "OS": OS, "k": k, "bs": bs, "B": (k * bs) if fixed else None, "fixed": fixed, "end": end}
                w["chunk"] = _Chunk(w, cols)
                agg = {"count": "sum"}
                w["agg"] = agg
                columns = ["bin1_id", "bin2_id", "count"]
                slf = v.Obj("CoolerCoarsener", RED, source_uri=v.Str("source_uri"), columns=columns, gs=_GS(w),
                            index_columns=["bin1_id", "bin2_id"], agg=agg)
                lo, hi = v.Int("lo"), v.Int("hi")
                w.update(lo=lo, hi=hi, columns=columns)

                def pixels(I, **kw):
                    log.append(("pixels", kw))
                    return _Table(w)

                class _Clr:
                    def pyvc_getattr(self, I, attr, node):
                        if attr == "pixels":
                            return LibFunc("Cooler.pixels", pixels)
                        raise Exception("Cooler." + attr)

                def Cooler(I, uri):
                    log.append(("Cooler", uri))
                    return _Clr()
                return dict(self=slf, span=(lo, hi), __free__={"Cooler": LibFunc("Cooler", Cooler)}, __ghost__=w)
            return f
        # one configuration per pixel end: the two ends are computed independently by the code; proving them in
        # separate contexts keeps each query small (the hints of one end are useless ballast for the other)
        for end in ("1", "2"):
            yield f"fixed,end{end}", mk(True, end)
            yield f"variable,end{end}", mk(False, end)

    def _w(self):
        return self._v.path.ghost

    def _ends(self):
        w = self._w()
        both = (("1", w["cols"]["chrom1"], w["cols"]["start1"], w["b1"]), ("2", w["cols"]["chrom2"], w["cols"]["start2"], w["b2"]))
        return tuple(e for e in both if e[0] == w["end"])

    def requires(self, **a):
        w = self._w()
        m, nchrom, OO, NO, k, bs = w["m"], w["nchrom"], w["OO"], w["NO"], w["k"], w["bs"]
        r = {"sizes": And(m >= 0, nchrom >= 1, k >= 2, bs >= 1, bs < MAXC, k < MAXC),
             "old-offsets": And(OO[0] == 0, nondecreasing(OO)), "new-offsets": And(NO[0] == 0, nondecreasing(NO))}
        for tag, C in (("1", w["cols"]["chrom1"]), ("2", w["cols"]["chrom2"])):
            r[f"pixel-end-{tag}:chromosome-id-in-range"] = forall(0, m, lambda p, C=C: And(0 <= C[p], C[p] < nchrom))
        for tag, C, S, Bn in self._ends():
            # the joined columns describe the pixel's fine bin (C14's join contract)
            r[f"pixel-end-{tag}:fine-bin-lies-in-its-chromosome"] = forall(0, m, lambda p: And(OO[C[p]] <= Bn[p], Bn[p] < OO[C[p] + 1]))
            if w["fixed"]:
                r[f"pixel-end-{tag}:start-of-a-fixed-width-fine-bin"] = forall(
                    0, m, lambda p: And(S[p] == (Bn[p] - OO[C[p]]) * bs, S[p] < MAXC))
        if not w["fixed"]:
            OS, CA, SA = w["OS"], w["CA"], w["SA"]
            for tag, C, S, Bn in self._ends():
                r[f"pixel-end-{tag}:start-is-the-fine-bins-start"] = forall(0, m, lambda p: And(S[p] == OS[Bn[p]], S[p] >= 0))
                # fine starts increase strictly within the pixel's chromosome (flat, relative to the pixel's own bin)
                r[f"pixel-end-{tag}:fine-starts-increase-around-the-pixels-bin"] = forall2(
                    0, m, 0, L(OS), lambda p, j: Implies(And(OO[C[p]] <= j, j < OO[C[p] + 1]), And(
                        Implies(j < Bn[p], OS[j] < OS[Bn[p]]), Implies(j > Bn[p], OS[j] > OS[Bn[p]]),
                        Implies(j == Bn[p], OS[j] == OS[Bn[p]]))))
                r[f"pixel-end-{tag}:start-inside-the-chromosome"] = forall(0, m, lambda p: CA[C[p]] + OS[Bn[p]] < CA[C[p] + 1])
            r["fine-offsets-within-table"] = And(OO[nchrom] == L(OS))
            r["coarse-bins-per-chromosome"] = forall(0, nchrom, lambda c: And(
                (NO[c + 1] - NO[c]) * k >= OO[c + 1] - OO[c], (NO[c + 1] - NO[c] - 1) * k < OO[c + 1] - OO[c]))
            r["abs-starts-of-the-coarse-bins"] = And(L(SA) == NO[nchrom], increasing(SA), forall2(
                0, nchrom, 0, L(SA), lambda c, g: Implies(And(NO[c] <= g, g < NO[c + 1]),
                                                           SA[g] == CA[c] + OS[OO[c] + (g - NO[c]) * k])))
            r["every-chromosome-has-a-bin-and-its-first-coarse-bin-starts-at-its-absolute-position"] = forall(
                0, nchrom, lambda c: And(NO[c] < NO[c + 1], OO[c] < OO[c + 1], SA[NO[c]] == CA[c]))
        return r

    def ensures(self, result, self_, span):
        w = self._w()
        log, m, NO, OO, k = w["log"], w["m"], w["NO"], w["OO"], w["k"]
        names = [op[0] for op in log]
        out = {"read-group-aggregate": names == ["Cooler", "pixels", "columns", "rows", "groupby", "aggregate", "reset_index"]}
        if not out["read-group-aggregate"]:
            return out
        out["source-is-the-coarseners"] = log[0][1] is self_.attrs["source_uri"]
        out["joined-with-raw-chromosome-ids"] = log[1][1] == {"join": True, "convert_enum": False}
        out["the-coarseners-columns"] = log[2][1] is self_.attrs["columns"] or log[2][1] == w["columns"]
        out["exactly-the-rows-of-the-span"] = And(log[3][1] == w["lo"], log[3][2] == w["hi"])
        out["grouped-by-the-new-pixel-key-sorted"] = log[4][1] == ["bin1_id", "bin2_id"] and log[4][2] is True
        out["aggregated-with-the-coarseners-functions"] = log[5][1] is w["agg"]
        ch = w["chunk"]
        for tag, C, S, Bn in self._ends():
            new = ch.cols.get(f"bin{tag}_id")
            ok = isinstance(new, Arr)
            out[f"bin{tag}_id-written"] = ok
            if ok:
                if w["fixed"]:
                    # arithmetic core, per pixel: (r*bs) div (k*bs) == r div k   (r = index of the fine bin in its chromosome)
                    out[f"hint:bin{tag}:quotient-remainder-of-the-fine-index"] = forall(0, m, lambda p: And(
                        (Bn[p] - OO[C[p]]) * w["bs"] == div(Bn[p] - OO[C[p]], k) * (k * w["bs"]) + mod(Bn[p] - OO[C[p]], k) * w["bs"],
                        mod(Bn[p] - OO[C[p]], k) * w["bs"] >= 0, mod(Bn[p] - OO[C[p]], k) * w["bs"] < k * w["bs"]))
                else:
                    OS, CA, SA = w["OS"], w["CA"], w["SA"]
                    rr = lambda p: Bn[p] - OO[C[p]]
                    q = lambda p: div(rr(p), k)
                    gs = lambda p: NO[C[p]] + q(p)
                    out[f"hint:bin{tag}:quotient-remainder-of-the-fine-index"] = forall(0, m, lambda p: And(
                        rr(p) == q(p) * k + mod(rr(p), k), 0 <= mod(rr(p), k), mod(rr(p), k) < k, q(p) >= 0, q(p) * k <= rr(p),
                        rr(p) < (q(p) + 1) * k))
                    out[f"hint:bin{tag}:new-offsets-end-at-the-table-length"] = forall(0, m, lambda p: And(
                        NO[C[p] + 1] <= NO[w["nchrom"]], NO[C[p]] <= NO[C[p] + 1]))
                    out[f"hint:bin{tag}:quotient-below-the-number-of-coarse-bins"] = forall(0, m, lambda p: And(
                        q(p) * k < (NO[C[p] + 1] - NO[C[p]]) * k, q(p) < NO[C[p] + 1] - NO[C[p]]))
                    out[f"hint:bin{tag}:coarse-index-within-its-chromosome"] = forall(0, m, lambda p: And(
                        NO[C[p]] <= gs(p), gs(p) < NO[C[p] + 1], gs(p) < L(SA)))
                    out[f"hint:bin{tag}:coarse-start-is-a-fine-start"] = forall(0, m, lambda p: And(
                        SA[gs(p)] == CA[C[p]] + OS[OO[C[p]] + q(p) * k], OO[C[p]] + q(p) * k <= Bn[p]))
                    out[f"hint:bin{tag}:coarse-bin-starts-at-or-before-the-pixel"] = forall(0, m, lambda p: SA[gs(p)] <= CA[C[p]] + S[p])
                    out[f"hint:bin{tag}:next-coarse-bin-in-the-same-chromosome-is-a-later-fine-bin"] = forall(0, m, lambda p: Implies(
                        gs(p) + 1 < NO[C[p] + 1], And((q(p) + 1) * k <= (NO[C[p] + 1] - NO[C[p]] - 1) * k,
                                                     OO[C[p]] + (q(p) + 1) * k < OO[C[p] + 1], OO[C[p]] + (q(p) + 1) * k > Bn[p],
                                                     SA[gs(p) + 1] == CA[C[p]] + OS[OO[C[p]] + (q(p) + 1) * k])))
                    out[f"hint:bin{tag}:next-coarse-bin-in-the-same-chromosome-starts-after-the-pixel"] = forall(0, m, lambda p: Implies(
                        gs(p) + 1 < NO[C[p] + 1], SA[gs(p) + 1] > CA[C[p]] + S[p]))
                    out[f"hint:bin{tag}:a-next-coarse-bin-beyond-the-chromosome-means-a-next-chromosome"] = forall(0, m, lambda p: Implies(
                        And(gs(p) + 1 == NO[C[p] + 1], gs(p) + 1 < L(SA)), C[p] + 1 < w["nchrom"]))
                    out[f"hint:bin{tag}:the-next-chromosome-starts-at-its-absolute-position"] = forall(0, m, lambda p: Implies(
                        C[p] + 1 < w["nchrom"], SA[NO[C[p] + 1]] == CA[C[p] + 1]))
                    out[f"hint:bin{tag}:next-coarse-bin-in-the-next-chromosome-starts-after-the-pixel"] = forall(0, m, lambda p: Implies(
                        And(gs(p) + 1 == NO[C[p] + 1], gs(p) + 1 < L(SA)), And(C[p] + 1 < w["nchrom"], SA[gs(p) + 1] == CA[C[p] + 1],
                                                                                SA[gs(p) + 1] > CA[C[p]] + S[p])))
                    out[f"hint:bin{tag}:next-coarse-bin-starts-after-the-pixel"] = forall(0, m, lambda p: Implies(
                        gs(p) + 1 < L(SA), SA[gs(p) + 1] > CA[C[p]] + S[p]))
                    out[f"hint:bin{tag}:result-at-least-the-coarse-bin"] = forall(0, m, lambda p: new[p] >= gs(p))
                    out[f"hint:bin{tag}:result-at-most-the-coarse-bin"] = forall(0, m, lambda p: new[p] <= gs(p))
                out[f"bin{tag}_id-is-the-coarse-bin-containing-the-fine-bin"] = And(new.n == m, forall(
                    0, m, lambda p: new[p] == NO[C[p]] + div(Bn[p] - OO[C[p]], k)))
        out["value-columns-untouched"] = ch.cols.get("count") is w["cols"]["count"]
        return out
