"""Sidecar contracts for cooler/core/_rangequery.py (no file under /repo is touched)."""
from pyvc.api import *  # noqa: F401,F403

M = "cooler.core._rangequery"


@contract
class ComesBefore(Contract):
    target = f"{M}:_comes_before"
    props = ["C03"]
    inline = True

    def configs(self, v):
        yield "", lambda v: dict(a0=v.Int("a0"), a1=v.Int("a1"), b0=v.Int("b0"), b1=v.Int("b1"),
                                 strict=v.Bool("strict"))

    def ensures(self, result, a0, a1, b0, b1, strict):
        # interval a starts before b and (strict) ends before b starts / (lax) ends no later than b
        return {"value": Iff(result, And(a0 < b0, If(strict, a1 <= b0, a1 <= b1)))}


@contract
class Contains(Contract):
    target = f"{M}:_contains"
    props = ["C03"]
    inline = True

    def configs(self, v):
        yield "", lambda v: dict(a0=v.Int("a0"), a1=v.Int("a1"), b0=v.Int("b0"), b1=v.Int("b1"),
                                 strict=v.Bool("strict"))

    def ensures(self, result, a0, a1, b0, b1, strict):
        return {"value": Iff(result, And(a0 <= b0, a1 >= b1,
                                         Implies(strict, And(a0 != b0, a1 != b1))))}
