"""Sidecar contracts for cooler/core/_rangequery.py (no file under /repo is touched)."""
from pyvc.api import *  # noqa: F401,F403

M = "cooler.core._rangequery"

inline_ok(f"{M}:CSRReader.get_dict_meta", f"{M}:concat", f"{M}:transpose")


@contract
class ComesBefore(Contract):
    target = f"{M}:_comes_before"
    props = ["C03"]
    inline = True

    def configs(self, v):
        yield "", lambda v: dict(a0=v.Int("a0"), a1=v.Int("a1"), b0=v.Int("b0"), b1=v.Int("b1"),
                                 strict=v.Bool("strict"))

    def ensures(self, result, a0, a1, b0, b1, strict):
        # interval a starts before b and (strict) ends before b starts / (lax) ends no later than b
        return {"value": Iff(result, And(a0 < b0, If(strict, a1 <= b0, a1 <= b1)))}


@contract
class Contains(Contract):
    target = f"{M}:_contains"
    props = ["C03"]
    inline = True

    def configs(self, v):
        yield "", lambda v: dict(a0=v.Int("a0"), a1=v.Int("a1"), b0=v.Int("b0"), b1=v.Int("b1"),
                                 strict=v.Bool("strict"))

    def ensures(self, result, a0, a1, b0, b1, strict):
        return {"value": Iff(result, And(a0 <= b0, a1 >= b1,
                                         Implies(strict, And(a0 != b0, a1 != b1))))}


# ------------------------------------------------------------------ spans
from contracts.common import *  # noqa: E402,F401,F403


@contract
class ArgPrunePartition(Contract):
    """indices into seq: strictly increasing, first is 0, last is the first
    index at which seq reaches its final value (so everything after the last
    index is a run of empty rows).  Stated on row content, not on len(seq):
    the left-searchsorted drops trailing empty rows (DESIGN.md C03)."""
    target = f"{M}:arg_prune_partition"
    props = ["C03"]

    def configs(self, v):
        yield "", lambda v: dict(seq=v.Arr("seq"), step=v.Int("step"))

    def requires(self, seq, step):
        return [L(seq) >= 1, step >= 1, nondecreasing(seq)]

    def result(self, v, **a):
        return v.Arr("app")

    def ensures(self, result, seq, step):
        u = result
        m = L(u)
        last = u[m - 1]
        return {
            "nonempty": m >= 1,
            "first-is-0": u[0] == 0,
            "strictly-increasing": increasing(u),
            "in-range": forall(0, m, lambda k: And(0 <= u[k], u[k] < L(seq))),
            "last-reaches-final-value": seq[last] == seq[L(seq) - 1],
            "last-is-first-such": forall(0, last, lambda k: seq[k] < seq[L(seq) - 1]),
        }


def mk_reader(v, field="count"):
    n = v.Int("n")
    v.assume(n >= 0)
    O = v.Arr("O", n=n + 1)
    B1 = v.Arr("B1")
    B2 = v.Arr("B2", n=B1.n)
    V = v.Arr("V", n=B1.n)
    rd = v.Obj("CSRReader", M, pixel_grp={"bin1_id": B1, "bin2_id": B2, field: V}, bin1_offsets=O,
               dtypes={"bin1_id": "int64", "bin2_id": "int64", field: "int32"})
    return rd, n, O, B1, B2, V


def reader_parts(rd):
    g = rd.attrs["pixel_grp"]
    O = rd.attrs["bin1_offsets"]
    return O, g["bin1_id"], g["bin2_id"]


@contract
class GetSpans(Contract):
    """row spans: consecutive, start at i0, non-empty, end at a row E <= i1
    with offsets[E] == offsets[i1] (all rows in [E, i1) are empty); no span for
    an empty window"""
    target = f"{M}:CSRReader.get_spans"
    props = ["C03"]

    def configs(self, v):
        def f(v):
            rd, n, O, B1, B2, V = mk_reader(v)
            return dict(self=rd, bbox=(v.Int("i0"), v.Int("i1"), v.Int("j0"), v.Int("j1")),
                        chunksize=v.Int("chunksize"))
        yield "", f

    def requires(self, self_, bbox, chunksize):
        O, B1, B2 = reader_parts(self_)
        i0, i1, j0, j1 = bbox
        n = L(O) - 1
        return [chunksize >= 1, n >= 0, nondecreasing(O), 0 <= i0, i0 <= n, 0 <= i1, i1 <= n]

    def result(self, v, **a):
        lo = v.Fn("span.lo", "int", "int")
        hi = v.Fn("span.hi", "int", "int")
        ns = v.Int("nspans")
        return SymList(ns, lambda k: (lo(k), hi(k)), name="spans"), {"__ghost__": True,
                                                                      "span_of": v.Fn("span.of", "int", "int")}

    def ghost_final(self, I, S, result):
        """ghost code: span_of(row) = searchsorted(edges, row, 'right') - 1 (binary search exists)"""
        import z3 as _z3
        from pyvc.lib_numpy import np_searchsorted
        from pyvc.values import Arr
        edges = S.edges
        i0, i1 = S.i0, S.i1
        rows = Arr(_z3.If(i1 >= i0, i1 - i0, _z3.IntVal(0)), lambda k: i0 + k, "int")
        # precondition of searchsorted (edges sorted) is obliged like any other call
        ss = np_searchsorted(I, edges, rows, "right")
        return {"span_of": (lambda x: ss[x - i0] - 1)}

    def ensures(self, result, ghost, self_, bbox, chunksize):
        O, B1, B2 = reader_parts(self_)
        i0, i1, j0, j1 = bbox
        ns, sp_at = seq_view(result)
        lo = lambda k: sp_at(k)[0]
        hi = lambda k: sp_at(k)[1]
        E = spans_end(result, i0)
        span_of = ghost["span_of"]
        nonempty_window = And(i1 - i0 >= 1, j1 - j0 >= 1)
        return {
            "count": ns >= 0,
            "empty-window-no-spans": Implies(Not(nonempty_window), ns == 0),
            "first-starts-at-i0": Implies(ns > 0, lo(0) == i0),
            "consecutive": forall(0, ns - 1, lambda k: hi(k) == lo(k + 1)),
            "nonempty-spans": forall(0, ns, lambda k: lo(k) < hi(k)),
            "within-rows": forall(0, ns, lambda k: And(i0 <= lo(k), hi(k) <= E)),
            "ordered-disjoint": forall2(0, ns, 0, ns, lambda k1, k2: Implies(k1 < k2, hi(k1) <= lo(k2))),
            "covers-all-nonempty-rows": Implies(nonempty_window, And(i0 <= E, E <= i1, O[E] == O[i1])),
            "every-covered-row-has-its-span": forall(i0, E, lambda x: And(
                0 <= span_of(x), span_of(x) < ns, lo(span_of(x)) <= x, x < hi(span_of(x)))),
        }


def spans_end(spans, i0):
    """row at which the spans of one get_spans() result end (i0 when there are none)"""
    ns, sp_at = seq_view(spans)
    if isinstance(ns, int) and ns == 0:
        return i0
    return If(ns > 0, sp_at(ns - 1)[1], i0)


# ------------------------------------------------------------------ CSRReader.__call__
def _as_concat(I, x, kind="int"):
    from pyvc.values import ConcatList, Arr
    import z3 as _z3
    if isinstance(x, ConcatList):
        return x
    if isinstance(x, list) and not x:
        return ConcatList(_z3.IntVal(0), Arr(0, lambda k: _z3.IntVal(0), kind))
    raise Exception("expected an empty python list before the loop")


@contract
class CSRReaderCall(Contract):
    """Materialise a row-span of a 2-D range query.

    Output records, described through a ghost source-index array ``src``
    (length = number of output records): the first L0 records are exactly the
    stored pixels p in [O[s0], O[s1]) with j0 <= B2[p] < j1, in storage order
    (src strictly increasing); if ``reflect``, they are followed by the
    transposed copies of exactly those direct records with B1 != B2 and
    B2 < i1, again in order.  Values travel with their pixel."""
    target = f"{M}:CSRReader.__call__"
    props = ["C03", "C12"]

    def configs(self, v):
        def mk(span_given, return_index):
            def f(v):
                rd, n, O, B1, B2, V = mk_reader(v)
                bbox = (v.Int("i0"), v.Int("i1"), v.Int("j0"), v.Int("j1"))
                rs = (v.Int("s0"), v.Int("s1")) if span_given else None
                return dict(self=rd, field="count", bbox=bbox, row_span=rs, reflect=v.Bool("reflect"),
                            return_index=return_index)
            return f
        for sg in (True, False):
            for ri in (True, False):
                yield f"span={'given' if sg else 'None'},index={ri}", mk(sg, ri)

    @staticmethod
    def _span(bbox, row_span):
        return (bbox[0], bbox[1]) if row_span is None else row_span

    def requires(self, self_, field, bbox, row_span, reflect, return_index):
        O, B1, B2 = reader_parts(self_)
        n = L(O) - 1
        s0, s1 = self._span(bbox, row_span)
        return [valid_offsets(O, n, L(B1)), L(B2) == L(B1), L(self_.attrs["pixel_grp"][field]) == L(B1),
                rows_match_offsets(O, B1, n), 0 <= s0, s0 <= s1, s1 <= n]

    # ---- loop 0: for i in range(s0, s1)
    def _inv(self, S):
        O = S.self.attrs["bin1_offsets"]
        g = S.self.attrs["pixel_grp"]
        B1, B2, V = g["bin1_id"], g["bin2_id"], g[S.field]
        res = S.result
        r1, r2, rv = res["bin1_id"], res["bin2_id"], res[S.field]
        src = S.src
        i = S.s0 + S.it          # value the loop variable takes next
        j0, j1 = S.j0, S.j1
        Lc = src.flat.n
        inv = {
            "rows-done": r1.count == i - S.s0,
            "counts-agree": And(r2.count == r1.count, rv.count == r1.count, src.count == r1.count),
            "lengths-agree": And(r1.flat.n == Lc, r2.flat.n == Lc, rv.flat.n == Lc),
            "records-are-pixels": forall(0, Lc, lambda t: And(
                S.offset_lo <= src.flat[t], src.flat[t] < O[i],
                j0 <= B2[src.flat[t]], B2[src.flat[t]] < j1,
                r1.flat[t] == B1[src.flat[t]], r2.flat[t] == B2[src.flat[t]], rv.flat[t] == V[src.flat[t]])),
            "storage-order": forall2(0, Lc, 0, Lc, lambda t1, t2: Implies(t1 < t2, src.flat[t1] < src.flat[t2])),
            "complete": forall(S.offset_lo, O[i], lambda p: Implies(
                And(j0 <= B2[p], B2[p] < j1),
                And(0 <= S.rank(p), S.rank(p) < Lc, src.flat[S.rank(p)] == p))),
            "offsets": And(S.offset_lo == O[S.s0], S.offset_hi == O[S.s1]),
        }
        if S.return_index:
            ri = res["__index"]
            inv["index-is-src"] = And(ri.count == r1.count, ri.flat.n == Lc,
                                      forall(0, Lc, lambda t: ri.flat[t] == src.flat[t]))
        return inv

    def _prepare(self, S, I):
        res = S.result
        for k in list(res.keys()):
            res[k] = _as_concat(I, res[k])

    def _ghost_init(self, S, I):
        import z3 as _z3
        from pyvc.values import ConcatList, Arr
        rank = _z3.Function(I.path.fresh_name("g.rank"), _z3.IntSort(), _z3.IntSort())
        return {"src": ConcatList(_z3.IntVal(0), Arr(0, lambda k: _z3.IntVal(0), "int")), "rank": rank}

    def _ghost_step(self, S, I):
        """ghost code: src.append(offset_lo + lo + flatnonzero(mask)); rank extended on the new row"""
        import z3 as _z3
        from pyvc.lib_numpy import mask_filter, arr_concat
        from pyvc.values import Arr
        m, fsrc, frank = mask_filter(I, S.mask)
        base = S.offset_lo + S.lo
        old = S.src
        oldn = old.flat.n
        new = Arr(m, lambda k: base + fsrc(k), "int")
        old.flat = arr_concat([old.flat, new])
        old.count = old.count + 1
        oldrank = S.rank
        O = S.self.attrs["bin1_offsets"]
        row_lo = O[S.i]
        # new rank function: old on earlier rows, oldn + filter-rank on this row
        S.set_ghost("rank", lambda p: _z3.If(p < row_lo, oldrank(p), oldn + frank(p - row_lo)))

    @property
    def loops(self):
        def havoc_rank(v):
            return v.Fn("g.rank", "int", "int")
        return {0: LoopSpec(self._inv, prepare=self._prepare, ghost_init=self._ghost_init,
                            ghost_step=self._ghost_step, havoc={"__g_rank": havoc_rank})}

    def result(self, v, self_, field, bbox, row_span, reflect, return_index):
        r1, r2, rv = v.Arr("out.bin1"), None, None
        r2 = v.Arr("out.bin2", n=r1.n)
        rv = v.Arr("out.val", n=r1.n)
        res = {"bin1_id": r1, "bin2_id": r2, field: rv}
        if return_index:
            res["__index"] = v.Arr("out.index", n=r1.n)
        ghost = {"__ghost__": True, "src": v.Arr("out.src", n=r1.n), "L0": v.Int("out.L0"),
                 "drank": v.Fn("out.drank", "int", "int"), "rrank": v.Fn("out.rrank", "int", "int")}
        return res, ghost

    def ensures(self, result, ghost, self_, field, bbox, row_span, reflect, return_index):
        O, B1, B2 = reader_parts(self_)
        V = self_.attrs["pixel_grp"][field]
        i0, i1, j0, j1 = bbox
        s0, s1 = self._span(bbox, row_span)
        r1, r2, rv = result["bin1_id"], result["bin2_id"], result[field]
        Lr = L(r1)
        if "L0" in ghost:          # modular use: fresh ghost symbols
            src, L0, drank, rrank = ghost["src"], ghost["L0"], ghost["drank"], ghost["rrank"]
            srcat = lambda t: src[t]
        else:                       # verification of the body: ghost state of the loop
            gsrc = ghost["src"].flat
            L0 = L(gsrc)
            drank = ghost["rank"]
            srcat, rrank = self._final_src(gsrc, L0, result, ghost)
        inwin = lambda p: And(j0 <= B2[p], B2[p] < j1)
        dup = lambda p: And(B1[p] != B2[p], B2[p] < i1)
        out = {
            "lengths": And(L(r2) == Lr, L(rv) == Lr, 0 <= L0, L0 <= Lr, Implies(Not(reflect), L0 == Lr)),
            "direct-records": forall(0, L0, lambda t: And(
                O[s0] <= srcat(t), srcat(t) < O[s1], inwin(srcat(t)),
                r1[t] == B1[srcat(t)], r2[t] == B2[srcat(t)], rv[t] == V[srcat(t)])),
            "direct-storage-order": forall2(0, L0, 0, L0, lambda a, b: Implies(a < b, srcat(a) < srcat(b))),
            "direct-complete": forall(O[s0], O[s1], lambda p: Implies(
                inwin(p), And(0 <= drank(p), drank(p) < L0, srcat(drank(p)) == p))),
            "reflected-records": forall(L0, Lr, lambda t: And(
                O[s0] <= srcat(t), srcat(t) < O[s1], inwin(srcat(t)), dup(srcat(t)),
                r1[t] == B2[srcat(t)], r2[t] == B1[srcat(t)], rv[t] == V[srcat(t)])),
            "reflected-order": forall2(L0, Lr, L0, Lr, lambda a, b: Implies(a < b, srcat(a) < srcat(b))),
            "reflected-complete": Implies(reflect, forall(O[s0], O[s1], lambda p: Implies(
                And(inwin(p), dup(p)), And(L0 <= rrank(p), rrank(p) < Lr, srcat(rrank(p)) == p)))),
        }
        if return_index:
            ri = result["__index"]
            out["index-column"] = And(L(ri) == Lr, forall(0, Lr, lambda t: ri[t] == srcat(t)))
        return out

    def _final_src(self, gsrc, L0, result, ghost):
        """source index of every output record, built from the ghost state of
        the loop and the reflect mask used by the code (prover side only)"""
        import z3 as _z3
        r1 = result["bin1_id"]
        Lr = L(r1)
        # the duplicated part is result[...][to_duplex]: its filter functions are
        # attached to the mask object the code built; recover them through the
        # length relation: any mask filter (m, fsrc, frank) with L0 + m == Lr
        td = ghost["__locals__"].get("to_duplex")
        if td is None or getattr(td, "_filter", None) is None:
            return (lambda t: gsrc[t]), (lambda p: _z3.IntVal(0))
        m, fsrc, frank = td._filter
        drank = ghost["rank"]
        return (lambda t: _z3.If(t < L0, gsrc[t], gsrc[fsrc(t - L0)])), (lambda p: L0 + frank(drank(p)))


# ------------------------------------------------------------------ query engines
def _reader_of(fetcher):
    """(reader, transposed?) of a task's fetcher: the reader itself or compose(transpose, reader)"""
    if isinstance(fetcher, Composed):
        fs = fetcher.funcs
        if len(fs) == 2 and getattr(fs[0], "qualname", None) == "transpose":
            return fs[1], True
        raise Exception(f"unexpected fetcher composition {fs!r}")
    return fetcher, False


def task_segments(tasks):
    """tasks (python list / SegList) -> list of (count, at(k) -> task tuple)"""
    out = []
    if isinstance(tasks, list):
        for t in tasks:
            out.append((1, (lambda k, t=t: t)))
        return out
    if isinstance(tasks, SymList):
        return [(tasks.n, tasks.at)]
    for kind, v in tasks.segs:
        if kind == "one":
            out.append((1, (lambda k, v=v: v)))
        else:
            out.append((v.n, v.at))
    return out


def emission_counts(I, v, reader, tasks, fill_lower, a, b):
    """Number of output records that the task list emits for the stored pixel
    (a, b) at matrix position (a, b) [``up``] and at (b, a) [``low``], derived
    from the contracts of get_spans (row coverage) and CSRReader.__call__
    (per-call exactly-once, lemma CSRReaderCall.lemmas): a task with bbox
    (I0,I1,J0,J1), span (s0,s1), reflect flag emits the pixel directly iff
    s0 <= a < s1 and J0 <= b < J1, and additionally mirrored iff reflect and
    a != b and b < I1; a transposing fetcher swaps the two positions.
    Within one segment (one get_spans result) the spans are disjoint and cover
    [I0, E), so "some span contains row a" is I0 <= a < E, exactly once."""
    up, low = 0, 0
    checks = {}
    for si, (cnt, at) in enumerate(task_segments(tasks)):
        k = v.Int(f"task{si}")
        t = at(k)
        fetcher, field, bbox, span, reflect, ri = t
        rd, transposed = _reader_of(fetcher)
        checks[f"seg{si}.reader"] = rd is reader
        I0, I1, J0, J1 = bbox
        # all tasks of a segment share fetcher/bbox/reflect: the tuple built for a
        # symbolic k may depend on k only through the span
        seg = None if isinstance(tasks, list) else True
        E = spans_end(SymList(cnt, lambda kk, at=at: at(kk)[3]), I0) if seg is not None else span[1]
        lo0 = I0 if seg is not None else span[0]
        covered = And(cnt > 0, lo0 <= a, a < E) if seg is not None else And(lo0 <= a, a < E)
        direct = And(covered, J0 <= b, b < J1)
        mirrored = And(direct, reflect, a != b, b < I1) if reflect is not False else False
        if not transposed:
            up = up + If(direct, 1, 0)
            low = low + If(mirrored, 1, 0)
        else:
            low = low + If(direct, 1, 0)
            up = up + If(mirrored, 1, 0)
    return up, low, checks


class _QueryEngineBase(Contract):
    props = ["C03"]
    fill_lower = None

    def configs(self, v):
        def mk(ri):
            def f(v):
                rd, n, O, B1, B2, V = mk_reader(v)
                slf = v.Obj(self.clsname, M)
                return dict(self=slf, reader=rd, field="count",
                            bbox=(v.Int("i0"), v.Int("i1"), v.Int("j0"), v.Int("j1")),
                            chunksize=v.Int("chunksize"), return_index=ri)
            return f
        yield "index=False", mk(False)
        yield "index=True", mk(True)

    def requires(self, self_, reader, field, bbox, chunksize, return_index):
        O, B1, B2 = reader_parts(reader)
        n = L(O) - 1
        i0, i1, j0, j1 = bbox
        return [chunksize >= 1, n >= 0, nondecreasing(O), L(O) == n + 1,
                0 <= i0, i0 <= i1, i1 <= n, 0 <= j0, j0 <= j1, j1 <= n]

    def ensures(self, result, self_, reader, field, bbox, chunksize, return_index):
        import z3 as _z3
        from pyvc.engine import Vocab
        O, B1, B2 = reader_parts(reader)
        n = L(O) - 1
        i0, i1, j0, j1 = bbox
        tasks = self_.attrs["tasks"]
        v = self._v
        a, b = v.Int("px.row"), v.Int("px.col")
        # an arbitrary stored pixel (a, b): its row is non-empty
        stored = And(0 <= a, a < n, 0 <= b, b < n, O[a] < O[a + 1])
        if self.fill_lower:
            stored = And(stored, a <= b)
        up, low, checks = emission_counts(None, v, reader, tasks, self.fill_lower, a, b)
        inw = lambda r, c: And(i0 <= r, r < i1, j0 <= c, c < j1)
        out = {f"task-shape.{k}": c for k, c in checks.items()}
        if self.fill_lower:
            out["exactly-once.upper"] = Implies(stored, up + If(a == b, low, 0) == If(inw(a, b), 1, 0))
            out["exactly-once.lower"] = Implies(And(stored, a != b), low == If(inw(b, a), 1, 0))
        else:
            out["exactly-once.stored"] = Implies(stored, up == If(inw(a, b), 1, 0))
            out["nothing-mirrored"] = Implies(stored, low == 0)
        return out


@contract
class FillLowerInit(_QueryEngineBase):
    """C03-L1 (exactly once): for every stored upper-triangle pixel (a,b) and
    every window, the tasks the real constructor builds emit one record at
    (a,b) iff (a,b) is in the window and one at (b,a) iff a != b and (b,a) is
    in the window -- nothing twice, nothing outside; the 'shouldn't happen'
    branch is unreachable (raises: none allowed)."""
    target = f"{M}:FillLowerRangeQuery2D.__init__"
    clsname = "FillLowerRangeQuery2D"
    fill_lower = True


@contract
class DirectInit(_QueryEngineBase):
    target = f"{M}:DirectRangeQuery2D.__init__"
    clsname = "DirectRangeQuery2D"
    fill_lower = False
