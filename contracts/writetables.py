"""Coordinator contracts for create._create:write_chroms and write_bins (C01, C02, C17): what the two table writers put where.
Concrete small tables (names and the bins' chromosome labels), everything else opaque; h5py create_dataset / special_dtype / put
are recording stubs (assumed: they store what they are given under the name they are given).
 * write_chroms: `name` holds the caller's names, `length` the caller's lengths, both with n_chroms rows; every further column
   of the caller's table - and only those - is stored through put(); nothing else is created.
 * write_bins: the chromosome column holds, for every bin, the POSITION of its chromosome's name in the chromosome list given
   (the code the enum maps that name to; the enum maps the i-th name to i); when the HDF5 enum header is refused (ValueError) the
   same codes are stored as plain integers and the dataset points to /chroms/name; start / end hold the caller's columns with
   n_bins rows; extra columns through put(); nothing else."""
from pyvc.api import *  # noqa: F401,F403
from pyvc.values import ExcVal, LibFunc, LibNS, PyRaise
from contracts.common import *  # noqa: F401,F403

CR = "cooler.create._create"


class _Col(list):
    pass


class _Tab:
    def __init__(self, cols, tag="table"):
        self.cols, self.tag = cols, tag

    def pyvc_len(self, I):
        return len(next(iter(self.cols.values())))

    def pyvc_getitem(self, I, key, node):
        if isinstance(key, list):
            return _Tab({k: self.cols[k] for k in key}, self.tag + "[extra]")
        return self.cols[key]

    def pyvc_getattr(self, I, attr, node):
        if attr == "keys":
            return LibFunc("DataFrame.keys", lambda I: list(self.cols.keys()))
        raise Exception("DataFrame." + attr)


class _DS:
    def __init__(self, log, name):
        self.log, self.name = log, name
        self.attrs = self

    def pyvc_getattr(self, I, attr, node):
        if attr == "attrs":
            return self
        raise Exception("Dataset." + attr)

    def pyvc_setitem(self, I, key, val):
        self.log.append(("attr", self.name, key, val))


def _grp(log, enum_refused=False):
    class _G:
        def pyvc_getattr(self, I, attr, node):
            if attr == "create_dataset":
                def cd(I, name, **k):
                    if enum_refused and isinstance(k.get("dtype"), tuple) and k["dtype"][0] == "enum":
                        log.append(("refused", name))
                        raise PyRaise(ExcVal("ValueError", ("enum header too large",)))
                    log.append(("create_dataset", name, k))
                    return _DS(log, name)
                return LibFunc("create_dataset", cd)
            raise Exception("Group." + attr)
    return _G()


def _np(v):
    np_ns = v.path.engine.lib["numpy"]
    return LibNS("numpy", dict(np_ns._members, array=LibFunc("np.array", lambda I, x, dtype=None, **k: _Names(x))))


class _Names:
    def __init__(self, src):
        self.src = src
        self.dtype = "fixed-width string dtype"

    def pyvc_getattr(self, I, attr, node):
        if attr == "dtype":
            return self.dtype
        raise Exception("ndarray." + attr)


@contract
class WriteChroms(Contract):
    target = f"{CR}:write_chroms"
    props = ["C01", "C02"]

    def configs(self, v):
        def mk(extra):
            def f(v):
                log = []
                cols = {"name": _Col(["chrB", "chrA", "chrC"]), "length": _Col([30, 20, 10])}
                for c in extra:
                    cols[c] = _Col([1, 2, 3])
                t = _Tab(cols)
                opts = {"compression": Opaque("compression")}
                free = {"np": _np(v), "put": LibFunc("put", lambda I, g, fr, **k: log.append(("put", g, fr))),
                        "CHROM_DTYPE": "S", "CHROMSIZE_DTYPE": "int32"}
                grp = _grp(log)
                return dict(grp=grp, chroms=t, h5opts=opts, __free__=free, __ghost__={"log": log, "t": t, "extra": extra, "opts": opts, "grp": grp})
            return f
        yield "standard-columns", mk([])
        yield "extra-columns", mk(["gc", "cov"])

    def ensures(self, result, grp, chroms, h5opts):
        g = self._v.path.ghost
        log, t = g["log"], g["t"]
        ds = {e[1]: e[2] for e in log if e[0] == "create_dataset"}
        o = {"exactly-name-and-length-created": sorted(ds) == ["length", "name"] and sum(1 for e in log if e[0] == "create_dataset") == 2}
        if sorted(ds) != ["length", "name"]:
            return o
        nm = ds["name"].get("data")
        o["name-holds-the-callers-names"] = isinstance(nm, _Names) and nm.src is t.cols["name"] and ds["name"].get("shape") == (3,)
        o["length-holds-the-callers-lengths"] = ds["length"].get("data") is t.cols["length"] and ds["length"].get("shape") == (3,)
        o["filter-options-passed"] = all(d.get("compression") is g["opts"]["compression"] for d in ds.values())
        puts = [e for e in log if e[0] == "put"]
        if g["extra"]:
            o["extra-columns-and-only-those-through-put"] = len(puts) == 1 and puts[0][1] is g["grp"] and list(puts[0][2].cols.keys()) == g["extra"]
        else:
            o["no-extra-write"] = not puts
        return o


@contract
class WriteBins(Contract):
    target = f"{CR}:write_bins"
    props = ["C01", "C02", "C17"]

    def configs(self, v):
        def mk(as_enum, refused, extra):
            def f(v):
                log = []
                names = ["chrB", "chrA", "chrC"]
                labels = ["chrB", "chrB", "chrA", "chrC", "chrC"]
                cols = {"chrom": _Col(labels), "start": _Col([0, 10, 0, 0, 10]), "end": _Col([10, 15, 7, 10, 12])}
                for c in extra:
                    cols[c] = _Col([1, 2, 3, 4, 5])
                t = _Tab(cols)
                opts = {"compression": Opaque("compression")}
                free = {"put": LibFunc("put", lambda I, g, fr, **k: log.append(("put", g, fr))),
                        "h5py": LibNS("h5py", {"special_dtype": LibFunc("special_dtype", lambda I, enum=None, **k: ("enum", enum[0], dict(enum[1])))}),
                        "CHROMID_DTYPE": "int32"}
                grp = _grp(log, refused)
                return dict(grp=grp, chrom_as_enum=as_enum, bins=t, chromnames=names, h5opts=opts, __free__=free,
                            __ghost__={"log": log, "t": t, "names": names, "labels": labels, "extra": extra, "opts": opts, "grp": grp,
                                       "as_enum": as_enum, "refused": refused})
            return f
        yield "enum", mk(True, False, [])
        yield "enum,extra-columns", mk(True, False, ["weight"])
        yield "enum-header-refused", mk(True, True, [])
        yield "integer-codes", mk(False, False, ["weight", "KR"])

    def ensures(self, result, grp, chrom_as_enum, bins, chromnames, h5opts):
        g = self._v.path.ghost
        log, t, names, labels = g["log"], g["t"], g["names"], g["labels"]
        made = [(e[1], e[2]) for e in log if e[0] == "create_dataset"]
        o = {"exactly-chrom-start-end-created": sorted(n for n, _ in made) == ["chrom", "end", "start"]}
        if sorted(n for n, _ in made) != ["chrom", "end", "start"]:
            return o
        ds = dict(made)
        codes = [names.index(x) for x in labels]
        o["chrom-holds-for-every-bin-the-position-of-its-chromosomes-name"] = list(ds["chrom"].get("data") or []) == codes \
            and ds["chrom"].get("shape") == (len(labels),)
        dt = ds["chrom"].get("dtype")
        enum_stored = g["as_enum"] and not g["refused"]
        if enum_stored:
            o["enum-maps-the-ith-name-to-i"] = isinstance(dt, tuple) and dt[0] == "enum" and dt[2] == {n: i for i, n in enumerate(names)}
        else:
            o["plain-integer-codes-pointing-to-the-name-table"] = dt == "int32" and \
                [e[1:] for e in log if e[0] == "attr"] == [("chrom", "enum_path", "/chroms/name")]
        o["start-end-hold-the-callers-columns"] = ds["start"].get("data") is t.cols["start"] and ds["end"].get("data") is t.cols["end"] \
            and ds["start"].get("shape") == (len(labels),) and ds["end"].get("shape") == (len(labels),)
        puts = [e for e in log if e[0] == "put"]
        if g["extra"]:
            o["extra-columns-and-only-those-through-put"] = len(puts) == 1 and puts[0][1] is g["grp"] and list(puts[0][2].cols.keys()) == g["extra"]
        else:
            o["no-extra-write"] = not puts
        return o
