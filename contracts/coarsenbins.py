"""Contract for _reduce:CoolerCoarsener.coarsen_bins._each (C08): the new bin table of ONE chromosome.  For every chromosome
with n >= 1 valid bins and every factor k >= 1: there are ceil(n / k) new bins; new bin g starts where old bin g*k starts and
ends where old bin min(g*k + k - 1, n - 1) ends - i.e. it is the union of the k consecutive old bins g*k .. g*k+k-1 (the last
group may be smaller and ends at the chromosome length); the chromosome label is kept.
ASSUMED: pandas iloc with a step, .values, frame column assignment, numpy.r_ (pyvc models); the per-chromosome application
(groupby('chrom').apply) and the concatenation are pandas'."""
from pyvc.api import *  # noqa: F401,F403
from pyvc.values import SymMap
from pyvc.lib_pandas import DataFrameV
from contracts.common import *  # noqa: F401,F403

RED = "cooler._reduce"


@contract
class CoarsenBinsEach(Contract):
    target = f"{RED}:CoolerCoarsener.coarsen_bins._each"
    props = ["C08"]

    def configs(self, v):
        def f(v):
            n = v.Int("n_old_bins")
            chrom, start, end = v.Arr("chrom", n=n), v.Arr("start", n=n), v.Arr("end", n=n)
            group = DataFrameV({"chrom": chrom, "start": start, "end": end, "weight": v.Arr("weight", n=n)}, None)
            name = v.Int("chrom_key")
            group.name = name
            has = v.Fn("chromsizes.has", "int", "bool")
            ln = v.Fn("chromsizes.len", "int", "int")
            k = v.Int("factor")
            snap = {"chrom": chrom.at, "start": start.at, "end": end.at}
            return dict(group=group, __free__={"chromsizes": SymMap(lambda x: has(x), lambda x: ln(x), "chromsizes"), "factor": k},
                        __ghost__={"n": n, "k": k, "snap": snap, "name": name, "has": has, "len": ln})
        yield "", f

    def requires(self, group):
        g = self._v.path.ghost
        n, k, s = g["n"], g["k"], g["snap"]
        return [n >= 1, k >= 1, n < 2 ** 40, k < 2 ** 40, g["has"](g["name"]),
                s["start"](0) == 0, forall(0, n - 1, lambda j: s["start"](j + 1) == s["end"](j)),
                forall(0, n, lambda j: s["start"](j) < s["end"](j)),
                s["end"](n - 1) == g["len"](g["name"])]       # valid bins: the last bin ends at the chromosome length

    def ensures(self, result, group):
        g = self._v.path.ghost
        n, k, s = g["n"], g["k"], g["snap"]
        o = {"a-frame-with-chrom-start-end": isinstance(result, DataFrameV) and list(result.cols.keys()) == ["chrom", "start", "end"]}
        if not o["a-frame-with-chrom-start-end"]:
            return o
        m = cdiv(n, k)
        cs, ss, es = result.cols["chrom"], result.cols["start"], result.cols["end"]
        o["hint:group-count"] = And((m - 1) * k < n, n <= m * k, m >= 1)
        o["one-new-bin-per-group-of-k"] = And(L(ss) == m, L(es) == m, L(cs) == m)
        o["new-bin-starts-with-its-first-old-bin"] = forall(0, m, lambda q: And(ss[q] == s["start"](q * k), cs[q] == s["chrom"](q * k)))
        o["new-bin-ends-with-its-last-old-bin(last-group-at-the-chromosome-end)"] = forall(
            0, m, lambda q: es[q] == s["end"](Min(q * k + k - 1, n - 1)))
        return o
