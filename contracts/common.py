"""Shared specification vocabulary (DESIGN.md section 2): bin tables, CSR
stores.  Dual mode: works on symbolic arrays (prover) and numpy arrays / lists
(replayer, bounded runner)."""
from pyvc.api import *  # noqa: F401,F403


def L(a):
    """length of a symbolic or concrete array"""
    n = getattr(a, "n", None)
    if n is not None and not callable(n):
        return n
    return len(a)


def nondecreasing(a, lo=0, hi=None):
    hi = L(a) if hi is None else hi
    return forall2(lo, hi, lo, hi, lambda k1, k2: Implies(k1 <= k2, a[k1] <= a[k2]))


def increasing(a, lo=0, hi=None):
    hi = L(a) if hi is None else hi
    return forall2(lo, hi, lo, hi, lambda k1, k2: Implies(k1 < k2, a[k1] < a[k2]))


def valid_offsets(O, n, nnz):
    """O is a CSR row-pointer array for n rows and nnz pixels"""
    return And(n >= 0, L(O) == n + 1, O[0] == 0, O[n] == nnz, nondecreasing(O))


def rows_match_offsets(O, B1, n):
    """O is exactly the run-length index of the row column B1"""
    return forall(0, L(B1), lambda k: And(0 <= B1[k], B1[k] < n, O[B1[k]] <= k, k < O[B1[k] + 1]))


def cols_sorted_in_rows(B1, B2):
    """(B1,B2) strictly increasing lexicographically"""
    return forall2(0, L(B1), 0, L(B1), lambda k1, k2: Implies(
        k1 < k2, Or(B1[k1] < B1[k2], And(B1[k1] == B1[k2], B2[k1] < B2[k2]))))


def valid_csr(O, B1, B2, n, symmetric_upper=False):
    nnz = L(B1)
    conds = [valid_offsets(O, n, nnz), L(B2) == nnz, rows_match_offsets(O, B1, n),
             forall(0, nnz, lambda k: And(0 <= B2[k], B2[k] < n)),
             cols_sorted_in_rows(B1, B2)]
    if symmetric_upper is True:
        conds.append(forall(0, nnz, lambda k: B1[k] <= B2[k]))
    elif symmetric_upper is not False:
        conds.append(Implies(symmetric_upper, forall(0, nnz, lambda k: B1[k] <= B2[k])))
    return And(*conds)


# ----------------------------------------------------------------- bin tables
def valid_bins(nchrom, off, start, end, clen):
    """schema_v3 bin table: per chromosome, first start 0, consecutive,
    non-empty bins, last end = chromosome length"""
    nb = L(start)
    return And(
        nchrom >= 0, L(off) == nchrom + 1, off[0] == 0, off[nchrom] == nb, L(end) == nb, L(clen) == nchrom,
        forall(0, nchrom, lambda c: And(off[c] < off[c + 1], start[off[c]] == 0, end[off[c + 1] - 1] == clen[c])),
        forall(0, nb, lambda k: start[k] < end[k]),
        forall(0, nchrom, lambda c: forall(off[c], off[c + 1] - 1, lambda k: end[k] == start[k + 1])),
        # pairwise form of "consecutive, non-empty" (follows from the two clauses above by
        # induction on the distance: lemma valid_bins.ordered in lemmas/math.py)
        forall(0, nchrom, lambda c: forall2(off[c], off[c + 1], off[c], off[c + 1],
                                            lambda k1, k2: Implies(k1 < k2, end[k1] <= start[k2]))),
        # chromosome offsets are increasing pairwise (same induction on off[c] < off[c+1])
        forall2(0, nchrom + 1, 0, nchrom + 1, lambda c1, c2: Implies(c1 < c2, off[c1] < off[c2])),
    )


def seq_view(x):
    """(length, at) view of a python list / tuple, a symbolic list or an array"""
    if isinstance(x, (list, tuple)):
        items = list(x)

        def at(k, items=items):
            if isinstance(k, int):
                return items[k] if -len(items) <= k < len(items) else (0, 0)
            if not items:
                # never evaluated under a satisfiable guard (0 <= k < 0)
                return (k, k)
            r = items[-1]
            for i in range(len(items) - 2, -1, -1):
                r = _ite_struct(k == i, items[i], r)
            return r
        return len(items), at
    if hasattr(x, "at"):
        return x.n, x.at
    return len(x), (lambda k: x[k])


def _ite_struct(c, a, b):
    if isinstance(a, tuple):
        return tuple(_ite_struct(c, x, y) for x, y in zip(a, b))
    return If(c, a, b)


def fixed_bins(nchrom, off, start, end, clen, b):
    """the meaning C20 gives to 'has bin size b': every bin of chromosome c is
    [k*b, min((k+1)*b, clen[c]))"""
    return And(b >= 1, forall(0, nchrom, lambda c: forall(off[c], off[c + 1], lambda k: And(
        start[k] == (k - off[c]) * b, end[k] == Min(start[k] + b, clen[c])))))


def chrom_of_bin_ok(nchrom, off, chrom):
    """bins/chrom column agrees with the chromosome offsets"""
    return And(forall(0, nchrom, lambda c: forall(off[c], off[c + 1], lambda k: chrom[k] == c)),
               # the two end points spelled out (instances of the clause above, off[c] < off[c+1])
               forall(0, nchrom, lambda c: And(chrom[off[c]] == c, chrom[off[c + 1] - 1] == c)))


def valid_bins_at(off, start, end, clen, c):
    """valid_bins restricted to chromosome c (what a per-chromosome query needs;
    follows from valid_bins by instantiating c)"""
    nb = L(start)
    lo, hi = off[c], off[c + 1]
    return And(
        L(end) == nb, 0 <= lo, lo < hi, hi <= nb, start[lo] == 0, end[hi - 1] == clen[c],
        forall(lo, hi, lambda k: start[k] < end[k]),
        forall(lo, hi - 1, lambda k: end[k] == start[k + 1]),
        forall2(lo, hi, lo, hi, lambda k1, k2: Implies(k1 < k2, end[k1] <= start[k2])),
    )


def fixed_bins_at(off, start, end, clen, c, b):
    return And(b >= 1, forall(off[c], off[c + 1], lambda k: And(
        start[k] == (k - off[c]) * b, end[k] == Min(start[k] + b, clen[c]))))


def bin_chrom_flat(nchrom, off, chrom):
    """flat form of 'bins/chrom agrees with the chromosome offsets': every bin lies inside the
    offset range of its own chromosome (equivalent to chrom_of_bin_ok for increasing offsets)"""
    return forall(0, L(chrom), lambda k: And(0 <= chrom[k], chrom[k] < nchrom, off[chrom[k]] <= k, k < off[chrom[k] + 1]))


def bins_grouped(nchrom, off, chrom, nb):
    """the part of valid_bins that grouping by chromosome needs: offsets tile [0, nb) with
    non-empty groups and every bin lies in the group of its chromosome (flat, no nesting)"""
    return And(nchrom >= 0, L(off) == nchrom + 1, L(chrom) == nb, off[0] == 0, off[nchrom] == nb,
               forall2(0, nchrom + 1, 0, nchrom + 1, lambda c1, c2: Implies(c1 < c2, off[c1] < off[c2])),
               bin_chrom_flat(nchrom, off, chrom))
