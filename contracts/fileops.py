"""Contracts for file-level operations (C15): fileops._copy over a ghost operation log.

h5py is replaced by a recording model (ASSUMED: `f[a] = f[b]` creates a hard link, `del f[a]` unlinks,
`f.copy(a, dst, name)` deep-copies, SoftLink/ExternalLink create links, mode "w" truncates, "r+"/"r"
preserve).  The contract is a FRAME condition on the recorded operations derived from the property:
what may be written, what may be deleted, when the destination file may be truncated."""
from pyvc.api import *  # noqa: F401,F403
from contracts.common import *  # noqa: F401,F403

FOP = "cooler.fileops"
CHILDREN = ["chroms", "bins", "pixels", "indexes"]


class _Node:
    def __init__(self, f, path):
        self.f, self.path = f, path

    def pyvc_getattr(self, I, attr, node):
        from pyvc.values import LibFunc
        if attr == "keys":
            return LibFunc("Group.keys", lambda I: list(CHILDREN))
        if attr == "attrs":
            return _Attrs(self)
        raise Exception("Group." + attr)


class _Attrs:
    def __init__(self, node):
        self.node = node

    def pyvc_getattr(self, I, attr, node):
        from pyvc.values import LibFunc
        if attr == "update":
            def upd(I, other):
                self.node.f.log.append(("attrs.update", self.node.f.role, self.node.path, other.node.f.role, other.node.path))
            return LibFunc("attrs.update", upd)
        raise Exception("attrs." + attr)


class _File:
    def __init__(self, log, role, path, mode):
        self.log, self.role, self.path, self.mode = log, role, path, mode

    def pyvc_enter(self, I):
        return self

    def pyvc_exit(self, I, exc):
        self.log.append(("close", self.role))

    def pyvc_getitem(self, I, key, node):
        return _Node(self, key)

    def pyvc_setitem(self, I, key, val):
        if isinstance(val, _Node):
            self.log.append(("hardlink", self.role, key, val.f.role, val.path))
        elif isinstance(val, tuple) and val[0] == "SoftLink":
            self.log.append(("softlink", self.role, key, val[1]))
        elif isinstance(val, tuple) and val[0] == "ExternalLink":
            self.log.append(("externallink", self.role, key, val[1], val[2]))
        else:
            raise Exception("unexpected value stored into an h5py file")

    def pyvc_delitem(self, I, key):
        self.log.append(("delete", self.role, key))

    def pyvc_getattr(self, I, attr, node):
        from pyvc.values import LibFunc
        if attr == "copy":
            def cp(I, source, dest, name=None):
                if isinstance(dest, _File):
                    self.log.append(("copy", self.role, source, dest.role, name))
                else:
                    self.log.append(("copy", self.role, source, self.role, dest))
            return LibFunc("File.copy", cp)
        raise Exception("File." + attr)


@contract
class Copy(Contract):
    target = f"{FOP}:_copy"
    props = ["C15"]
    not_assumed = ("a-cross-file-move-removes-the-source",)   # known finding: never assumed by callers

    def configs(self, v):
        from pyvc.values import LibFunc, LibNS

        def f(v):
            log = []
            opened = []
            sp, sg, dp, dg = v.Str("src_path"), v.Str("src_group"), v.Str("dst_path"), v.Str("dst_group")
            exists = v.Bool("dst_file_exists")

            def File(I, path, mode="r", **k):
                role = "src" if not opened else "dst"
                fobj = _File(log, role, path, mode)
                opened.append(fobj)
                log.append(("open", role, path, mode))
                return fobj
            h5 = LibNS("h5py", {"File": LibFunc("h5py.File", File),
                                "SoftLink": LibFunc("h5py.SoftLink", lambda I, p: ("SoftLink", p)),
                                "ExternalLink": LibFunc("h5py.ExternalLink", lambda I, fn, p: ("ExternalLink", fn, p))})
            osns = LibNS("os", {"path": LibNS("os.path", {"isfile": LibFunc("os.path.isfile", lambda I, p: exists)})})

            def parse(I, uri):
                return (sp, sg) if uri is su else (dp, dg)
            su, du = v.Str("src_uri"), v.Str("dst_uri")
            return dict(src_uri=su, dst_uri=du, overwrite=v.Bool("overwrite"), link=v.Bool("link"), rename=v.Bool("rename"),
                        soft_link=v.Bool("soft_link"),
                        __free__={"h5py": h5, "os": osns, "parse_cooler_uri": LibFunc("parse_cooler_uri", parse)},
                        __ghost__={"log": log, "sp": sp, "sg": sg, "dp": dp, "dg": dg, "exists": exists})
        yield "", f

    def _g(self):
        return self._v.path.ghost

    def requires(self, **a):
        g = self._g()
        # group paths returned by parse_cooler_uri start with "/" (its contract)
        return [z3.PrefixOf(z3.StringVal("/"), g["sg"]), z3.PrefixOf(z3.StringVal("/"), g["dg"])]

    def _many(self, link, rename, soft_link):
        return If(link, 1, 0) + If(rename, 1, 0) + If(soft_link, 1, 0) > 1

    @property
    def raises(self):
        def verr(link=None, rename=None, soft_link=None, **kw):
            return self._many(link, rename, soft_link)

        def oserr(link=None, rename=None, soft_link=None, **kw):
            g = self._g()
            return And(Not(self._many(link, rename, soft_link)), g["sp"] != g["dp"], link)
        return {"ValueError": verr, "OSError": oserr}

    def ensures_raise(self, exc, **a):
        # a refused operation must not have modified anything
        log = self._g()["log"]
        writes = [op for op in log if op[0] in ("hardlink", "softlink", "externallink", "delete", "copy", "attrs.update")]
        return {"nothing-written-before-refusing": len(writes) == 0}

    def ensures(self, result, src_uri, dst_uri, overwrite, link, rename, soft_link):
        g = self._g()
        log, sp, sg, dp, dg, exists = g["log"], g["sp"], g["sg"], g["dp"], g["dg"], g["exists"]
        opens = [op for op in log if op[0] == "open"]
        out = {"two-handles": len(opens) == 2}
        if len(opens) != 2:
            return out
        same = sp == dp
        (_, _, p_src, m_src), (_, _, p_dst, m_dst) = opens
        # when the destination FILE may be replaced: only if it does not exist yet or overwrite was asked
        out["destination-file-truncated-only-if-absent-or-overwrite"] = Iff(m_dst == "w", Or(Not(exists), overwrite)) \
            if not isinstance(m_dst, str) else (Iff(True, Or(Not(exists), overwrite)) if m_dst == "w" else
                                               (Not(Or(Not(exists), overwrite)) if m_dst == "r+" else False))
        out["source-never-truncated"] = m_src in ("r", "r+", "a")
        # a same-file operation has to be able to write through the source handle
        out["same-file-source-handle-writable"] = (Implies(same, m_src != "r") if not isinstance(m_src, str)
                                                  else (Not(same) if m_src == "r" else True))
        out["paths"] = And(p_src == sp, p_dst == dp)
        dels = [op for op in log if op[0] == "delete"]
        # source gone only for move: the only thing ever deleted is the source group, and only when renaming
        out["only-a-move-deletes-and-only-the-source"] = And(*[And(rename, op[2] == sg) for op in dels]) if dels else True
        out["a-same-file-move-removes-the-source"] = Implies(And(rename, same), len(dels) == 1)
        # the property says "within a file or across files"; the cross-file half is a recorded finding
        out["a-cross-file-move-removes-the-source"] = Implies(And(rename, Not(same)), len(dels) == 1)
        writes = [op for op in log if op[0] in ("hardlink", "softlink", "externallink", "copy", "attrs.update")]
        out["something-is-created"] = len(writes) >= 1
        # frame: every write creates dst_group (or, for a root destination across files, its children / attributes)
        ok = []
        for op in writes:
            if op[0] == "hardlink":
                ok.append(And(op[2] == dg, op[4] == sg, same, Or(link, rename)))
            elif op[0] == "softlink":
                ok.append(And(op[2] == dg, op[3] == sg, same, soft_link))
            elif op[0] == "externallink":
                ok.append(And(op[2] == dg, op[3] == sp, op[4] == sg, Not(same), soft_link))
            elif op[0] == "copy":
                _, srole, source, drole, name = op
                whole = And(source == sg, name == dg)
                child = False
                if isinstance(name, str) and name in CHILDREN:
                    child = And(dg == "/", Not(same), source == z3.Concat(sg, z3.StringVal("/" + name)))
                # copies read from the source handle and land in the destination FILE
                target_ok = Not(same) if drole == "dst" else same
                ok.append(And(srole == "src", Not(link), Not(soft_link), Implies(same, Not(rename)), Or(whole, child), target_ok))
            elif op[0] == "attrs.update":
                ok.append(And(op[2] == dg, op[4] == sg, dg == "/", Not(same)))
        out["writes-touch-only-the-destination-group"] = And(*ok) if ok else False
        # a root destination across files receives every child and the attributes
        copies = [op for op in writes if op[0] == "copy"]
        out["root-destination-gets-all-children-and-attrs"] = Implies(
            And(Not(same), dg == "/", Not(link), Not(soft_link)),
            And(len(copies) == len(CHILDREN), any(op[0] == "attrs.update" for op in writes)))
        return out


# ---------------------------------------------------------------------------------------------
# recognition test

MAGIC_ = "HDF5::Cooler"


class _AttrsFmt:
    def __init__(self, fmt):
        self.fmt = fmt

    def pyvc_getattr(self, I, attr, node):
        from pyvc.values import LibFunc
        if attr == "get":
            return LibFunc("attrs.get", lambda I, key, default=None: self.fmt if key == "format" else default)
        raise Exception("attrs." + attr)


class _GrpFmt:
    """a group seen through its `format` attribute (None when absent) and the names of its children"""

    def __init__(self, fmt, children, name="/x"):
        self.attrs, self.children, self.name = _AttrsFmt(fmt), children, name

    def pyvc_getattr(self, I, attr, node):
        from pyvc.values import LibFunc
        if attr == "attrs":
            return self.attrs
        if attr == "keys":
            return LibFunc("Group.keys", lambda I: list(self.children))
        if attr == "name":
            return self.name
        raise Exception("Group." + attr)


@contract
class IsCoolerGroup(Contract):
    """a group is a collection iff its `format` attribute is the cooler magic string (a missing table only warns)"""
    target = f"{FOP}:_is_cooler"
    props = ["C15"]
    inline = True

    def configs(self, v):
        def mk(has_fmt, children):
            def f(v):
                fmt = v.Str("format") if has_fmt else None
                return dict(grp=_GrpFmt(fmt, children), __ghost__={"fmt": fmt})
            return f
        yield "format-attribute,all-tables", mk(True, ["chroms", "bins", "pixels", "indexes"])
        yield "format-attribute,table-missing", mk(True, ["chroms", "bins"])
        yield "no-format-attribute", mk(False, ["chroms", "bins", "pixels", "indexes"])

    def ensures(self, result, grp):
        fmt = self._v.path.ghost["fmt"]
        if fmt is None:
            return {"not-a-collection-without-the-format-attribute": result is False}
        return {"true-iff-the-format-is-the-cooler-magic": Iff(result, fmt == z3.StringVal(MAGIC_)) if not isinstance(result, bool)
                else (fmt == z3.StringVal(MAGIC_) if result else fmt != z3.StringVal(MAGIC_))}


@contract
class IsCooler(Contract):
    """is_cooler(uri) is true exactly when the file is HDF5, the group path resolves, and the group carries the cooler
    format; for a non-HDF5 file, a missing path or a dangling link it is False - never an error; the file is opened
    read-only"""
    target = f"{FOP}:is_cooler"
    props = ["C15"]

    def configs(self, v):
        from pyvc.values import LibFunc, LibNS, ExcVal, PyRaise

        def f(v):
            log = []
            is_h5, exists = v.Bool("is_hdf5"), v.Bool("path_resolves")
            fmt = v.Str("format")
            fp, gp = v.Str("filepath"), v.Str("grouppath")

            class _F:
                def pyvc_enter(self, I):
                    return self

                def pyvc_exit(self, I, exc):
                    log.append(("close",))

                def pyvc_getitem(self, I, key, node):
                    log.append(("lookup", key))
                    if I.path.branch(exists):
                        return _GrpFmt(fmt, ["chroms", "bins", "pixels", "indexes"])
                    raise PyRaise(ExcVal("KeyError", ("no such path or dangling link",)))

            def File(I, path, mode="r", **k):
                log.append(("open", path, mode))
                return _F()
            h5 = LibNS("h5py", {"is_hdf5": LibFunc("h5py.is_hdf5", lambda I, p: is_h5), "File": LibFunc("h5py.File", File)})
            return dict(uri=v.Str("uri"), __free__={"h5py": h5, "parse_cooler_uri": LibFunc("parse_cooler_uri", lambda I, u: (fp, gp))},
                        __ghost__={"log": log, "is_h5": is_h5, "exists": exists, "fmt": fmt, "fp": fp, "gp": gp})
        yield "", f

    def ensures(self, result, uri):
        g = self._v.path.ghost
        want = And(g["is_h5"], g["exists"], g["fmt"] == z3.StringVal(MAGIC_))
        out = {"true-exactly-for-collections": Iff(result, want) if not isinstance(result, bool) else (want if result else Not(want))}
        opens = [op for op in g["log"] if op[0] == "open"]
        out["read-only"] = all(op[2] == "r" for op in opens) and all(op[1] is g["fp"] for op in opens)
        out["looks-up-the-uris-group"] = all(op[1] is g["gp"] for op in g["log"] if op[0] == "lookup")
        return out
