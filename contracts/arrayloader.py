"""Contract for create._ingest:ArrayLoader.__iter__ (C01): the dense-array loader yields, for EVERY matrix size, chunk size and
content, one chunk per row span of the partition (util.partition: own contract, applied modularly), and the chunk of span
[lo, hi) lists EXACTLY the non-zero cells (r, c) of the upper triangle with lo <= r < hi, r <= c, each once, in row-major
(storage) order, with its value.

ASSUMED: numpy.nonzero of a 2-D block returns the coordinates of exactly its non-zero cells in row-major order (stated below with
Skolem functions), 2-D slicing `A[lo:hi, :]` and pairwise fancy indexing `X[i, j]`; boolean-mask indexing (pyvc/lib_numpy.py)."""
from pyvc.api import *  # noqa: F401,F403
from pyvc.values import LibFunc, LibNS
from contracts.common import *  # noqa: F401,F403

ING = "cooler.create._ingest"


class _Block:
    """A[lo:hi, :] of an n x n integer matrix given by the function cell(r, c)"""

    def __init__(self, cell, lo, hi, n):
        self.cell, self.lo, self.hi, self.n = cell, lo, hi, n

    def pyvc_getitem(self, I, key, node):
        if isinstance(key, tuple) and len(key) == 2 and all(isinstance(k, Arr) for k in key):
            i, j = key
            I.path.oblige("shape", f"pairwise-index-lengths#{I.path.ordinal('pairidx')}", i.n == j.n)
            I.path.oblige("bounds", f"pairwise-index-in-block#{I.path.ordinal('pairidx')}", forall(
                0, i.n, lambda t: And(0 <= i.at(t), i.at(t) < self.hi - self.lo, 0 <= j.at(t), j.at(t) < self.n)))
            return Arr(i.n, lambda t: self.cell(self.lo + i.at(t), j.at(t)), "int")
        raise Exception("block subscript outside the model")


class _Dense:
    def __init__(self, cell, n):
        self.cell, self.n = cell, n

    def pyvc_getattr(self, I, attr, node):
        if attr == "shape":
            return (self.n, self.n)
        raise Exception("array." + attr)

    def pyvc_getitem(self, I, key, node):
        if isinstance(key, tuple) and len(key) == 2 and isinstance(key[0], SliceV) and isinstance(key[1], SliceV) \
                and key[1].start is None and key[1].stop is None:
            lo, hi = key[0].start, key[0].stop
            I.path.oblige("bounds", f"row-span-inside-the-matrix#{I.path.ordinal('rowspan')}", And(0 <= lo, lo <= hi, hi <= self.n))
            return _Block(self.cell, lo, hi, self.n)
        raise Exception("array subscript outside the model")


@contract
class ArrayLoaderIter(Contract):
    target = f"{ING}:ArrayLoader.__iter__"
    props = ["C01"]

    def configs(self, v):
        def f(v):
            n = v.Int("n_bins")
            cell = v.Fn("A", "int", "int", "int")
            w = {"n": n, "cell": cell, "nz": []}

            def nonzero(I, X):
                p = I.path
                o = len(w["nz"])
                i = p.fresh_arr(f"nz{o}.i", "int")
                j = p.fresh_arr(f"nz{o}.j", "int", n=i.n)
                pos = z3.Function(p.fresh_name(f"nz{o}.pos"), z3.IntSort(), z3.IntSort(), z3.IntSort())
                rows = X.hi - X.lo
                p.assume(i.n >= 0)
                p.assume(forall(0, i.n, lambda t: And(0 <= i.at(t), i.at(t) < rows, 0 <= j.at(t), j.at(t) < X.n,
                                                      cell(X.lo + i.at(t), j.at(t)) != 0, pos(i.at(t), j.at(t)) == t)))
                p.assume(forall2(0, i.n, 0, i.n, lambda t1, t2: Implies(t1 < t2, Or(i.at(t1) < i.at(t2), And(i.at(t1) == i.at(t2), j.at(t1) < j.at(t2))))))
                r_, c_ = z3.Int(p.fresh_name("nzr")), z3.Int(p.fresh_name("nzc"))
                p.assume(z3.ForAll([r_, c_], Implies(And(0 <= r_, r_ < rows, 0 <= c_, c_ < X.n, cell(X.lo + r_, c_) != 0),
                                                     And(0 <= pos(r_, c_), pos(r_, c_) < i.n, i.at(pos(r_, c_)) == r_, j.at(pos(r_, c_)) == c_))))
                w["nz"].append((X, i, j, pos))
                return (i, j)
            np_ns = v.path.engine.lib["numpy"]
            np2 = LibNS("numpy", dict(np_ns._members, nonzero=LibFunc("np.nonzero (2-D, assumed)", nonzero)))
            slf = v.Obj("ArrayLoader", ING, array=_Dense(cell, n), chunksize=v.Int("chunksize"))
            return dict(self=slf, __free__={"np": np2}, __ghost__=w)
        yield "", f

    def requires(self, self_):
        w = self._v.path.ghost
        return [w["n"] >= 0, self_.attrs["chunksize"] >= 1]

    def _inv(self, S):
        return {"span-in-range": And(0 <= S.it, S.it <= S.count)}

    def _ghost_step(self, S, I):
        """the chunk just yielded for the span (lo, hi)"""
        w = self._v.path.ghost
        n, cell = w["n"], w["cell"]
        p = I.path
        d = I.frames[-1].yields[-1]
        lo, hi = S.lo, S.hi
        ok = isinstance(d, dict) and list(d.keys()) == ["bin1_id", "bin2_id", "count"]
        p.oblige("post", "chunk:three-columns", ok)
        if not ok:
            return
        b1, b2, ct = d["bin1_id"], d["bin2_id"], d["count"]
        L_ = b1.n
        p.oblige("post", "chunk:columns-of-one-length", And(b2.n == L_, ct.n == L_))
        p.oblige("post", "chunk:every-record-is-a-nonzero-upper-cell-of-its-span-with-its-value", forall(
            0, L_, lambda t: And(lo <= b1.at(t), b1.at(t) < hi, b1.at(t) <= b2.at(t), b2.at(t) < n,
                                 ct.at(t) == cell(b1.at(t), b2.at(t)), ct.at(t) != 0)))
        p.oblige("post", "chunk:row-major-order-no-cell-twice", forall2(
            0, L_, 0, L_, lambda t1, t2: Implies(t1 < t2, Or(b1.at(t1) < b1.at(t2), And(b1.at(t1) == b1.at(t2), b2.at(t1) < b2.at(t2))))))
        # completeness, with the witnesses the assumed contracts provide: cell (r, c) is at position rank(pos(r - lo, c))
        X, i, j, pos = w["nz"][-1]
        mask = S.mask
        flt = getattr(mask, "_filter", None)
        p.oblige("post", "chunk:built-from-the-nonzero-cells-of-this-span-by-one-mask", flt is not None and X.lo is lo and X.hi is hi)
        if flt is None:
            return
        m, src, rank = flt
        r_, c_ = z3.Int(p.fresh_name("cr")), z3.Int(p.fresh_name("cc"))
        t_ = rank(pos(r_ - lo, c_))
        p.oblige("post", "chunk:every-nonzero-upper-cell-of-the-span-is-listed", z3.ForAll([r_, c_], Implies(
            And(lo <= r_, r_ < hi, r_ <= c_, c_ < n, cell(r_, c_) != 0),
            And(0 <= t_, t_ < L_, b1.at(t_) == r_, b2.at(t_) == c_))))

    @property
    def loops(self):
        return {0: LoopSpec(self._inv, ghost_step=self._ghost_step)}

    def ensures(self, result, ghost, self_):
        return {"a-generator": True}
