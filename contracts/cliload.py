"""Coordinator contract for `cooler load` (cli.load:load; C16, C05): how the columns of the text file are mapped.

`--field` options, format, copy status and flags are concrete per configuration (a family of layouts: defaults, value column
moved, ids swapped / moved, extra value columns with dtypes, bg2 with a moved count); paths, chunk sizes and option values are
symbolic/opaque.  parse_field_param is executed inline from its real source; every other call is a recording stub.
Verified, for every configuration:
  * pandas reads exactly one file column per input field, and the NAME attached to file column c is the field the user (or the
    format's default) put at column c - pandas attaches `names` to the selected columns in ascending file order, whatever the
    order of `usecols` (assumed contract of read_csv, stated in the ensures);
  * the stored columns are the two ids followed by the value columns in the order given, each with the user's dtype or the
    default; count is implicit iff no --field is given; --count-as-float overrides the count dtype;
  * the sanitizer is the one for the format, built on the parsed bin table with the one-based flag and with reflect / drop / no
    triangle handling according to copy status and symmetry; every chunk of the reader goes through it into
    create_from_unordered with the caller's paths and options, mode a iff --append else w, triangle check iff symmetric.
ASSUMED: parse_bins (C20, own bounded contract), sanitize_records / sanitize_pixels (factories of the functions under their own
contracts), pandas.read_csv, create_from_unordered (own contract), numpy.dtype."""
from pyvc.api import *  # noqa: F401,F403
from pyvc.values import LibFunc, LibNS
from contracts.common import *  # noqa: F401,F403

LOAD = "cooler.cli.load"

BG2_DEFAULT = {"chrom1": 0, "start1": 1, "end1": 2, "chrom2": 3, "start2": 4, "end2": 5, "count": 6}
COO_DEFAULT = {"bin1_id": 0, "bin2_id": 1, "count": 2}


def _parse_field(arg):
    """the documented meaning of NAME[=NUMBER][:dtype=T] (numbers are one-based on the command line)"""
    prefix, _, props = arg.partition(":")
    name, _, num = prefix.partition("=")
    dtype = props.split("=", 1)[1] if props.startswith("dtype=") else None
    return name, (int(num) - 1 if num else None), dtype


@contract
class CliLoad(Contract):
    target = f"{LOAD}:load"
    props = ["C16", "C05"]
    raises_exact = False

    def configs(self, v):
        def mk(fmt, field, copy_status="unique", no_symm=False, count_as_float=False, append=False):
            def f(v):
                log = []
                bins = Opaque("bin table from parse_bins")
                w = {"log": log, "bins": bins, "fmt": fmt, "field": field}

                def rec(name, ret=None):
                    def r(I, *a, **k):
                        out = ret if ret is not None else Opaque("result of " + name)
                        log.append((name, a, k, out))
                        return out
                    return LibFunc(name, r)
                reader = Opaque("chunk reader")
                np_ns = v.path.engine.lib["numpy"]
                np2 = LibNS("numpy", dict(np_ns._members, dtype=LibFunc("np.dtype", lambda I, t: ("dtype", t)), float64="float64"))
                one_based = v.Bool("one_based")
                sym = {"chunksize": v.Int("chunksize"), "mergebuf": v.Int("mergebuf"), "max_merge": v.Int("max_merge"),
                       "cool_path": v.Str("cool_path"), "pixels_path": v.Str("pixels_path"), "assembly": Opaque("assembly"),
                       "temp_dir": Opaque("temp_dir"), "comment_char": Opaque("comment_char"), "no_delete_temp": v.Bool("no_delete_temp")}
                w.update(sym=sym, one_based=one_based, reader=reader, copy_status=copy_status, no_symm=no_symm,
                         count_as_float=count_as_float, append=append)
                free = {"get_logger": LibFunc("get_logger", lambda I, n: Opaque("logger")),
                        "parse_bins": LibFunc("parse_bins", lambda I, p: (Opaque("chromsizes"), bins)),
                        "sanitize_records": rec("sanitize_records"), "sanitize_pixels": rec("sanitize_pixels"),
                        "pd": LibNS("pd", {"read_csv": rec("read_csv", reader)}),
                        "create_from_unordered": rec("create_from_unordered"),
                        "np": np2, "BIN_DTYPE": "int64", "COUNT_DTYPE": "int32",
                        "map": LibFunc("map", lambda I, fn, it: ("map", fn, it)),
                        "sys": LibNS("sys", {"stdin": Opaque("stdin")})}
                return dict(bins_path=v.Str("bins_path"), pixels_path=sym["pixels_path"], cool_path=sym["cool_path"], format=fmt,
                            metadata=None, assembly=sym["assembly"], field=tuple(field), count_as_float=count_as_float,
                            one_based=one_based, comment_char=sym["comment_char"], input_copy_status=copy_status,
                            no_symmetric_upper=no_symm, chunksize=sym["chunksize"], mergebuf=sym["mergebuf"], max_merge=sym["max_merge"],
                            temp_dir=sym["temp_dir"], no_delete_temp=sym["no_delete_temp"], storage_options=None, append=append,
                            kwargs={}, __free__=free, __ghost__=dict(w, __free_deep__=True))
            return f
        yield "coo,defaults", mk("coo", [])
        yield "coo,count-moved", mk("coo", ["count=4"])
        yield "coo,ids-swapped", mk("coo", ["bin1_id=2", "bin2_id=1", "count=3"], no_symm=True)
        yield "coo,ids-moved-right,count-first", mk("coo", ["count=1", "bin1_id=3", "bin2_id=4"], copy_status="duplex")
        yield "coo,extra-columns-with-dtypes", mk("coo", ["count=3:dtype=float64", "score=5:dtype=float32", "n=4"], append=True)
        yield "coo,count-dtype-only,float-flag", mk("coo", ["count:dtype=int64"], count_as_float=True)
        yield "bg2,defaults", mk("bg2", [], copy_status="duplex")
        yield "bg2,count-moved,extra", mk("bg2", ["count=9", "score=8:dtype=float64"])
        yield "bg2,defaults,square", mk("bg2", [], no_symm=True, copy_status="unique")

    def ensures(self, result, **a):
        w = self._v.path.ghost
        log, fmt, field, sym = w["log"], w["fmt"], w["field"], w["sym"]
        o = {}
        # ---- what the options mean
        default = dict(COO_DEFAULT if fmt == "coo" else BG2_DEFAULT)
        ids = ["bin1_id", "bin2_id"] if fmt == "coo" else ["chrom1", "start1", "end1", "chrom2", "start2", "end2"]
        number = {k: default[k] for k in ids}
        in_names = list(ids)
        out_names = ["bin1_id", "bin2_id"]
        out_dtypes = {"bin1_id": "int64", "bin2_id": "int64", "count": "int32"}
        if not field:
            in_names.append("count")
            out_names.append("count")
            number["count"] = default["count"]
        for arg in field:
            name, col, dt = _parse_field(arg)
            if col is None:
                if name == "count" and dt is not None:
                    in_names.append("count")
                    out_names.append("count")
                    number["count"] = default["count"]
                    out_dtypes["count"] = ("dtype", dt)
                continue
            if name not in in_names:
                in_names.append(name)
            if name not in out_names:
                out_names.append(name)
            number[name] = col
            if dt is not None:
                out_dtypes[name] = ("dtype", dt)
        if "count" in in_names and w["count_as_float"]:
            out_dtypes["count"] = "float64"
        # ---- the reader
        reads = [e for e in log if e[0] == "read_csv"]
        o["one-reader"] = len(reads) == 1
        if len(reads) == 1:
            _, ra, rk, _ = reads[0]
            use, names = list(rk.get("usecols") or []), list(rk.get("names") or [])
            o["reader:one-file-column-per-input-field-none-twice"] = sorted(names) == sorted(in_names) and len(use) == len(names) \
                and len(set(use)) == len(use)
            if len(use) == len(names) and len(set(use)) == len(use) and set(names) == set(in_names):
                attached = dict(zip(names, sorted(use)))      # pandas: names go to the selected columns in ascending file order
                o["reader:each-field-is-read-from-the-column-the-user-or-the-format-put-it-at"] = attached == {n: number[n] for n in in_names}
            o["reader:the-callers-file-separator-comment-and-chunk-size"] = (ra[0] is sym["pixels_path"] or (isinstance(ra[0], Opaque) and ra[0].tag == "stdin")) and rk.get("sep") == "\t" \
                and rk.get("comment") is sym["comment_char"] and rk.get("chunksize") is sym["chunksize"] and rk.get("iterator") is True
            dt = rk.get("dtype") or {}
            o["reader:value-dtypes-as-requested"] = all(dt.get(n) == out_dtypes[n] for n in out_names if n in dt and n in out_dtypes and n not in ("bin1_id", "bin2_id"))
        # ---- the sanitizer
        want_fn = "sanitize_pixels" if fmt == "coo" else "sanitize_records"
        san = [e for e in log if e[0] in ("sanitize_pixels", "sanitize_records")]
        o["one-sanitizer-of-the-formats-kind"] = len(san) == 1 and san[0][0] == want_fn
        symm = not w["no_symm"]
        tril = None if not symm else {"unique": "reflect", "duplex": "drop"}.get(w["copy_status"])
        if len(san) == 1:
            _, sa, sk, pipeline = san[0]
            o["sanitizer:on-the-parsed-bins-with-the-one-based-flag-and-triangle-handling"] = sa[0] is w["bins"] \
                and sk.get("is_one_based") is w["one_based"] and sk.get("tril_action") == tril and sk.get("sort") is True \
                and (fmt == "coo" or sk.get("schema") == "bg2")
        # ---- the ingest
        cr = [e for e in log if e[0] == "create_from_unordered"]
        o["one-ingest"] = len(cr) == 1
        if len(cr) == 1 and len(san) == 1 and len(reads) == 1:
            _, ca, ck, _ = cr[0]
            o["ingest:into-the-callers-path-with-the-parsed-bins"] = ca[0] is sym["cool_path"] and ca[1] is w["bins"]
            o["ingest:every-chunk-of-the-reader-through-the-sanitizer"] = isinstance(ca[2], tuple) and ca[2][0] == "map" \
                and ca[2][1] is san[0][3] and ca[2][2] is w["reader"]
            o["ingest:stored-columns-ids-then-the-value-columns-in-the-order-given"] = list(ck.get("columns") or []) == out_names
            dts = ck.get("dtypes") or {}
            o["ingest:dtypes-users-or-default"] = all(dts.get(n) == out_dtypes.get(n) for n in out_names if n in out_dtypes)
            o["ingest:symmetry-mode-and-options"] = ck.get("symmetric_upper") is symm and ck.get("triucheck") is symm \
                and ck.get("mode") == ("a" if w["append"] else "w") and ck.get("mergebuf") is sym["mergebuf"] \
                and ck.get("max_merge") is sym["max_merge"] and ck.get("temp_dir") is sym["temp_dir"] and ck.get("assembly") is sym["assembly"] \
                and ck.get("ensure_sorted") is False
            ndt = sym["no_delete_temp"]
            dtv = ck.get("delete_temp")
            o["ingest:temporary-files-deleted-unless-asked-to-keep"] = Iff(dtv, Not(ndt)) if is_sym(dtv) else False
        return o
