"""Coordinator contracts for the sanitizer factories create._ingest:sanitize_records / sanitize_pixels (C05): the link between the
loaders (which choose schema and options: contracts/cliload.py, clicload.py) and the per-chunk functions (_sanitize_pixels: own
contract; _sanitize_records: bounded tier).  The function returned is the per-chunk sanitizer of that kind with exactly the
schema's preset overridden by the caller's options, on a genome segmentation built from the lengths inferred from the SAME bin
table; the presets mirror every sided field of the schema (pairs: chromosome and position; bg2: chromosome, start AND end) and
take the position (pairs) / the start coordinate (bg2) as anchor, zero-based, reflecting by default, validating; an unknown
schema is refused.  ASSUMED: functools.partial, get_chromsizes (own contract), GenomeSegmentation (recorded)."""
from pyvc.api import *  # noqa: F401,F403
from pyvc.values import LibFunc, Partial, Closure
from contracts.common import *  # noqa: F401,F403

ING = "cooler.create._ingest"
WANT = {
    "pairs": dict(decode_chroms=True, is_one_based=False, tril_action="reflect", chrom_field="chrom", anchor_field="pos",
                  sided_fields=("chrom", "pos"), suffixes=("1", "2"), validate=True),
    "bg2": dict(decode_chroms=True, is_one_based=False, tril_action="reflect", chrom_field="chrom", anchor_field="start",
                sided_fields=("chrom", "start", "end"), suffixes=("1", "2"), validate=True),
}


class _FactoryBase(Contract):
    props = ["C05"]
    inner = None

    def _mk(self, schema, overrides):
        def f(v):
            log = []
            bins = Opaque("bin table")
            ov = {k: (v.Bool(k) if val == "sym" else val) for k, val in overrides.items()}
            free = {"get_chromsizes": LibFunc("get_chromsizes", lambda I, b: (log.append(("get_chromsizes", b)), ("chromsizes-of", b))[1]),
                    "GenomeSegmentation": LibFunc("GenomeSegmentation", lambda I, cs, b: ("gs", cs, b))}
            d = dict(bins=bins, kwargs=dict(ov), __free__=free, __ghost__={"bins": bins, "ov": ov, "schema": schema, "log": log})
            if self.inner == "_sanitize_records":
                d["schema"] = schema
            return d
        return f

    def _common(self, result):
        g = self._v.path.ghost
        o = {"returns-the-per-chunk-sanitizer-of-this-kind-partially-applied": isinstance(result, Partial) and
             isinstance(result.func, Closure) and result.func.qualname == self.inner and not result.args}
        if not o["returns-the-per-chunk-sanitizer-of-this-kind-partially-applied"]:
            return o, None
        kw = dict(result.kwargs)
        gs = kw.pop("gs", None)
        o["segmentation-built-from-the-lengths-of-the-same-bin-table"] = gs == ("gs", ("chromsizes-of", g["bins"]), g["bins"]) \
            and gs[2] is g["bins"] and gs[1][1] is g["bins"]
        return o, kw


@contract
class SanitizeRecordsFactory(_FactoryBase):
    target = f"{ING}:sanitize_records"
    inner = "_sanitize_records"

    def configs(self, v):
        yield "pairs,defaults", self._mk("pairs", {})
        yield "pairs,overrides", self._mk("pairs", {"is_one_based": "sym", "tril_action": "drop", "sort": True})
        yield "bg2,defaults", self._mk("bg2", {})
        yield "bg2,overrides", self._mk("bg2", {"is_one_based": "sym", "tril_action": None})
        yield "unknown-schema", self._mk("bedpe", {})
        yield "no-schema", self._mk(None, {"decode_chroms": False, "is_one_based": False, "tril_action": "raise", "chrom_field": "chrom",
                                           "anchor_field": "pos", "sided_fields": ("chrom", "pos"), "suffixes": ("1", "2"), "sort": False,
                                           "validate": True})

    @property
    def raises(self):
        return {"ValueError": lambda **a: self._v.path.ghost["schema"] not in ("pairs", "bg2", None)}

    def ensures(self, result, bins, schema=None, kwargs=None):
        g = self._v.path.ghost
        o, kw = self._common(result)
        if kw is None:
            return o
        want = dict(WANT.get(schema, {}))
        for k, val in g["ov"].items():
            want[k] = val
        got = {k: val for k, val in kw.items() if k != "sort"}
        exp = {k: val for k, val in want.items() if k != "sort"}
        o["schema-preset-overridden-by-the-callers-options"] = set(got) == set(exp) and all(
            (got[k] is exp[k]) or (not is_sym(exp[k]) and got[k] == exp[k]) for k in exp)
        if "sort" in g["ov"]:
            o["callers-sort-option"] = kw.get("sort") is g["ov"]["sort"] or kw.get("sort") == g["ov"]["sort"]
        if schema in WANT:
            sf = kw.get("sided_fields") or ()
            o["every-coordinate-of-the-schema-is-mirrored-with-its-record"] = set(WANT[schema]["sided_fields"]) <= set(sf)
        return o


@contract
class SanitizePixelsFactory(_FactoryBase):
    target = f"{ING}:sanitize_pixels"
    inner = "_sanitize_pixels"

    def configs(self, v):
        yield "defaults", self._mk(None, {})
        yield "options", self._mk(None, {"is_one_based": "sym", "tril_action": "reflect", "sort": True})

    def ensures(self, result, bins, kwargs=None):
        g = self._v.path.ghost
        o, kw = self._common(result)
        if kw is None:
            return o
        o["exactly-the-callers-options"] = set(kw) == set(g["ov"]) and all((kw[k] is val) or (not is_sym(val) and kw[k] == val)
                                                                           for k, val in g["ov"].items())
        return o
