"""Coordinator contract for create._create:create_scool (C17), for 1..3 cells with fixed distinct names given in
an insertion order different from the sorted order (cell names only steer ordering and the `/` rule; everything
else - paths, tables, counts, options - is symbolic or opaque).  Stubs as in contracts/createfn.py; create() itself
is the per-cell callee (own contract: contracts/createfn.py) and is recorded here."""
from pyvc.api import *  # noqa: F401,F403
from pyvc.values import LibFunc, LibNS
from contracts.common import *  # noqa: F401,F403
from contracts.createfn import _File, _Frame, _Grp, _ChromSizes, _rel, _under, _same

CR = "cooler.create._create"
STD = ["chrom", "start", "end"]


@contract
class CreateScool(Contract):
    """every cell given gets exactly one per-cell create() at <file>::/cells/<name> with ITS OWN pixel table and ITS OWN
    bin table, in append mode, linked to this file's root tables; the root group gets the common chroms and bins
    (three standard columns only) and a scool info record with ncells = number of cells given; the file is created
    with the caller's mode exactly once; a bins dict whose keys differ from the cell names is refused"""
    target = f"{CR}:create_scool"
    props = ["C17"]

    def configs(self, v):
        def mk(names, bins_form, mismatch=False):
            def f(v):
                log = []
                w = {"log": log, "exists": {}, "deleted": [], "group_exists": None, "opens": []}
                fp = v.Str("file_path")
                uri = v.Str("cool_uri")
                nb, nch = v.Int("n_bins"), v.Int("n_chroms")
                pix = {nm: Opaque(f"pixels of {nm}") for nm in names}
                if bins_form == "common":
                    bins = _Frame(STD + ["weight"], nb, "common bins")
                    per = None
                else:
                    per = {nm: _Frame(STD + ["weight"], nb, f"bins of {nm}") for nm in (names if not mismatch else names[:-1] + ["zz"])}
                    bins = per

                def File(I, path, mode="r", **k):
                    log.append(("open", "target", path, mode))
                    return _File(w, "target", path, mode)

                def rec(name, ret=None):
                    def f_(I, *a, **kw):
                        log.append((name, a, kw))
                        return ret
                    return LibFunc(name, f_)

                def DataFrame_ctor(I, data=None, columns=None, **k):
                    return _Frame(list(columns or []), nch, "chroms")
                DF = LibFunc("pd.DataFrame", DataFrame_ctor)
                DF.check = lambda x: isinstance(x, _Frame)
                free = {
                    "parse_cooler_uri": LibFunc("parse_cooler_uri", lambda I, u: (fp, "/")),
                    "_set_h5opts": LibFunc("_set_h5opts", lambda I, o: ("h5opts", o)),
                    "pd": LibNS("pd", {"DataFrame": DF}),
                    "h5py": LibNS("h5py", {"File": LibFunc("h5py.File", File)}),
                    "get_chromsizes": LibFunc("get_chromsizes", lambda I, b: _ChromSizes(b)),
                    "get_binsize": LibFunc("get_binsize", lambda I, b: None),
                    "write_chroms": rec("write_chroms"), "write_bins": rec("write_bins"), "write_info": rec("write_info"),
                    "create": rec("create"),
                    "PIXEL_DTYPES": {"bin1_id": "int64", "bin2_id": "int64", "count": "int32"},
                }
                w.update(fp=fp, uri=uri, names=names, pix=pix, bins=bins, per=per, nb=nb, nch=nch, mismatch=mismatch, form=bins_form)
                mode = Opaque("mode") if False else "w"
                return dict(cool_uri=uri, bins=bins, cell_name_pixels_dict=dict(pix), columns=None, dtypes=None,
                            metadata=None, assembly=None, ordered=False, symmetric_upper=v.Bool("symmetric_upper"), mode=mode,
                            kwargs={}, __free__=free, __ghost__=w)
            return f
        for names in (["b"], ["b", "a"], ["c", "a", "b"], ["x/b", "a"]):
            yield f"cells={'+'.join(names).replace('/', '|')},common-bins", mk(names, "common")
            yield f"cells={'+'.join(names).replace('/', '|')},per-cell-bins", mk(names, "per-cell")
        yield "per-cell-bins,keys-differ", mk(["b", "a"], "per-cell", True)

    def requires(self, **a):
        w = self._v.path.ghost
        return [w["nb"] >= 0, w["nch"] >= 0]

    @property
    def raises(self):
        return {"ValueError": lambda **a: self._v.path.ghost["mismatch"]}

    def ensures(self, result, cool_uri, bins, cell_name_pixels_dict, columns, dtypes, metadata, assembly, ordered, symmetric_upper,
                mode, kwargs):
        w = self._v.path.ghost
        log, names, uri = w["log"], w["names"], w["uri"]
        out = {}
        opens = [op for op in log if op[0] == "open"]
        out["file-created-with-the-callers-mode-once-then-r+"] = len(opens) >= 1 and opens[0][3] == mode and all(op[3] == "r+" for op in opens[1:]) \
            and all(op[2] is w["fp"] for op in opens)
        wc = [op for op in log if op[0] == "write_chroms"]
        wb = [op for op in log if op[0] == "write_bins"]
        wi = [op for op in log if op[0] == "write_info"]
        out["root-tables-written-once"] = len(wc) == 1 and len(wb) == 1 and len(wi) == 1
        if len(wb) == 1:
            fr = wb[0][1][1]
            first = w["bins"] if w["form"] == "common" else w["per"][next(iter(w["per"]))]
            out["root-bins-are-the-common-three-columns"] = isinstance(fr, _Frame) and _under(wb[0][1][0].path, "/") and _rel(wb[0][1][0].path) == "bins" \
                and fr.root() is first.root() and (w["form"] == "common" or fr.columns[:3] == STD)
        if len(wi) == 1:
            info, scool_flag = wi[0][1][1], (wi[0][1][2] if len(wi[0][1]) > 2 else wi[0][2].get("scool"))
            out["root-info-is-a-scool-record-with-the-number-of-cells"] = isinstance(info, dict) and scool_flag is True and \
                info.get("ncells") == len(names) and "nnz" not in info
            if isinstance(info, dict) and "nbins" in info:
                out["root-info-counts"] = And(info["nbins"] == w["nb"], info["nchroms"] == w["nch"])
        cr = [op for op in log if op[0] == "create"]
        out["one-create-per-cell"] = len(cr) == len(names)
        if len(cr) == len(names):
            want = sorted(names)
            for op, nm in zip(cr, want):
                a, kw = op[1], op[2]
                tag = nm.replace("/", "|")
                # the property: one collection per cell NAME (a name containing "/" is stored under its basename by the
                # code: recorded known finding, this clause is refuted for that configuration)
                ok_uri = is_string_concat(a[0], uri, "::/cells/" + nm)
                out[f"cell-{tag}:stored-under-/cells/<name>-of-this-file"] = ok_uri
                cell_bins = w["bins"] if w["form"] == "common" else w["per"][nm]
                out[f"cell-{tag}:its-own-bin-table"] = a[1] is cell_bins
                out[f"cell-{tag}:its-own-pixels"] = a[2] is w["pix"][nm]
                out[f"cell-{tag}:appended-and-linked-to-this-files-root"] = kw.get("mode") == "a" and kw.get("append_scool") is True \
                    and kw.get("scool_root_uri") is uri
                out[f"cell-{tag}:symmetry-flag-passed"] = kw.get("symmetric_upper") is symmetric_upper
            order = [op[0] for op in log]
            out["cells-after-the-root-tables"] = order.index("create") > max(order.index("write_chroms"), order.index("write_bins"), order.index("write_info"))
        return out


def is_string_concat(term, prefix, suffix):
    """term is the z3 string  prefix ++ suffix  (suffix concrete), possibly built in two steps"""
    try:
        want = z3.Concat(prefix, z3.StringVal(suffix))
        return z3.simplify(term == want)
    except Exception:
        return False
