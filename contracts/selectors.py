"""Sidecar contracts for cooler/core/_selectors.py"""
from pyvc.api import *  # noqa: F401,F403

M = "cooler.core._selectors"

inline_ok(f"{M}:_IndexingMixin._isintlike")


def py_slice_bound(x, n, default):
    """what slice(a, b).indices(n) gives for one bound (step 1): the array rule; a positive bound
    beyond n is left as it is (the dataset read clips it), which selects the same rows"""
    if x is None:
        return default
    return If(x < 0, Max(x + n, 0), x)


def in_quantifier(s, n):
    """the property quantifies over windows inside [0, n] and their negative / open spellings; an integer bound
    above n is outside it (the code passes it through unclipped, which the readers tolerate in different ways)"""
    r = []
    if isinstance(s, SliceV):
        for b in (s.start, s.stop):
            if b is not None:
                r.append(b <= n)
    return r


@contract
class ProcessSlice(Contract):
    """C03/C14: negative and open-ended bounds resolve as for arrays (for ALL integer bounds
    since fix 27816e5: negative bounds below -n clip to 0); a scalar selects the one-element
    range.  Positive bounds beyond n are passed through (h5py/array reads clip them)."""
    target = f"{M}:_IndexingMixin._process_slice"
    props = ["C03", "C14"]

    def configs(self, v):
        def mk(kind, a_none, b_none, step):
            def f(v):
                self_ = v.Obj("_IndexingMixin", M)
                n = v.Int("nmax")
                if kind == "slice":
                    a = None if a_none else v.Int("a")
                    b = None if b_none else v.Int("b")
                    st = {"none": None, "one": 1, "sym": v.Int("step")}[step]
                    return dict(self=self_, s=SliceV(a, b, st), nmax=n)
                if kind == "int":
                    return dict(self=self_, s=v.Int("s"), nmax=n)
                return dict(self=self_, s=None, nmax=n)
            return f
        for a_none in (False, True):
            for b_none in (False, True):
                for step in ("none", "one", "sym"):
                    yield f"slice,a={'None' if a_none else 'int'},b={'None' if b_none else 'int'},step={step}", \
                        mk("slice", a_none, b_none, step)
        yield "scalar", mk("int", 0, 0, 0)
        yield "none", mk("none", 0, 0, 0)

    def requires(self, self_=None, s=None, nmax=None, **kw):
        r = [nmax >= 0]
        r += in_quantifier(s, nmax)
        if not isinstance(s, SliceV) and s is not None:
            # a scalar below -nmax is not an index of the table (arrays raise IndexError; the code
            # returns a negative range): outside the property's quantifier
            r.append(s >= -nmax)
        return r

    def _is_slice(self, s):
        return isinstance(s, SliceV)

    raises = {
        "ValueError": lambda self_=None, s=None, nmax=None: (
            Not(Or(s.step == 1, s.step is None)) if isinstance(s, SliceV) and s.step is not None else False),
        "IndexError": lambda self_=None, s=None, nmax=None: (
            False if isinstance(s, SliceV) or s is None else s >= nmax),
        "TypeError": lambda self_=None, s=None, nmax=None: s is None,
    }

    def ensures(self, result, self_=None, s=None, nmax=None, **kw):
        i0, i1 = result
        if isinstance(s, SliceV):
            return {"start-as-arrays": i0 == py_slice_bound(s.start, nmax, 0),
                    "stop-as-arrays": i1 == py_slice_bound(s.stop, nmax, nmax)}
        return {"scalar-one-element": And(i0 == mod(s, nmax), i1 == i0 + 1, 0 <= i0, i0 < nmax)}

    def result(self, v, **a):
        return (v.Int("ps.lo"), v.Int("ps.hi"))


@contract
class UnpackIndex(Contract):
    target = f"{M}:_IndexingMixin._unpack_index"
    props = ["C03"]
    inline = True

    def configs(self, v):
        yield "pair", lambda v: dict(self=v.Obj("_IndexingMixin", M), key=(v.Int("r"), v.Int("c")))
        yield "single-tuple", lambda v: dict(self=v.Obj("_IndexingMixin", M), key=(v.Int("r"),))
        yield "bare", lambda v: dict(self=v.Obj("_IndexingMixin", M), key=v.Int("r"))
        yield "triple", lambda v: dict(self=v.Obj("_IndexingMixin", M), key=(v.Int("r"), v.Int("c"), v.Int("d")))

    raises = {"IndexError": lambda self_=None, key=None: isinstance(key, tuple) and len(key) not in (1, 2)}

    def ensures(self, result, self_=None, key=None, **kw):
        row, col = result
        if isinstance(key, tuple):
            out = {"row": row == key[0]}
            if len(key) == 2:
                out["col"] = col == key[1]
            else:
                out["col-all"] = isinstance(col, SliceV) and col.start is None and col.stop is None and col.step is None
            return out
        return {"row": row == key,
                "col-all": isinstance(col, SliceV) and col.start is None and col.stop is None and col.step is None}


# ---------------------------------------------------------------------------------------------
# the selector objects: which slicer / fetcher call a subscript or a fetch turns into

def _recorders(calls, fetch_result=None):
    from pyvc.values import LibFunc

    def slicer(I, *a, **k):
        calls.append(("slice", a, k))
        return calls_result
    calls_result = Opaque("what the slicer returned")

    def fetcher(I, *a, **k):
        calls.append(("fetch", a, k))
        return fetch_result
    return LibFunc("slicer", slicer), LibFunc("fetcher", fetcher), calls_result


def _row_keys(v, prefix=""):
    """the row subscripts of the property: slices with every combination of open / integer bounds, and a scalar"""
    for a_none in (False, True):
        for b_none in (False, True):
            yield (f"slice,a={'None' if a_none else 'int'},b={'None' if b_none else 'int'}",
                   lambda v, a_none=a_none, b_none=b_none: SliceV(None if a_none else v.Int(prefix + "a"),
                                                                  None if b_none else v.Int(prefix + "b"), None))
    yield "scalar", lambda v: v.Int(prefix + "s")


def _row_spec(key, n):
    """(lo, hi) a row subscript selects, as for arrays"""
    if isinstance(key, SliceV):
        return py_slice_bound(key.start, n, 0), py_slice_bound(key.stop, n, n)
    return mod(key, n), mod(key, n) + 1


@contract
class Selector1DGetitem(Contract):
    """C14: a row subscript of a table selector invokes the slicer exactly once with the selector's columns and
    the bounds an array would use; a column subscript returns a selector over those columns with the same
    slicer, fetcher and length and reads nothing."""
    target = f"{M}:RangeSelector1D.__getitem__"
    props = ["C14"]
    inline = True   # a coordinator contract (its clauses talk about its own recording slicer): callers execute the real body

    def configs(self, v):
        def mk(kind, keyfn=None):
            def f(v):
                calls = []
                sl, fe, res = _recorders(calls)
                n = v.Int("nmax")
                fields = Opaque("fields")
                slf = v.Obj("RangeSelector1D", M, fields=fields, _slice=sl, _fetch=fe, _shape=(n,))
                if kind == "row":
                    key = keyfn(v)
                elif kind == "row-in-1-tuple":
                    key = (keyfn(v),)
                elif kind == "2-tuple":
                    key = (v.Int("r"), v.Int("c"))
                elif kind == "column":
                    key = "count"
                else:
                    key = ["bin1_id", "count"]
                return dict(self=slf, key=key, __ghost__={"calls": calls, "res": res, "n": n, "kind": kind})
            return f
        for lbl, kf in _row_keys(v):
            yield "row:" + lbl, mk("row", kf)
        for lbl, kf in _row_keys(v):
            yield "1-tuple:" + lbl, mk("row-in-1-tuple", kf)
        yield "2-tuple", mk("2-tuple")
        yield "column", mk("column")
        yield "columns", mk("columns")

    def _row(self, key):
        return key[0] if isinstance(key, tuple) and len(key) == 1 else key

    def requires(self, self_, key):
        g = self._v.path.ghost
        r = [g["n"] >= 0]
        k = self._row(key)
        if g["kind"].startswith("row"):
            r += in_quantifier(k, g["n"])
        if g["kind"].startswith("row") and not isinstance(k, SliceV):
            r.append(k >= -g["n"])
        return r

    @property
    def raises(self):
        def ierr(self_=None, key=None):
            g = self._v.path.ghost
            if g["kind"] == "2-tuple":
                return True
            k = self._row(key)
            if g["kind"].startswith("row") and not isinstance(k, SliceV):
                return k >= g["n"]
            return False
        return {"IndexError": ierr}

    def ensures(self, result, self_, key):
        g = self._v.path.ghost
        calls, n = g["calls"], g["n"]
        if g["kind"] in ("column", "columns"):
            ok = isinstance(result, Obj) and getattr(result.cls, "name", "") == "RangeSelector1D"
            out = {"a-selector-is-returned": ok, "nothing-is-read": len(calls) == 0}
            if ok:
                at = result.attrs
                out["over-the-requested-columns"] = at["fields"] is key or at["fields"] == key
                out["same-slicer-fetcher-length"] = And(at["_slice"] is self_.attrs["_slice"], at["_fetch"] is self_.attrs["_fetch"],
                                                        at["_shape"][0] == n)
            return out
        out = {"slicer-called-exactly-once": len(calls) == 1 and calls[0][0] == "slice"}
        if not out["slicer-called-exactly-once"]:
            return out
        _, a, k = calls[0]
        lo, hi = _row_spec(self._row(key), n)
        out["with-the-selectors-columns"] = len(a) == 3 and a[0] is self_.attrs["fields"] and not k
        if len(a) == 3:
            out["bounds-as-for-arrays"] = And(a[1] == lo, a[2] == hi)
        out["returns-what-the-slicer-returned"] = result is g["res"]
        return out


@contract
class Selector1DFetch(Contract):
    """C14/C04: fetch(region) hands the region to the fetcher and the resulting row range, unchanged, to the
    slicer with the selector's columns."""
    target = f"{M}:RangeSelector1D.fetch"
    props = ["C14", "C04"]

    def configs(self, v):
        def mk(has_fetcher):
            def f(v):
                calls = []
                lo, hi = v.Int("f.lo"), v.Int("f.hi")
                sl, fe, res = _recorders(calls, (lo, hi))
                fields = Opaque("fields")
                slf = v.Obj("RangeSelector1D", M, fields=fields, _slice=sl, _fetch=fe if has_fetcher else None, _shape=(v.Int("nmax"),))
                region = Opaque("region")
                return dict(self=slf, args=(region,), kwargs={},
                            __ghost__={"calls": calls, "res": res, "lo": lo, "hi": hi, "region": region, "has": has_fetcher})
            return f
        yield "fetcher", mk(True)
        yield "no-fetcher", mk(False)

    @property
    def raises(self):
        return {"NotImplementedError": lambda **a: not self._v.path.ghost["has"]}

    def ensures(self, result, self_, args, kwargs):
        g = self._v.path.ghost
        calls = g["calls"]
        out = {"fetcher-then-slicer": [c[0] for c in calls] == ["fetch", "slice"]}
        if not out["fetcher-then-slicer"]:
            return out
        out["region-passed-unchanged"] = len(calls[0][1]) == 1 and calls[0][1][0] is g["region"] and not calls[0][2]
        a = calls[1][1]
        out["range-passed-unchanged"] = len(a) == 3 and a[0] is self_.attrs["fields"] and And(a[1] == g["lo"], a[2] == g["hi"])
        out["returns-what-the-slicer-returned"] = result is g["res"]
        return out


@contract
class Selector2DGetitem(Contract):
    """C03: a matrix subscript invokes the slicer exactly once with the selector's field and the row / column
    bounds an array would use (a missing column subscript means all columns)."""
    target = f"{M}:RangeSelector2D.__getitem__"
    props = ["C03"]

    def configs(self, v):
        def mk(shape, rf=None, cf=None):
            def f(v):
                calls = []
                sl, fe, res = _recorders(calls)
                n, m = v.Int("nrows"), v.Int("ncols")
                field = Opaque("field")
                slf = v.Obj("RangeSelector2D", M, field=field, _slice=sl, _fetch=fe, _shape=(n, m))
                row = rf(v) if rf else None
                col = cf(v) if cf else None
                key = {"pair": (row, col), "1-tuple": (row,), "bare": row, "triple": (v.Int("x"), v.Int("y"), v.Int("z"))}[shape]
                return dict(self=slf, key=key, __ghost__={"calls": calls, "res": res, "n": n, "m": m, "row": row, "col": col,
                                                           "shape": shape})
            return f
        rows = list(_row_keys(v, "r."))
        cols = list(_row_keys(v, "c."))
        for rl, rf in rows:
            for cl, cf in cols:
                yield f"pair:{rl};{cl}", mk("pair", rf, cf)
            yield f"1-tuple:{rl}", mk("1-tuple", rf)
            yield f"bare:{rl}", mk("bare", rf)
        yield "triple", mk("triple")

    def requires(self, self_, key):
        g = self._v.path.ghost
        # contact matrices are square: Cooler.matrix builds the selector with shape (nbins, nbins) (its contract's
        # clause "shape"); a change that is only visible on a non-square selector does not touch the property
        r = [g["n"] >= 0, g["m"] == g["n"]]
        r += in_quantifier(g["row"], g["n"]) + in_quantifier(g["col"], g["m"])
        if g["row"] is not None and not isinstance(g["row"], SliceV):
            r.append(g["row"] >= -g["n"])
        if g["col"] is not None and not isinstance(g["col"], SliceV):
            r.append(g["col"] >= -g["m"])
        return r

    @property
    def raises(self):
        def ierr(self_=None, key=None):
            g = self._v.path.ghost
            if g["shape"] == "triple":
                return True
            conds = []
            if g["row"] is not None and not isinstance(g["row"], SliceV):
                conds.append(g["row"] >= g["n"])
            if g["col"] is not None and not isinstance(g["col"], SliceV):
                conds.append(g["col"] >= g["m"])
            return Or(*conds) if conds else False
        return {"IndexError": ierr}

    def ensures(self, result, self_, key):
        g = self._v.path.ghost
        calls = g["calls"]
        out = {"slicer-called-exactly-once": len(calls) == 1 and calls[0][0] == "slice"}
        if not out["slicer-called-exactly-once"]:
            return out
        _, a, k = calls[0]
        i0, i1 = _row_spec(g["row"], g["n"])
        j0, j1 = _row_spec(g["col"], g["m"]) if g["col"] is not None else (0, g["m"])
        out["with-the-selectors-field"] = len(a) == 5 and a[0] is self_.attrs["field"] and not k
        if len(a) == 5:
            out["row-bounds-as-for-arrays"] = And(a[1] == i0, a[2] == i1)
            out["column-bounds-as-for-arrays"] = And(a[3] == j0, a[4] == j1)
        out["returns-what-the-slicer-returned"] = result is g["res"]
        return out


@contract
class Selector2DFetch(Contract):
    """C03/C04: fetch(region[, region2]) hands its arguments to the fetcher and the four bounds, unchanged and in
    order, to the slicer with the selector's field."""
    target = f"{M}:RangeSelector2D.fetch"
    props = ["C03", "C04"]

    def configs(self, v):
        def mk(has_fetcher, two):
            def f(v):
                calls = []
                b = tuple(v.Int(nm) for nm in ("f.i0", "f.i1", "f.j0", "f.j1"))
                sl, fe, res = _recorders(calls, b)
                field = Opaque("field")
                slf = v.Obj("RangeSelector2D", M, field=field, _slice=sl, _fetch=fe if has_fetcher else None,
                            _shape=(v.Int("nrows"), v.Int("ncols")))
                regs = (Opaque("region"), Opaque("region2")) if two else (Opaque("region"),)
                return dict(self=slf, args=regs, kwargs={}, __ghost__={"calls": calls, "res": res, "b": b, "regs": regs,
                                                                        "has": has_fetcher})
            return f
        yield "one-region", mk(True, False)
        yield "two-regions", mk(True, True)
        yield "no-fetcher", mk(False, False)

    @property
    def raises(self):
        return {"NotImplementedError": lambda **a: not self._v.path.ghost["has"]}

    def ensures(self, result, self_, args, kwargs):
        g = self._v.path.ghost
        calls = g["calls"]
        out = {"fetcher-then-slicer": [c[0] for c in calls] == ["fetch", "slice"]}
        if not out["fetcher-then-slicer"]:
            return out
        fa = calls[0][1]
        out["regions-passed-unchanged-in-order"] = len(fa) == len(g["regs"]) and all(x is y for x, y in zip(fa, g["regs"])) and not calls[0][2]
        a = calls[1][1]
        out["bounds-passed-unchanged-in-order"] = len(a) == 5 and a[0] is self_.attrs["field"] and And(*[a[i + 1] == g["b"][i] for i in range(4)])
        out["returns-what-the-slicer-returned"] = result is g["res"]
        return out
