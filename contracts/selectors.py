"""Sidecar contracts for cooler/core/_selectors.py"""
from pyvc.api import *  # noqa: F401,F403

M = "cooler.core._selectors"

inline_ok(f"{M}:_IndexingMixin._isintlike")


def py_slice_bound(x, n, default):
    """what slice(a, b).indices(n) gives for one bound (step 1): the array rule; a positive bound
    beyond n is left as it is (the dataset read clips it), which selects the same rows"""
    if x is None:
        return default
    return If(x < 0, Max(x + n, 0), x)


@contract
class ProcessSlice(Contract):
    """C03/C14: negative and open-ended bounds resolve as for arrays (for ALL integer bounds
    since fix 27816e5: negative bounds below -n clip to 0); a scalar selects the one-element
    range.  Positive bounds beyond n are passed through (h5py/array reads clip them)."""
    target = f"{M}:_IndexingMixin._process_slice"
    props = ["C03", "C14"]

    def configs(self, v):
        def mk(kind, a_none, b_none, step):
            def f(v):
                self_ = v.Obj("_IndexingMixin", M)
                n = v.Int("nmax")
                if kind == "slice":
                    a = None if a_none else v.Int("a")
                    b = None if b_none else v.Int("b")
                    st = {"none": None, "one": 1, "sym": v.Int("step")}[step]
                    return dict(self=self_, s=SliceV(a, b, st), nmax=n)
                if kind == "int":
                    return dict(self=self_, s=v.Int("s"), nmax=n)
                return dict(self=self_, s=None, nmax=n)
            return f
        for a_none in (False, True):
            for b_none in (False, True):
                for step in ("none", "one", "sym"):
                    yield f"slice,a={'None' if a_none else 'int'},b={'None' if b_none else 'int'},step={step}", \
                        mk("slice", a_none, b_none, step)
        yield "scalar", mk("int", 0, 0, 0)
        yield "none", mk("none", 0, 0, 0)

    def requires(self, self_=None, s=None, nmax=None, **kw):
        r = [nmax >= 0]
        if not isinstance(s, SliceV) and s is not None:
            # a scalar below -nmax is not an index of the table (arrays raise IndexError; the code
            # returns a negative range): outside the property's quantifier
            r.append(s >= -nmax)
        return r

    def _is_slice(self, s):
        return isinstance(s, SliceV)

    raises = {
        "ValueError": lambda self_=None, s=None, nmax=None: (
            Not(Or(s.step == 1, s.step is None)) if isinstance(s, SliceV) and s.step is not None else False),
        "IndexError": lambda self_=None, s=None, nmax=None: (
            False if isinstance(s, SliceV) or s is None else s >= nmax),
        "TypeError": lambda self_=None, s=None, nmax=None: s is None,
    }

    def ensures(self, result, self_=None, s=None, nmax=None, **kw):
        i0, i1 = result
        if isinstance(s, SliceV):
            return {"start-as-arrays": i0 == py_slice_bound(s.start, nmax, 0),
                    "stop-as-arrays": i1 == py_slice_bound(s.stop, nmax, nmax)}
        return {"scalar-one-element": And(i0 == mod(s, nmax), i1 == i0 + 1, 0 <= i0, i0 < nmax)}

    def result(self, v, **a):
        return (v.Int("ps.lo"), v.Int("ps.hi"))


@contract
class UnpackIndex(Contract):
    target = f"{M}:_IndexingMixin._unpack_index"
    props = ["C03"]
    inline = True

    def configs(self, v):
        yield "pair", lambda v: dict(self=v.Obj("_IndexingMixin", M), key=(v.Int("r"), v.Int("c")))
        yield "single-tuple", lambda v: dict(self=v.Obj("_IndexingMixin", M), key=(v.Int("r"),))
        yield "bare", lambda v: dict(self=v.Obj("_IndexingMixin", M), key=v.Int("r"))
        yield "triple", lambda v: dict(self=v.Obj("_IndexingMixin", M), key=(v.Int("r"), v.Int("c"), v.Int("d")))

    raises = {"IndexError": lambda self_=None, key=None: isinstance(key, tuple) and len(key) not in (1, 2)}

    def ensures(self, result, self_=None, key=None, **kw):
        row, col = result
        if isinstance(key, tuple):
            out = {"row": row == key[0]}
            if len(key) == 2:
                out["col"] = col == key[1]
            else:
                out["col-all"] = isinstance(col, SliceV) and col.start is None and col.stop is None and col.step is None
            return out
        return {"row": row == key,
                "col-all": isinstance(col, SliceV) and col.start is None and col.stop is None and col.step is None}
