"""Contract for create._create:write_pixels (C01 C02 C07 C13): the append loop every producer's pixels go through.

For EVERY number of chunks and every chunk length: after the loop each pixel column of the target group holds
exactly the concatenation of that column over the chunks, in order; its length is the returned nnz (also when no
record arrived: the pre-allocated rows are dropped); the returned total is the sum of the count column.

Ghost state: the contents of each HDF5 dataset is a ghost array `ds_<col>` (updated by the dataset stub on
resize / slice assignment, with bounds and shape obligations).  Ghost definitions: off(j) = number of records
in chunks 0..j-1, tot(j) = sum of their counts (recursive definitions, given as preconditions; monotonicity of
off is proved as an induction lemma).  ASSUMED: h5py Dataset.resize keeps the common prefix and `d[a:b] = x`
writes exactly that range (stub).  Round 2: the store CONVERTS integer values to the column type (`stored(v)`, equal to v only
when v fits the type; h5py clips, numpy wraps) and `_check_fits_dtype` is an assumed contract (ValueError iff a value of the
array it is given does not fit the dtype it is given): that every column nevertheless ends up as the exact concatenation is
provable only because each value is range-checked, unconverted, against the target column's dtype before it is written
(C07: a value is never stored silently different)."""
from pyvc.api import *  # noqa: F401,F403
from pyvc.values import LibFunc, LibNS, SymList
from contracts.common import *  # noqa: F401,F403

CR = "cooler.create._create"


class _DType:
    """the dtype of a ghost dataset.  Converting an INTEGER array to it stores, for every value, `stored(v)`; a value that fits
    the type is stored unchanged (`fits(v) -> stored(v) == v`), a value that does not fit is stored as something else (numpy wraps,
    h5py clips): `stored` is uninterpreted there."""

    def __init__(self, w, col):
        self.w, self.col = w, col

    def pyvc_astype(self, I, a):
        if self.w["kind"][self.col] != "int":
            return a
        st = self.w["stored"][self.col]
        fa = a.at
        return Arr(a.n, lambda k: st(fa(k)), "int")


class _Dset:
    def __init__(self, w, col):
        self.w, self.col = w, col

    def _key(self):
        return "__g_ds_" + self.col

    def _get(self, I):
        return I.top_env.vars[self._key()]

    def _set(self, I, arr):
        I.top_env.set(self._key(), arr)

    def pyvc_getattr(self, I, attr, node):
        if attr == "dtype":
            return _DType(self.w, self.col)
        if attr == "resize":
            def resize(I, shape):
                m = shape[0] if isinstance(shape, tuple) else shape
                old = self._get(I)
                kd = self.w["kind"][self.col]
                junk = z3.Function(I.path.fresh_name("unwritten." + self.col), z3.IntSort(), z3.RealSort() if kd == "real" else z3.IntSort())
                I.path.oblige("pre", f"resize-nonnegative#{I.path.ordinal('resize')}", m >= 0)
                self._set(I, Arr(m, lambda k, old=old: If(k < old.n, old.at(k), junk(k)), kd))
            return LibFunc("Dataset.resize", resize)
        raise Exception("Dataset." + attr)

    def pyvc_setitem(self, I, key, val):
        old = self._get(I)
        assert isinstance(key, SliceV) and key.step is None
        a, b = key.start, key.stop
        val = val if isinstance(val, Arr) else None
        o = I.path.ordinal("dswrite")
        I.path.oblige("bounds", f"dataset-slice-within-length#{o}", And(0 <= a, a <= b, b <= old.n))
        I.path.oblige("shape", f"dataset-slice-matches-data#{o}", b - a == val.n)
        conv = self.w["stored"][self.col] if self.w["kind"][self.col] == "int" else (lambda x: x)    # h5py converts on write
        self._set(I, Arr(old.n, lambda k, old=old, a=a, b=b, val=val: If(And(a <= k, k < b), conv(val.at(k - a)), old.at(k)),
                         self.w["kind"][self.col]))


class _Grp:
    def __init__(self, w):
        self.w = w

    def pyvc_getitem(self, I, key, node):
        return _Dset(self.w, key)


class _File:
    def __init__(self, w):
        self.w = w

    def pyvc_enter(self, I):
        return self

    def pyvc_exit(self, I, exc):
        return None

    def pyvc_getitem(self, I, key, node):
        I.path.oblige("post", "only-the-target-group-is-touched", key is self.w["grouppath"])
        return _Grp(self.w)

    def pyvc_getattr(self, I, attr, node):
        if attr == "flush":
            return LibFunc("File.flush", lambda I: None)
        raise Exception("File." + attr)


class _Lock:
    def __init__(self, w):
        self.w = w

    def pyvc_getattr(self, I, attr, node):
        if attr == "acquire":
            def acq(I):
                I.path.oblige("post", "lock-not-taken-twice", self.w["held"][0] is False)
                self.w["held"][0] = True
            return LibFunc("Lock.acquire", acq)
        if attr == "release":
            def rel(I):
                I.path.oblige("post", "lock-released-only-when-held", self.w["held"][0] is True)
                self.w["held"][0] = False
            return LibFunc("Lock.release", rel)
        raise Exception("Lock." + attr)


@contract
class WritePixels(Contract):
    target = f"{CR}:write_pixels"
    props = ["C01", "C02", "C07", "C13"]

    def configs(self, v):
        def mk(cols, with_lock, real_count=False):
            def f(v):
                kind = {c: ("real" if (real_count and c == "count") else "int") for c in cols}
                srt = lambda c: z3.RealSort() if kind[c] == "real" else z3.IntSort()
                m = v.Int("n_chunks")
                ln = v.Fn("len", "int", "int")
                off = v.Fn("off", "int", "int")
                tot = v.Fn("tot", "int", "real" if real_count else "int")
                csum = v.Fn("csum", "int", "real" if real_count else "int")
                F = {c: z3.Function(v.path.fresh_name("chunk." + c), z3.IntSort(), z3.IntSort(), srt(c)) for c in cols}

                def chunk(j):
                    d = {}
                    for c in cols:
                        a = Arr(ln(j), lambda t, c=c, j=j: F[c](j, t), kind[c])
                        if c == "count":
                            a._sum_term = RealV(csum(j)) if real_count else csum(j)
                        d[c] = a
                    return d
                fits = {c: v.Fn("fits." + c, "int", "bool") for c in cols if kind[c] == "int"}
                stored = {c: v.Fn("stored." + c, "int", "int") for c in cols if kind[c] == "int"}

                def check_fits(I, values, dtype, name=None):
                    # ASSUMED contract of _check_fits_dtype (own bounded contract): ValueError iff some value of the array it is
                    # GIVEN does not fit the dtype it is given; the dtype must be the target dataset's
                    col = dtype.col if isinstance(dtype, _DType) else None
                    I.path.oblige("post", "range-check-against-the-target-columns-dtype", col is not None and (name is None or name == col))
                    if col is None or kind[col] != "int":
                        return None
                    from pyvc.values import ExcVal, PyRaise
                    a_ = values if isinstance(values, Arr) else None
                    if a_ is None:
                        raise Exception("_check_fits_dtype on a non-array")
                    bad = exists(0, a_.n, lambda t: Not(fits[col](a_.at(t))))
                    if I.path.branch(bad):
                        raise PyRaise(ExcVal("ValueError", ("value does not fit the column dtype",)))
                    I.path.assume(forall(0, a_.n, lambda t: fits[col](a_.at(t))))
                    return None
                w = {"cols": cols, "kind": kind, "m": m, "len": ln, "off": off, "tot": tot, "csum": csum, "F": F, "held": [False],
                     "fits": fits, "stored": stored,
                     "grouppath": v.Str("grouppath"), "filepath": v.Str("filepath"),
                     "n0": {c: v.Int("preallocated." + c) for c in cols},
                     # flat copies for the replay adapter
                     "r_lens": Arr(m, lambda j: ln(j), "int"), "r_real_count": real_count, "r_lock": with_lock,
                     "r_has_count": "count" in cols}

                def File(I, path, mode="r", **k):
                    I.path.oblige("post", "file-is-the-target-opened-r+", path is w["filepath"] and mode == "r+")
                    if with_lock:
                        I.path.oblige("post", "file-opened-only-while-holding-the-lock", w["held"][0] is True)
                    return _File(w)
                return dict(filepath=w["filepath"], grouppath=w["grouppath"], columns=list(cols),
                            iterable=SymList(m, chunk, "chunks"), h5opts={}, lock=_Lock(w) if with_lock else None,
                            __free__={"h5py": LibNS("h5py", {"File": LibFunc("h5py.File", File)}),
                                      "_check_fits_dtype": LibFunc("_check_fits_dtype", check_fits)},
                            __ghost__=w)
            return f
        yield "count-column", mk(["bin1_id", "bin2_id", "count"], False)
        yield "no-count-column,lock", mk(["bin1_id", "bin2_id", "score"], True)
        yield "float-count-column", mk(["bin1_id", "bin2_id", "count"], False, True)

    def _w(self):
        return self._v.path.ghost

    def requires(self, **a):
        w = self._w()
        m, ln, off, tot, csum = w["m"], w["len"], w["off"], w["tot"], w["csum"]
        r = {"chunks": m >= 0,
             "chunk-lengths": forall(0, m, lambda j: ln(j) >= 0),
             "def-off-0": off(0) == 0, "def-off-step": forall(0, m, lambda j: off(j + 1) == off(j) + ln(j)),
             "def-tot-0": tot(0) == 0, "def-tot-step": forall(0, m, lambda j: tot(j + 1) == tot(j) + csum(j)),
             "def-csum-of-an-empty-chunk": forall(0, m, lambda j: Implies(ln(j) == 0, csum(j) == 0)),
             # consequence of the definition of off and of len >= 0 (lemma off-monotone, proved by induction below)
             "off-monotone": forall2(0, m + 1, 0, m + 1, lambda j1, j2: Implies(j1 <= j2, off(j1) <= off(j2)))}
        for c, n0 in w["n0"].items():
            r["preallocated-" + c] = n0 >= 0
        for c, st in w["stored"].items():
            x = z3.Int("x." + c)
            r["def-stored-" + c] = z3.ForAll([x], Implies(w["fits"][c](x), st(x) == x))
        return r

    def _some_value_does_not_fit(self):
        w = self._w()
        m, ln = w["m"], w["len"]
        bad = [exists(0, m, lambda j, c=c: exists(0, ln(j), lambda u, c=c, j=j: Not(w["fits"][c](w["F"][c](j, u))))) for c in w["fits"]]
        return Or(*bad) if bad else False

    # C07 "a stored value is never silently different from the exact aggregate": on a normal return every column IS the
    # concatenation of the chunks (postcondition below) although the store converts to the column type - provable only because
    # every value written was range-checked first; ValueError may be raised only if some value really does not fit.
    raises_exact = False

    @property
    def raises(self):
        return {"ValueError": lambda **a: self._some_value_does_not_fit()}

    def lemmas(self, path, v):
        """off-monotone by induction on j2: base off(j1) <= off(j1); step off(j1) <= off(j2) -> off(j1) <= off(j2+1)"""
        off, ln = v.Fn("L.off", "int", "int"), v.Fn("L.len", "int", "int")
        j1, j2, m = v.Int("L.j1"), v.Int("L.j2"), v.Int("L.m")
        path.assume(forall(0, m, lambda j: ln(j) >= 0))
        path.assume(forall(0, m, lambda j: off(j + 1) == off(j) + ln(j)))
        path.oblige("lemma", "off-monotone/base", off(j1) <= off(j1))
        path.oblige("lemma", "off-monotone/step", Implies(And(0 <= j1, j1 <= j2, j2 < m, off(j1) <= off(j2)), off(j1) <= off(j2 + 1)))

    # ------------------------------------------------------------------ loop 0: for i, chunk in enumerate(iterable)
    def _inv(self, S):
        w = self._w()
        t = S.it
        off, tot, ln = w["off"], w["tot"], w["len"]
        inv = {"records-so-far": S.nnz == off(t),
               "total-so-far": _t(S.total) == (tot(t) if "count" in w["cols"] else 0),
               "iteration-in-range": And(0 <= t, t <= w["m"])}
        for c in w["cols"]:
            D = getattr(S, "ds_" + c)
            # stated over the abstraction only (records written so far), so that e.g. skipping empty chunks is admitted:
            # while nothing has been written the column may still have its pre-allocated rows (trimmed after the loop)
            inv[f"{c}:length-is-the-number-of-records-once-any-was-written"] = Implies(off(t) > 0, D.n == off(t))
            inv[f"{c}:length-nonnegative"] = D.n >= 0
            inv[f"{c}:holds-the-chunks-so-far-in-order"] = forall2(
                0, t, 0, w["m"] + D.n + 1, lambda j, u, c=c, D=D: Implies(u < ln(j), D[off(j) + u] == w["F"][c](j, u)))
        return inv

    def _ghost_init(self, S, I):
        w = self._w()
        out = {}
        for c in w["cols"]:
            junk = z3.Function(I.path.fresh_name("prealloc." + c), z3.IntSort(), z3.RealSort() if w["kind"][c] == "real" else z3.IntSort())
            out["ds_" + c] = Arr(w["n0"][c], lambda k, junk=junk: junk(k), w["kind"][c])
        return out

    @property
    def loops(self):
        hv = {}
        for c in ("bin1_id", "bin2_id", "count", "score"):
            hv["__g_ds_" + c] = (lambda c: lambda v: v.path.fresh_arr("ds." + c, v.path.ghost["kind"].get(c, "int")))(c)
        return {0: LoopSpec(self._inv, ghost_init=self._ghost_init, havoc=hv)}

    # ------------------------------------------------------------------
    def ensures(self, result, ghost, filepath, grouppath, columns, iterable, h5opts, lock):
        w = self._w()
        m, off, tot, ln = w["m"], w["off"], w["tot"], w["len"]
        ok = isinstance(result, tuple) and len(result) == 2
        out = {"returns-nnz-and-total": ok}
        if not ok:
            return out
        nnz, total = result
        out["nnz-is-the-number-of-records-in-all-chunks"] = nnz == off(m)
        out["total-is-the-sum-of-the-count-column"] = _t(total) == (tot(m) if "count" in w["cols"] else 0)
        for c in w["cols"]:
            D = ghost["ds_" + c]
            out[f"{c}:column-length-is-the-returned-nnz"] = D.n == nnz
            out[f"{c}:column-is-the-concatenation-of-the-chunks-in-order"] = forall2(
                0, m, 0, nnz + 1, lambda j, u, c=c, D=D: Implies(u < ln(j), D[off(j) + u] == w["F"][c](j, u)))
        if lock is not None:
            out["lock-released-at-the-end"] = w["held"][0] is False
        return out


def _t(x):
    return x.term if isinstance(x, RealV) else x
