"""Coordinator contract for `cooler balance` (cli.balance:balance; C11, C10): what the command hands to balance_cooler (own
contract) and what it does with the result.  File, pool, Cooler and balance_cooler are recording stubs; every option is
symbolic or opaque (blacklist and --check left out: blacklist=None, check=False).
Verified: an existing column of that name is deleted only with --force (refused otherwise, nothing computed), and only that
column; balance_cooler gets THIS cooler, the caller's chunk size, filters, tolerance, iteration limit and flags unchanged, the
ignore-distance converted to diagonals with ceil (never fewer than asked), and the builtin map for one process - a pool's
unordered map for several, the pool being closed afterwards; the weights it returned are what is written, once, under the
caller's column name in this collection's bin table with the statistics attached - or printed with --stdout, writing nothing;
on non-convergence the policy decides: store, store NaN, discard (exit 0) or error (exit 1), the last two writing nothing."""
from pyvc.api import *  # noqa: F401,F403
from pyvc.values import ExcClass, ExcVal, LibFunc, LibNS, PyRaise
from contracts.common import *  # noqa: F401,F403

BALCLI = "cooler.cli.balance"


class _Exit(Exception):
    pass


@contract
class CliBalance(Contract):
    target = f"{BALCLI}:balance"
    props = ["C11", "C10"]
    raises_exact = False

    def configs(self, v):
        def mk(policy, nproc, has_dist):
            def f(v):
                log = []
                w = {"log": log}
                exists = v.Bool("column_exists")
                conv = v.Bool("converged")
                name = v.Str("name")
                fp, gp = v.Str("cool_path"), v.Str("group_path")
                class _Bias:
                    """the weights returned: `bias[:] = nan` overwrites all of them"""
                    def __init__(self):
                        self.nanned = False

                    def pyvc_setitem(self, I, key, val):
                        self.nanned = True
                        log.append(("weights-set-to-nan",))
                bias = _Bias()
                stats = {"converged": conv, "tol": Opaque("tol-stat")}

                class _Bins:
                    def pyvc_contains(self, I, item):
                        return exists if item is name else False

                    def pyvc_delitem(self, I, key):
                        log.append(("delete", key))

                    def pyvc_getattr(self, I, attr, node):
                        if attr == "create_dataset":
                            return LibFunc("create_dataset", lambda I, nm, **k: log.append(("create_dataset", nm, k)))
                        raise Exception("bins group." + attr)

                    def pyvc_getitem(self, I, key, node):
                        return _DS(key)

                class _DS:
                    def __init__(self, key):
                        self.key = key

                    def pyvc_getattr(self, I, attr, node):
                        if attr == "attrs":
                            return self
                        if attr == "update":
                            return LibFunc("attrs.update", lambda I, d: log.append(("attrs.update", self.key, d)))
                        raise Exception("Dataset." + attr)
                bins = _Bins()

                class _H5:
                    def __init__(self, mode):
                        self.mode = mode

                    def pyvc_enter(self, I):
                        return self

                    def pyvc_exit(self, I, exc):
                        return None

                    def pyvc_getitem(self, I, key, node):
                        log.append(("group", key, self.mode))
                        return {"bins": bins}
                clr = Opaque("Cooler(cool_uri)")

                class _Clr:
                    binsize = v.Int("binsize")

                    def pyvc_getattr(self, I, attr, node):
                        if attr == "binsize":
                            return self.binsize
                        raise Exception("Cooler." + attr)
                clr = _Clr()

                class _Pool:
                    imap_unordered = Opaque("pool.imap_unordered")

                    def pyvc_getattr(self, I, attr, node):
                        if attr == "imap_unordered":
                            return self.imap_unordered
                        if attr == "close":
                            return LibFunc("pool.close", lambda I: log.append(("pool.close",)))
                        raise Exception("Pool." + attr)
                pool = _Pool()

                def bal(I, c, **k):
                    log.append(("balance_cooler", c, k))
                    return bias, stats

                def exit_(I, code=0):
                    log.append(("exit", code))
                    # an exit writes nothing (refusal without --force, discard / error policies)
                    I.path.oblige("post", "exit:nothing-was-written", not [e for e in log if e[0] in ("create_dataset", "attrs.update")])
                    if not [e for e in log if e[0] == "balance_cooler"]:
                        I.path.oblige("post", "exit-before-balancing:only-the-refusal-of-an-existing-column-without-force",
                                      And(exists, Not(flags["force"]), Not(flags["stdout"])) if code == 1 else False)
                        I.path.oblige("post", "exit-before-balancing:nothing-deleted", not [e for e in log if e[0] == "delete"])
                    else:
                        I.path.oblige("post", "exit-after-balancing:only-on-non-convergence-with-discard-or-error",
                                      Not(conv) if ((policy == "discard" and code == 0) or (policy == "error" and code == 1)) else False)
                    raise PyRaise(ExcVal("SystemExit", (code,)))
                np_ns = v.path.engine.lib["numpy"]
                np2 = LibNS("numpy", dict(np_ns._members, all=LibFunc("np.all", lambda I, x: x)))

                class _BiasStore:
                    pass
                opts = {k: v.Int(k) for k in ("chunksize", "mad_max", "min_nnz", "min_count", "max_iters", "ignore_diags")}
                opts["tol"] = Opaque("tol")
                flags = {k: v.Bool(k) for k in ("cis_only", "trans_only", "force", "stdout")}
                dist = v.Int("ignore_dist") if has_dist else None
                w.update(exists=exists, conv=conv, name=name, fp=fp, gp=gp, bias=bias, stats=stats, clr=clr, pool=pool, opts=opts, flags=flags,
                         dist=dist, policy=policy, nproc=nproc, bins=bins)
                free = {"get_logger": LibFunc("get_logger", lambda I, n: Opaque("logger")),
                        "parse_cooler_uri": LibFunc("parse_cooler_uri", lambda I, u: (fp, gp)),
                        "h5py": LibNS("h5py", {"File": LibFunc("h5py.File", lambda I, p, mode="r", **k: (log.append(("open", p, mode)), _H5(mode))[1])}),
                        "Cooler": LibFunc("Cooler", lambda I, u: (log.append(("Cooler", u)), clr)[1]),
                        "Pool": LibFunc("Pool", lambda I, n: (log.append(("Pool", n)), pool)[1]),
                        "balance_cooler": LibFunc("balance_cooler", bal),
                        "sys": LibNS("sys", {"exit": LibFunc("sys.exit", exit_), "stderr": Opaque("stderr"), "stdout": Opaque("stdout")}),
                        "print": LibFunc("print", lambda I, *a, **k: None),
                        "click": LibNS("click", {"UsageError": ExcClass("UsageError"), "echo": LibFunc("click.echo", lambda I, *a, **k: None)}),
                        "np": np2,
                        "pd": LibNS("pd", {"Series": LibFunc("pd.Series", lambda I, x: _Ser(x, log))})}
                uri = v.Str("cool_uri")
                w["uri"] = uri
                return dict(cool_uri=uri, nproc=nproc, chunksize=opts["chunksize"], mad_max=opts["mad_max"], min_nnz=opts["min_nnz"],
                            min_count=opts["min_count"], blacklist=None, ignore_diags=opts["ignore_diags"], tol=opts["tol"],
                            cis_only=flags["cis_only"], trans_only=flags["trans_only"], max_iters=opts["max_iters"], name=name,
                            force=flags["force"], check=False, stdout=flags["stdout"], convergence_policy=policy, ignore_dist=dist,
                            __free__=free, __ghost__=w)
            return f
        for policy in ("store_final", "store_nan", "discard", "error"):
            yield f"policy={policy},one-process", mk(policy, 1, False)
        yield "policy=store_final,three-processes,ignore-dist", mk("store_final", 3, True)

    def requires(self, **a):
        w = self._v.path.ghost
        r = [w["clr"].binsize >= 1, w["clr"].binsize < 2 ** 40, w["opts"]["ignore_diags"] >= 0]
        if w["dist"] is not None:
            r += [w["dist"] >= 0, w["dist"] < 2 ** 40]
        return r

    @property
    def raises(self):
        w = lambda: self._v.path.ghost    # noqa: E731
        return {"SystemExit": lambda **a: True, "UsageError": lambda **a: And(w()["flags"]["cis_only"], w()["flags"]["trans_only"])}

    def _check(self, o):
        w = self._v.path.ghost
        log = w["log"]
        names = [e[0] for e in log]
        dels = [e for e in log if e[0] == "delete"]
        o["only-the-named-column-is-ever-deleted"] = all(e[1] is w["name"] for e in dels) and len(dels) <= 1
        if dels:
            o["deleted-only-when-it-exists-with-force-and-a-result-will-be-stored"] = And(w["exists"], w["flags"]["force"], Not(w["flags"]["stdout"]))
        calls = [e for e in log if e[0] == "balance_cooler"]
        o["at-most-one-balancing-run"] = len(calls) <= 1
        if calls:
            _, c, k = calls[0]
            o["run:not-when-the-column-exists-without-force"] = Or(Not(w["exists"]), w["flags"]["force"], w["flags"]["stdout"])
            o["run:this-cooler"] = c is w["clr"] and [e for e in log if e[0] == "Cooler"][0][1] is w["uri"]
            op, fl = w["opts"], w["flags"]
            o["run:options-unchanged"] = k.get("chunksize") is op["chunksize"] and k.get("mad_max") is op["mad_max"] and k.get("min_nnz") is op["min_nnz"] \
                and k.get("min_count") is op["min_count"] and k.get("max_iters") is op["max_iters"] and k.get("tol") is op["tol"] \
                and k.get("cis_only") is fl["cis_only"] and k.get("trans_only") is fl["trans_only"] and k.get("blacklist") is None
            ig = k.get("ignore_diags")
            if w["dist"] is None:
                o["run:ignored-diagonals-as-asked"] = ig is op["ignore_diags"]
            else:
                o["run:ignored-diagonals-cover-the-distance-and-the-count-asked"] = ig == Max(op["ignore_diags"], cdiv(w["dist"], w["clr"].binsize))
            o["run:builtin-map-for-one-process-unordered-pool-map-for-several"] = (k.get("map") is w["pool"].imap_unordered and ("Pool", 3) in log) \
                if w["nproc"] > 1 else (k.get("map") is not w["pool"].imap_unordered and "Pool" not in names)
            if w["nproc"] > 1:
                o["pool-closed-after-the-run"] = "pool.close" in names and names.index("pool.close") > names.index("balance_cooler")
        writes = [e for e in log if e[0] == "create_dataset"]
        o["at-most-one-column-written"] = len(writes) <= 1
        if writes:
            _, nm, k = writes[0]
            o["written:the-weights-returned-under-the-callers-name"] = nm is w["name"] and k.get("data") is w["bias"]
            if w["bias"].nanned:
                o["written:NaN-only-under-store_nan-after-non-convergence"] = Not(w["conv"]) if w["policy"] == "store_nan" else False
            elif w["policy"] == "store_nan":
                o["written:weights-kept-when-converged"] = w["conv"]
            o["written:only-without-stdout-and-unless-discarded"] = Not(w["flags"]["stdout"]) if w["policy"] in ("store_final", "store_nan") \
                else And(Not(w["flags"]["stdout"]), w["conv"])
            ups = [e for e in log if e[0] == "attrs.update"]
            o["written:statistics-attached-to-that-column"] = len(ups) == 1 and ups[0][1] is w["name"] and ups[0][2] is w["stats"]
            o["written:into-this-collection-opened-r+"] = any(e[0] == "open" and e[1] is w["fp"] and e[2] == "r+" for e in log) \
                and all(e[1] is w["gp"] for e in log if e[0] == "group")

    def ensures(self, result, **a):
        o = {}
        self._check(o)
        return o


class _NaNned:
    def __init__(self, src):
        self.src = src


class _Ser:
    def __init__(self, x, log):
        self.x, self.log = x, log

    def pyvc_getattr(self, I, attr, node):
        if attr == "to_string":
            return LibFunc("Series.to_string", lambda I, *a, **k: self.log.append(("print", self.x)))
        raise Exception("Series." + attr)
