"""Contract for create._create:create over a ghost operation log (C01 C02 C13 C15 C17).

`create` is the one function every producer goes through.  It is verified here as a *coordinator*: every
library and helper call it makes is replaced by a recording stub, and the contract states - for all file and
group paths, modes, bin tables, option vectors - which files are opened how, what is deleted, where everything
is written, what the validator chain is, what the index builders and the info record receive.

ASSUMED (stubs; each is either a function under its own contract elsewhere or a library call):
  parse_cooler_uri (own contract, C15/C19), get_binsize / get_chromsizes (own contracts, C20), index_pixels /
  index_bins (own contracts, C02), validate_pixels (own contract, C13), write_chroms / write_bins /
  prepare_pixels / write_pixels / write_indexes / write_info / put (HDF5 writers: they write only inside the
  group handle or target path they are given), h5py.File / create_group / `in` / del / hard-link assignment,
  os.path.realpath (names the same file), get_meta / infer_meta (column bookkeeping), pandas DataFrame
  column access.  `logger.*` and `warnings.warn` are dropped by the executor."""
from pyvc.api import *  # noqa: F401,F403
from pyvc.values import ExcVal, LibFunc, LibNS, PyRaise, is_z3
from pyvc.lib_builtin import TypeTag
from contracts.common import *  # noqa: F401,F403

CR = "cooler.create._create"
STD = ["chrom", "start", "end"]


class _Stub:
    def pyvc_getattr(self, I, attr, node):
        d = self.__dict__
        if attr in d:
            return d[attr]
        m = getattr(self, "m_" + attr, None)
        if m is not None:
            return LibFunc(type(self).__name__ + "." + attr, m)
        raise Exception(f"stub {type(self).__name__} has no attribute {attr}")


class _Col(_Stub):
    def __init__(self, frame, name):
        self.frame, self.name = frame, name

    def m_astype(self, I, t):
        return self


class _Frame(_Stub):
    """a pandas DataFrame seen only through its column names, its length and column selection"""

    def __init__(self, cols, n=None, tag="frame", parent=None):
        self.columns, self.n, self.tag, self.parent = list(cols), n, tag, parent

    def pyvc_len(self, I):
        return self.n

    def m_copy(self, I):
        return _Frame(self.columns, self.n, self.tag, parent=self)

    def m_keys(self, I):
        return list(self.columns)

    def pyvc_getitem(self, I, key, node):
        if isinstance(key, list):
            return _Frame(key, self.n, self.tag + "[" + ",".join(key) + "]", parent=self)
        return _Col(self, key)

    def pyvc_setitem(self, I, key, val):
        if self.parent is None:
            raise Exception("the caller's frame is modified in place")
        if key not in self.columns:
            self.columns.append(key)

    def root(self):
        return self if self.parent is None else self.parent.root()


class _Meta(_Stub):
    def __init__(self, columns, dtypes):
        self.columns, self.dtypes = list(columns), _Dtypes(dtypes)


class _Dtypes:
    def __init__(self, d):
        self.d = d

    def pyvc_todict(self, I):
        return dict(self.d)


class _ChromItems:
    def __init__(self, sizes):
        self.sizes = sizes

    def pyvc_unzip(self, I):
        return (("names-of", self.sizes), ("lengths-of", self.sizes))


class _ChromSizes(_Stub):
    def __init__(self, frame):
        self.frame = frame

    def m_items(self, I):
        return _ChromItems(self)


class _Grp(_Stub):
    def __init__(self, f, path):
        self.f, self.path = f, path

    def sub(self, key):
        return _Grp(self.f, ("sub", self.path, key))

    def pyvc_getitem(self, I, key, node):
        return self.sub(key)

    def pyvc_setitem(self, I, key, val):
        if isinstance(val, _Grp):
            self.f.log.append(("hardlink", self.f.role, ("sub", self.path, key), val.f.role, val.path))
        else:
            raise Exception("unexpected value stored into an h5py group")

    def m_create_group(self, I, name):
        g = self.sub(name)
        self.f.log.append(("create_group", self.f.role, g.path))
        return g

    def m_require_group(self, I, name):
        g = self.sub(name)
        self.f.log.append(("require_group", self.f.role, g.path))
        return g

    def _is_root(self):
        return self.path[0] == "top" and isinstance(self.path[1], str) and self.path[1] == "/"

    def pyvc_contains(self, I, key):
        if self._is_root():
            return self.f.pyvc_contains(I, key)
        return I.path.fresh_bool("exists." + _rel(self.sub(key).path))

    def pyvc_delitem(self, I, key):
        if self._is_root():
            return self.f.pyvc_delitem(I, key)
        self.f.log.append(("delete", self.f.role, self.sub(key).path))


class _File(_Stub):
    """h5py.File: the top level of one file; `in`, del, create_group, f[path]"""

    def __init__(self, world, role, path, mode):
        self.world, self.log, self.role, self.path, self.mode = world, world["log"], role, path, mode

    def pyvc_enter(self, I):
        return self

    def pyvc_exit(self, I, exc):
        self.log.append(("close", self.role))

    def pyvc_contains(self, I, key):
        b = self.world["exists"].setdefault(key if isinstance(key, str) else "group", None)
        if b is None:
            b = I.path.fresh_bool("exists." + (key if isinstance(key, str) else "group"))
            self.world["exists"][key if isinstance(key, str) else "group"] = b
        return b

    def pyvc_getitem(self, I, key, node):
        return _Grp(self, ("top", key))

    def pyvc_delitem(self, I, key):
        self.log.append(("delete", self.role, ("top", key)))
        self.world["deleted"].append(key)

    def m_require_group(self, I, name):
        # returns the group whether or not it exists; nothing inside it is removed
        self.log.append(("require_group", self.role, ("top", name)))
        return _Grp(self, ("top", name))

    def m_create_group(self, I, name):
        w = self.world
        if not w["deleted"] and w["group_exists"] is not None:
            # h5py refuses to create a group that already exists
            if I.path.branch(w["group_exists"]):
                raise PyRaise(ExcVal("ValueError", ("Unable to create group (name already exists)",)))
        self.log.append(("create_group", self.role, ("top", name)))
        return _Grp(self, ("top", name))


def _world(v, *, root, scool):
    """stubs + the ghost they record into"""
    log = []
    w = {"log": log, "exists": {}, "deleted": [], "group_exists": None if root else v.Bool("target_group_exists"),
         "opens": []}
    fp, gp = v.Str("file_path"), (z3.StringVal("/") if root else v.Str("group_path"))
    sfp, sgp = v.Str("scool_file_path"), v.Str("scool_group_path")
    uri, suri = v.Str("cool_uri"), v.Str("scool_root_uri")
    w.update(fp=fp, gp=gp, sfp=sfp, sgp=sgp, uri=uri, suri=suri)

    def parse(I, u):
        return (sfp, sgp) if u is suri else (fp, "/" if root else gp)

    def File(I, path, mode="r", **k):
        # roles: the target file (by path identity with what create resolved) or the scool root file
        role = "scool-root" if path is sfp else "target"
        log.append(("open", role, path, mode))
        return _File(w, role, path, mode)

    def rec(name, ret=None):
        def f(I, *a, **k):
            log.append((name, a, k))
            return ret(I) if callable(ret) else ret
        return LibFunc(name, f)

    nnz, total = v.Int("written.nnz"), v.Int("written.sum")
    w.update(nnz=nnz, total=total)
    binsize_none = v.Bool("binsize_is_none")
    bsz = v.Int("binsize")
    w.update(binsize_none=binsize_none, bsz=bsz)

    def get_binsize(I, b):
        log.append(("get_binsize", (b,), {}))
        return None if I.path.branch(binsize_none) else bsz
    nch = v.Int("n_chroms")
    w["nch"] = nch

    def DataFrame_ctor(I, data=None, columns=None, **k):
        fr = _Frame(list(columns or []), nch, "chroms")
        fr.data = data
        return fr
    DF = LibFunc("pd.DataFrame", DataFrame_ctor)
    DF.check = lambda x: isinstance(x, _Frame)

    def get_meta(I, columns, dtypes, default_dtype=None):
        log.append(("get_meta", (list(columns), dict(dtypes)), {}))
        return _Meta(columns, dtypes)

    def infer_meta(I, x):
        if isinstance(x, _Frame):
            return _Meta(x.columns, {})
        return _Meta([k for k, _ in x], {})

    def validator(I, *a):
        log.append(("validate_pixels", a, {}))
        return ("validator", a)

    def map_(I, fn, it):
        return ("map", fn, it)

    free = {
        "parse_cooler_uri": LibFunc("parse_cooler_uri", parse),
        "op": LibNS("os.path", {"realpath": LibFunc("realpath", lambda I, p: p)}),
        "posixpath": LibNS("posixpath", {"join": LibFunc("posixpath.join", lambda I, a, b: ("join", a, b))}),
        "_set_h5opts": LibFunc("_set_h5opts", lambda I, o: ("h5opts", o)),
        "pd": LibNS("pd", {"DataFrame": DF}),
        "h5py": LibNS("h5py", {"File": LibFunc("h5py.File", File)}),
        "get_meta": LibFunc("get_meta", get_meta), "infer_meta": LibFunc("infer_meta", infer_meta),
        "get_chromsizes": LibFunc("get_chromsizes", lambda I, b: _ChromSizes(b)),
        "get_binsize": LibFunc("get_binsize", get_binsize),
        "validate_pixels": LibFunc("validate_pixels", validator), "map": LibFunc("map", map_),
        "write_chroms": rec("write_chroms"), "write_bins": rec("write_bins"), "prepare_pixels": rec("prepare_pixels"),
        "write_pixels": rec("write_pixels", (nnz, total)), "write_indexes": rec("write_indexes"),
        "write_info": rec("write_info"), "put": rec("put"),
        "index_bins": rec("index_bins", ("chrom_offset-of-the-written-bins",)),
        "index_pixels": rec("index_pixels", ("bin1_offset-of-the-written-pixels",)),
        "PIXEL_DTYPES": {"bin1_id": "int64", "bin2_id": "int64", "count": "int32"},
        "PIXEL_FIELDS": ("bin1_id", "bin2_id", "count"),
    }
    return w, free


def _under(path, gp):
    """path (as built by the stubs) lies inside the target group gp of the target file"""
    while isinstance(path, tuple) and path[0] == "sub":
        path = path[1]
    return isinstance(path, tuple) and path[0] == "top" and _same(path[1], gp)


def _same(a, b):
    if isinstance(a, str) and isinstance(b, str):
        return a == b
    if isinstance(a, str):
        a = z3.StringVal(a)
    if isinstance(b, str):
        b = z3.StringVal(b)
    return a.eq(b)


def _rel(path):
    """the components below the top-level group"""
    out = []
    while isinstance(path, tuple) and path[0] == "sub":
        out.append(path[2])
        path = path[1]
    return "/".join(reversed(out))


@contract
class Create(Contract):
    target = f"{CR}:create"
    props = ["C01", "C02", "C13", "C15", "C17"]

    # ------------------------------------------------------------------ configurations
    def configs(self, v):
        def mk(*, root, mode, append, scool, extra_bins, cols, pix, sym_upper, checks, bins_ok=True, missing=None,
               suri_none=False, assembly=False, metadata=False, dtypes=None):
            def f(v):
                w, free = _world(v, root=root, scool=scool)
                bcols = [c for c in STD if c != missing] + (["weight", "gc"] if extra_bins else [])
                nb = v.Int("n_bins")
                bins = _Frame(bcols, nb, "bins") if bins_ok else Opaque("a chromsizes mapping")
                if pix == "iter":
                    pixels = Opaque("an iterable of chunks")
                elif pix == "frame":
                    pixels = _Frame(["bin1_id", "bin2_id", "count"], v.Int("n_pix"), "pixels")
                else:  # a frame that lacks a requested value column
                    pixels = _Frame(["bin1_id", "bin2_id"], v.Int("n_pix"), "pixels")
                bc, tc, dc, es = checks
                su = v.Bool("symmetric_upper") if sym_upper is None else sym_upper
                args = dict(cool_uri=w["uri"], bins=bins, pixels=pixels, columns=cols, dtypes=dtypes,
                            metadata=Opaque("metadata") if metadata else None,
                            assembly=Opaque("assembly") if assembly else None,
                            symmetric_upper=su, mode=mode, h5opts=None, boundscheck=bc, triucheck=tc, dupcheck=dc,
                            ensure_sorted=es, lock=Opaque("lock"), append=append, append_scool=scool,
                            scool_root_uri=(None if suri_none else w["suri"]) if scool else None)
                w.update(nb=nb, bins=bins, pixels=pixels, root=root, scool=scool, bins_ok=bins_ok, missing=missing,
                         pix=pix, suri_none=suri_none, extra=extra_bins,
                         # flat copies for the replay adapter
                         r_root=root, r_scool=scool, r_refusal=(not bins_ok or missing is not None or pix == "frame-missing"
                                                                 or (scool and suri_none)),
                         r_group_exists=w["group_exists"] if w["group_exists"] is not None else True)
                args["__free__"] = free
                args["__ghost__"] = w
                return args
            return f
        T, F = True, False
        base = dict(root=False, mode=None, append=False, scool=False, extra_bins=False, cols=None, pix="iter",
                    sym_upper=None, checks=(T, T, T, F))
        # file mode x root/nested target
        for root in (False, True):
            for mode, append in ((None, False), (None, True), ("w", False), ("a", False), ("r+", False), ("a", True)):
                yield f"{'root' if root else 'nested'},mode={mode},append={append}", mk(**{**base, "root": root, "mode": mode, "append": append})
        # validator chain: every subset of the four checks, symmetric flag symbolic
        for bc in (T, F):
            for tc in (T, F):
                for dc in (T, F):
                    for es in (T, F):
                        yield f"checks={int(bc)}{int(tc)}{int(dc)}{int(es)}", mk(**{**base, "checks": (bc, tc, dc, es)})
        # input forms and column handling
        yield "pixels=frame", mk(**{**base, "pix": "frame"})
        yield "pixels=frame,columns=count", mk(**{**base, "pix": "frame", "cols": ["count"]})
        yield "pixels=frame-missing-count", mk(**{**base, "pix": "frame-missing"})
        yield "columns=count+extra,dtypes", mk(**{**base, "cols": ["count", "extra"], "dtypes": {"extra": "float32", "count": "float64"}})
        yield "assembly+metadata", mk(**{**base, "assembly": True, "metadata": True})
        yield "extra-bin-columns", mk(**{**base, "extra_bins": True})
        # refusals
        yield "bins-not-a-frame", mk(**{**base, "bins_ok": False})
        for m in STD:
            yield f"bins-missing-{m}", mk(**{**base, "missing": m})
        # single-cell append
        yield "scool-cell", mk(**{**base, "scool": True, "mode": "a"})
        yield "scool-cell,extra-bin-columns", mk(**{**base, "scool": True, "mode": "a", "extra_bins": True})
        yield "scool-cell,no-root-uri", mk(**{**base, "scool": True, "mode": "a", "suri_none": True})

    # ------------------------------------------------------------------ helpers
    def _w(self):
        return self._v.path.ghost

    def requires(self, **a):
        w = self._w()
        r = [w["nb"] >= 0, w["nch"] >= 0, w["nnz"] >= 0]
        if not w["root"]:
            r += [z3.PrefixOf(z3.StringVal("/"), w["gp"]), w["gp"] != z3.StringVal("/")]
        return r

    @property
    def raises(self):
        def verr(**a):
            w = self._w()
            if not w["bins_ok"] or w["missing"] is not None or w["pix"] == "frame-missing":
                return True
            if w["scool"] and w["suri_none"]:
                return True
            return False
        return {"ValueError": verr}

    def ensures_raise(self, exc, **a):
        w = self._w()
        # a refused call has not touched any file
        return {"refused-before-any-file-is-opened": not any(op[0] == "open" for op in w["log"])}

    # ------------------------------------------------------------------ postcondition
    def ensures(self, result, cool_uri, bins, pixels, columns, dtypes, metadata, assembly, symmetric_upper, mode, h5opts,
                boundscheck, triucheck, dupcheck, ensure_sorted, lock, append, append_scool, scool_root_uri):
        w = self._w()
        log, fp, gp, root = w["log"], w["fp"], w["gp"], w["root"]
        out = {}
        opens = [op for op in log if op[0] == "open"]
        # ---- C15: file modes
        want = mode if mode is not None else ("a" if append else "w")
        out["first-open-uses-the-requested-mode"] = len(opens) >= 1 and opens[0][1] == "target" and opens[0][3] == want
        out["default-mode-replaces-the-file-append-keeps-it"] = True if mode is not None else (want == ("a" if append else "w"))
        out["later-opens-never-truncate"] = all(op[3] == "r+" for op in opens[1:])
        out["target-file-is-the-one-named-by-the-uri"] = all(op[2] is fp for op in opens if op[1] == "target")
        # ---- C15: what is deleted
        dels = [op for op in log if op[0] == "delete"]
        if root:
            names = [op[2][1] for op in dels]
            out["root-target:only-the-four-tables-are-deleted"] = all(op[1] == "target" and n in ("chroms", "bins", "pixels", "indexes")
                                                                      for op, n in zip(dels, names)) and len(set(names)) == len(names)
            ex = w["exists"]
            out["root-target:a-table-is-deleted-iff-it-exists"] = And(*[
                (ex[n] if n in names else Not(ex[n])) for n in ("chroms", "bins", "pixels", "indexes") if ex.get(n) is not None]) \
                if ex else False
        else:
            out["nested-target:only-the-target-group-is-deleted"] = all(op[1] == "target" and op[2][0] == "top" and _same(op[2][1], gp) for op in dels) and len(dels) <= 1
            out["nested-target:deleted-iff-it-existed"] = Iff(w["group_exists"], len(dels) == 1)
            cg = [op for op in log if op[0] == "create_group" and op[2][0] == "top"]
            out["nested-target:the-group-is-created-afresh"] = len(cg) == 1 and _same(cg[0][2][1], gp)
        # ---- frame: everything written lies under the target group of the target file
        tgt = "/" if root else gp
        written = []
        for op in log:
            if op[0] == "create_group" and op[2][0] == "sub":
                written.append((op[1], op[2]))
            elif op[0] == "hardlink":
                written.append((op[1], op[2]))
            elif op[0] in ("write_chroms", "write_bins", "prepare_pixels", "write_indexes", "write_info", "put"):
                g = op[1][0]
                written.append((g.f.role, g.path) if isinstance(g, _Grp) else (None, None))
        out["every-write-lies-inside-the-target-group"] = all(r == "target" and _under(p, tgt) for r, p in written) and len(written) > 0
        wp = [op for op in log if op[0] == "write_pixels"]
        out["pixels-are-streamed-once-into-<group>/pixels-of-the-target-file"] = (
            len(wp) == 1 and wp[0][1][0] is fp and wp[0][1][1][0] == "join" and _same(wp[0][1][1][1], tgt) and wp[0][1][1][2] == "pixels"
            and wp[0][1][5] is lock)
        # ---- C13: validator chain
        if len(wp) == 1:
            it = wp[0][1][3]
            vcalls = [op for op in log if op[0] == "validate_pixels"]
            tri = And(triucheck, symmetric_upper) if is_z3(symmetric_upper) or is_z3(triucheck) else (triucheck and symmetric_upper)
            anycheck = Or(boundscheck, tri, dupcheck, ensure_sorted)
            chained = isinstance(it, tuple) and it[0] == "map"
            out["validator-chained-iff-a-check-is-requested"] = Iff(anycheck, chained) if is_z3(anycheck) else (bool(anycheck) == chained)
            if chained:
                va = it[1][1]
                out["validator-gets-the-bin-count-and-the-requested-checks"] = And(
                    va[0] == w["nb"], Iff(va[1], boundscheck), Iff(va[2], tri), Iff(va[3], dupcheck), Iff(va[4], ensure_sorted))
                out["the-callers-pixels-are-what-is-validated"] = (it[2] is pixels) or (isinstance(it[2], tuple) and len(it[2]) == 1 and it[2][0] is pixels)
            else:
                out["the-callers-pixels-are-what-is-written"] = (it is pixels) or (isinstance(it, tuple) and len(it) == 1 and it[0] is pixels)
        # ---- C02: indexes are built from what was written
        ib = [op for op in log if op[0] == "index_bins"]
        ip = [op for op in log if op[0] == "index_pixels"]
        wi = [op for op in log if op[0] == "write_indexes"]
        ok = len(ib) == 1 and len(ip) == 1 and len(wi) == 1
        out["indexes-built-once"] = ok
        if ok:
            out["index_bins-reads-the-written-bin-table"] = And(_under(ib[0][1][0].path, tgt), _rel(ib[0][1][0].path) == "bins",
                                                                ib[0][1][1] == w["nch"], ib[0][1][2] == w["nb"])
            out["index_pixels-reads-the-written-pixels-with-their-count"] = And(
                _under(ip[0][1][0].path, tgt), _rel(ip[0][1][0].path) == "pixels", ip[0][1][1] == w["nb"], ip[0][1][2] == w["nnz"])
            out["both-indexes-are-stored-under-<group>/indexes"] = (_rel(wi[0][1][0].path) == "indexes"
                                                                     and wi[0][1][1] == ("chrom_offset-of-the-written-bins",)
                                                                     and wi[0][1][2] == ("bin1_offset-of-the-written-pixels",))
            order = [op[0] for op in log]
            out["indexes-after-the-pixels"] = order.index("write_pixels") < order.index("index_pixels")
        # ---- C01/C02: the info record
        inf = [op for op in log if op[0] == "write_info"]
        out["info-written-once-and-last"] = len(inf) == 1 and [op[0] for op in log if op[0] not in ("close",)][-1] == "write_info"
        if len(inf) == 1:
            d = inf[0][1][1]
            keys = {"bin-type", "bin-size", "storage-mode", "nchroms", "nbins", "sum", "nnz"}
            keys |= ({"genome-assembly"} if assembly is not None else set()) | ({"metadata"} if metadata is not None else set())
            out["info:exactly-the-documented-keys"] = isinstance(d, dict) and set(d) == keys
            if isinstance(d, dict) and set(d) >= keys:
                out["info:counts-are-the-written-ones"] = And(d["nbins"] == w["nb"], d["nchroms"] == w["nch"], d["nnz"] == w["nnz"],
                                                              d["sum"] == w["total"])
                bnone = self._v.path.implied(w["binsize_none"])
                out["info:bin-size-is-what-get_binsize-inferred"] = (
                    (d["bin-type"] == "variable" and d["bin-size"] == "null") if d["bin-type"] == "variable"
                    else (d["bin-type"] == "fixed" and d["bin-size"] is w["bsz"]))
                out["info:bin-type-follows-the-inference"] = (d["bin-type"] == "variable") == bool(bnone)
                sm = d["storage-mode"]
                if is_z3(sm):
                    out["info:storage-mode"] = sm == If(symmetric_upper, z3.StringVal("symmetric-upper"), z3.StringVal("square"))
                else:
                    out["info:storage-mode"] = And(sm in ("symmetric-upper", "square"), Iff(symmetric_upper, sm == "symmetric-upper"))
                if assembly is not None:
                    out["info:assembly-verbatim"] = d["genome-assembly"] is assembly
                if metadata is not None:
                    out["info:metadata-verbatim"] = d["metadata"] is metadata
        # ---- bins / chroms tables (ordinary collection) or links (single-cell append)
        wc = [op for op in log if op[0] == "write_chroms"]
        wb = [op for op in log if op[0] == "write_bins"]
        links = [op for op in log if op[0] == "hardlink"]
        puts = [op for op in log if op[0] == "put"]
        if not append_scool:
            out["tables-written-once-no-links"] = len(wc) == 1 and len(wb) == 1 and not links and not puts
            if len(wc) == 1 and len(wb) == 1:
                out["chroms-under-<group>/chroms"] = _rel(wc[0][1][0].path) == "chroms"
                out["bins-under-<group>/bins-are-the-callers"] = _rel(wb[0][1][0].path) == "bins" and isinstance(wb[0][1][1], _Frame) \
                    and wb[0][1][1].root() is bins
        else:
            out["scool:no-table-is-written-again"] = not wc and not wb
            got = sorted((_rel(op[2]), op[3], op[4]) for op in links)
            exp = sorted([("chroms", "scool-root", ("top", "chroms")), ("bins/chrom", "scool-root", ("top", "bins/chrom")),
                          ("bins/start", "scool-root", ("top", "bins/start")), ("bins/end", "scool-root", ("top", "bins/end"))])
            out["scool:chroms-and-the-three-bin-columns-link-to-the-root-tables"] = got == exp
            extra = [c for c in bins.columns if c not in STD]
            if extra:
                out["scool:own-extra-bin-columns-stored-per-cell"] = (len(puts) == 1 and _rel(puts[0][1][0].path) == "bins"
                                                                      and isinstance(puts[0][1][1], _Frame)
                                                                      and puts[0][1][1].columns == extra and puts[0][1][1].root() is bins)
            else:
                out["scool:nothing-else-put-into-bins"] = not puts
            sr = [op for op in opens if op[1] == "scool-root"]
            out["scool:root-file-opened-without-truncation"] = len(sr) == 1 and sr[0][3] in ("r+", "r", "a")
        # ---- pixel columns prepared
        pp = [op for op in log if op[0] == "prepare_pixels"]
        gm = [op for op in log if op[0] == "get_meta"]
        out["pixel-columns-prepared-once"] = len(pp) == 1 and len(gm) == 1
        if len(pp) == 1 and len(gm) == 1:
            cols, dts = gm[0][1]
            want_cols = ["bin1_id", "bin2_id", "count"] if columns is None else (
                [c for c in ["bin1_id", "bin2_id"] if c not in columns][::-1] + list(columns))
            out["columns:ids-first-then-the-requested-value-columns"] = cols == want_cols
            exp_d = {"bin1_id": "int64", "bin2_id": "int64", "count": "int32"}
            exp_d.update(dtypes or {})
            out["dtypes:callers-override-the-defaults"] = dts == exp_d
            a = pp[0][1]
            nb = w["nb"]
            tri_cap = div(nb * (nb - 1), 2) + nb
            cap = If(symmetric_upper, tri_cap, nb * nb) if is_z3(symmetric_upper) else (tri_cap if symmetric_upper else nb * nb)
            out["pixels-group-prepared-for-the-meta-columns"] = And(_rel(a[0].path) == "pixels", a[1] == nb, a[3] == cols, a[2] == cap)
        return out



class _Tbl:
    """a whole pixel table (DataFrame built from the caller's table)"""

    def __init__(self, log, src, sorted_by=None):
        self.log, self.src, self.sorted_by = log, src, sorted_by

    def pyvc_getattr(self, I, attr, node):
        if attr == "sort_values":
            def sv(I, by, **k):
                self.log.append(("sort_values", by, k))
                return _Tbl(self.log, self.src, by)
            return LibFunc("DataFrame.sort_values", sv)
        raise Exception("DataFrame." + attr)

    def pyvc_getitem(self, I, key, node):
        tbl = self

        class _TCol:
            def pyvc_getattr(self_, I, attr, node):
                if attr in ("is_monotonic_increasing", "is_monotonic"):
                    # whether one id column happens to be non-decreasing says nothing about the order of the pairs
                    return I.path.fresh_bool(f"{key}.is_monotonic_increasing")
                raise Exception("Series." + attr)
        return _TCol()


OPTS_COMMON = ["columns", "dtypes", "metadata", "assembly", "symmetric_upper", "mode", "boundscheck", "dupcheck", "triucheck",
               "ensure_sorted", "h5opts", "lock"]
OPTS_UNORDERED = ["mergebuf", "delete_temp", "temp_dir", "max_merge"]


@contract
class CreateCooler(Contract):
    """create_cooler: a table given whole (DataFrame or dict) is sorted by (bin1_id, bin2_id) - always: sortedness of
    bin1_id alone does not make it sorted - and written through create(); a stream is written through create() when the
    caller says it is ordered and through create_from_unordered() otherwise; uri, bins and every option reach the
    callee unchanged under their own keyword"""
    target = f"{CR}:create_cooler"
    props = ["C01", "C02"]

    def configs(self, v):
        def mk(form, ordered_sym):
            def f(v):
                log = []
                src = {"frame": _Frame(["bin1_id", "bin2_id", "count"], v.Int("n_pix"), "pixels"),
                       "dict": {"bin1_id": Opaque("b1"), "bin2_id": Opaque("b2"), "count": Opaque("c")},
                       "stream": Opaque("an iterable of chunks")}[form]

                def DataFrame_ctor(I, data=None, **k):
                    log.append(("DataFrame", data))
                    return _Tbl(log, data)
                DF = LibFunc("pd.DataFrame", DataFrame_ctor)
                DF.check = lambda x: isinstance(x, _Frame)

                def rec(name):
                    def f_(I, *a, **kw):
                        log.append((name, a, kw))
                    return LibFunc(name, f_)
                opts = {k: Opaque("option " + k) for k in OPTS_COMMON + OPTS_UNORDERED}
                args = dict(cool_uri=v.Str("cool_uri"), bins=Opaque("bins"), pixels=src,
                            ordered=v.Bool("ordered") if ordered_sym else False, **opts)
                args["__free__"] = {"pd": LibNS("pd", {"DataFrame": DF}), "create": rec("create"),
                                    "create_from_unordered": rec("create_from_unordered")}
                args["__ghost__"] = {"log": log, "form": form, "src": src, "opts": opts}
                return args
            return f
        yield "table-as-frame", mk("frame", True)
        yield "table-as-dict", mk("dict", True)
        yield "stream", mk("stream", True)

    def ensures(self, result, cool_uri, bins, pixels, ordered, **opts):
        g = self._v.path.ghost
        log, form = g["log"], g["form"]
        calls = [op for op in log if op[0] in ("create", "create_from_unordered")]
        out = {"exactly-one-producer-call": len(calls) == 1}
        if len(calls) != 1:
            return out
        name, a, kw = calls[0]
        if form in ("frame", "dict"):
            out["a-whole-table-goes-through-create"] = name == "create"
            srt = [op for op in log if op[0] == "sort_values"]
            out["a-whole-table-is-always-sorted-by-both-ids"] = len(srt) == 1 and srt[0][1] == ["bin1_id", "bin2_id"] and not srt[0][2]
            out["what-is-written-is-the-sorted-callers-table"] = len(a) == 3 and isinstance(a[2], _Tbl) and a[2].src is g["src"] \
                and a[2].sorted_by == ["bin1_id", "bin2_id"]
        else:
            want = self._v.path.implied(ordered) if not isinstance(ordered, bool) else ordered
            out["ordered-stream-through-create-else-through-the-sorting-path"] = name == ("create" if want else "create_from_unordered")
            out["the-callers-stream-is-passed-on"] = len(a) == 3 and a[2] is g["src"]
        out["uri-and-bins-unchanged"] = len(a) == 3 and a[0] is cool_uri and a[1] is bins
        keys = OPTS_COMMON + (OPTS_UNORDERED if name == "create_from_unordered" else [])
        out["every-option-reaches-the-callee-under-its-own-keyword"] = sorted(kw) == sorted(keys) and all(kw[k] is g["opts"][k] for k in keys)
        return out
