"""Contract for _balance:_marginalize (C10, C11): the per-chunk marginal is bincount over the ROW bins plus bincount over the
COLUMN bins of the chunk's pixels, both weighted by the SAME transformed data, both of full length (number of bins of the
collection), and the shared chunk is not written.  numpy.bincount is an assumed contract, kept uninterpreted:
bincount(x, weights=w, minlength=n)[i] = sum of w[k] over the records k with x[k] == i, length n when every x[k] < n - the sum
itself is numpy's (and the convention of counting a diagonal pixel at both ends is the recorded finding of C10)."""
from pyvc.api import *  # noqa: F401,F403
from pyvc.values import LibFunc, LibNS
from contracts.common import *  # noqa: F401,F403
from contracts.balance import _chunk, _snap, _frame_ok

BAL = "cooler._balance"


class _Binned:
    pyvc_symbolic = True

    def __init__(self, terms):
        self.terms = terms

    def pyvc_binop(self, I, op, a, b):
        import ast as _ast
        if isinstance(op, _ast.Add) and isinstance(a, _Binned) and isinstance(b, _Binned):
            return _Binned(a.terms + b.terms)
        raise Exception("marginal arithmetic outside the model")

    pyvc_rbinop = pyvc_binop


@contract
class Marginalize(Contract):
    target = f"{BAL}:_marginalize"
    props = ["C10", "C11"]

    def configs(self, v):
        def f(v):
            chunk, data = _chunk(v, True)
            np_ns = v.path.engine.lib["numpy"]
            np2 = LibNS("numpy", dict(np_ns._members, bincount=LibFunc(
                "np.bincount", lambda I, x, weights=None, minlength=0, **k: _Binned([(x, weights, minlength)]))))
            return dict(chunk=chunk, data=data, __free__={"np": np2}, __ghost__={"snap": _snap(chunk), "chunk": chunk, "data": data})
        yield "", f

    def ensures(self, result, chunk, data):
        g = self._v.path.ghost
        px = g["chunk"]["pixels"]
        nb = L(g["chunk"]["bins"]["chrom"])
        o = {"sum-of-two-bincounts": isinstance(result, _Binned) and len(result.terms) == 2}
        if not o["sum-of-two-bincounts"]:
            return o
        keys = [t[0] for t in result.terms]
        o["one-over-the-row-bins-one-over-the-column-bins"] = (keys[0] is px["bin1_id"] and keys[1] is px["bin2_id"]) or \
            (keys[0] is px["bin2_id"] and keys[1] is px["bin1_id"])
        o["both-weighted-by-the-transformed-data"] = all(t[1] is g["data"] for t in result.terms)
        o["both-of-full-length"] = And(*[t[2] == nb for t in result.terms])
        o["chunk-not-written"] = _frame_ok(g["chunk"], g["snap"])
        return o
