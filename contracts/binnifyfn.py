"""Coordinator contract for util:binnify (C20): the genome-wide table is the per-chromosome tables (binnify._each: own contract,
executed inline here) concatenated IN THE ORDER OF THE CHROMOSOME TABLE GIVEN, one per chromosome, re-indexed 0..n-1, and its
chromosome column is a categorical whose categories are the chromosome names in the given order.
Three chromosomes with symbolic names and lengths, symbolic bin size.  ASSUMED (stubs): pandas.concat(axis=0, ignore_index=True)
stacks the frames in the order given; pandas.Categorical; builtin map applies the function to every key in order."""
from pyvc.api import *  # noqa: F401,F403
from pyvc.values import LibFunc, LibNS, SymMap
from pyvc.lib_pandas import DataFrameV
from contracts.common import *  # noqa: F401,F403

UT = "cooler.util"
MAXCOORD = 2 ** 40


class _Stacked:
    def __init__(self, frames, kw):
        self.frames, self.kw = frames, kw
        self.sets = []

    def pyvc_getitem(self, I, key, node):
        return ("column", self, key)

    def pyvc_setitem(self, I, key, val):
        self.sets.append((key, val))


@contract
class Binnify(Contract):
    target = f"{UT}:binnify"
    props = ["C20"]

    def configs(self, v):
        def f(v):
            keys = [v.Str(f"chrom{j}") for j in range(3)]
            lens = [v.Int(f"len{j}") for j in range(3)]
            b = v.Int("binsize")

            class _Sizes:
                """chromsizes: a Series name -> length with three entries in a given order"""
                pyvc_symbolic = True

                def pyvc_getattr(self, I, attr, node):
                    if attr == "keys":
                        return LibFunc("Series.keys", lambda I: list(keys))
                    if attr == "index":
                        return list(keys)
                    raise Exception("Series." + attr)

                def pyvc_getitem(self, I, key, node):
                    for k_, l_ in zip(keys, lens):
                        if key is k_:
                            return l_
                    raise Exception("chromsizes[...] with a name that is not one of its keys")
            log = []
            pd_real = v.path.engine.lib["pandas"]

            def concat(I, frames, **kw):
                frames = list(frames.items) if hasattr(frames, "items") and not isinstance(frames, (list, dict)) else list(frames)
                st = _Stacked(frames, kw)
                log.append(("concat", st))
                return st

            def categorical(I, values, categories=None, ordered=False, **k):
                log.append(("Categorical", values, categories, ordered))
                return ("categorical", values, categories)
            pd2 = LibNS("pandas", dict(pd_real._members, concat=LibFunc("pd.concat", concat), Categorical=LibFunc("pd.Categorical", categorical)))
            return dict(chromsizes=_Sizes(), binsize=b,
                        __free__={"pd": pd2, "map": LibFunc("map", lambda I, fn, it: [I.call(fn, [x], {}) for x in list(it)])},
                        __ghost__={"keys": keys, "lens": lens, "b": b, "log": log})
        yield "three-chromosomes", f

    def requires(self, chromsizes, binsize):
        g = self._v.path.ghost
        return [binsize >= 1, binsize < MAXCOORD] + [And(x >= 0, x < MAXCOORD) for x in g["lens"]]

    def ensures(self, result, chromsizes, binsize):
        g = self._v.path.ghost
        keys, lens, b, log = g["keys"], g["lens"], g["b"], g["log"]
        cc = [e for e in log if e[0] == "concat"]
        o = {"one-concatenation": len(cc) == 1}
        if len(cc) != 1:
            return o
        st = cc[0][1]
        o["stacked-along-rows-and-reindexed"] = st.kw.get("axis", 0) == 0 and st.kw.get("ignore_index") is True
        ok = len(st.frames) == 3 and all(isinstance(fr, DataFrameV) for fr in st.frames)
        o["one-table-per-chromosome"] = ok
        if ok:
            for j, fr in enumerate(st.frames):
                n = cdiv(lens[j], b)
                o[f"table-{j}-is-chromosome-{j}s-in-the-given-order"] = And(L(fr.cols["start"]) == n, forall(
                    0, n, lambda t, fr=fr, j=j: fr.cols["chrom"].at(t) == keys[j]))
        cat = [e for e in log if e[0] == "Categorical"]
        o["chromosome-column-made-categorical-with-the-names-in-the-given-order"] = len(cat) == 1 and list(cat[0][2] or []) == keys \
            and cat[0][1] == ("column", st, "chrom") and st.sets == [("chrom", ("categorical", cat[0][1], cat[0][2]))]
        o["returns-the-stacked-table"] = result is st
        return o
