"""Coordinator contracts for the collection's attribute record and index datasets (C01, C02):

* create._create:write_info - every entry of the caller's info record (nbins, nchroms, nnz, sum, bin-type, bin-size,
  storage-mode, ...) reaches the group's attributes unchanged in ONE update; metadata is stored JSON-encoded (the caller's
  document, or {} when absent); the assembly is the caller's, "unknown" only when none was given; the format identification is
  the cooler magic (the single-cell magic and version when asked) - it is part of that same, single update.
* create._create:write_indexes - chrom_offset and bin1_offset are stored under exactly those names with the arrays given (not
  swapped, not truncated), with the caller's filter options.
* api:info - the read side: every attribute comes back under its own key; string attributes are JSON-decoded when they parse
  (so the metadata document written by write_info comes back as the document), except the assembly name, which comes back as
  the plain string it is; non-string attributes unchanged.
ASSUMED (stubs): json.dumps / json.loads (round trip of JSON-compatible documents), h5py attrs.update / attrs.items /
create_dataset, datetime.now."""
from pyvc.api import *  # noqa: F401,F403
from pyvc.values import ExcVal, LibFunc, LibNS, PyRaise
from contracts.common import *  # noqa: F401,F403

CR = "cooler.create._create"
API = "cooler.api"


class _Attrs:
    def __init__(self, log):
        self.log = log

    def pyvc_getattr(self, I, attr, node):
        if attr == "update":
            return LibFunc("attrs.update", lambda I, d: self.log.append(("attrs.update", dict(d))))
        raise Exception("attrs." + attr)


class _Grp:
    def __init__(self, log):
        self.log = log
        self.attrs = _Attrs(log)

    def pyvc_getattr(self, I, attr, node):
        if attr == "attrs":
            return self.attrs
        if attr == "create_dataset":
            return LibFunc("create_dataset", lambda I, name, **k: self.log.append(("create_dataset", name, k)))
        raise Exception("Group." + attr)


@contract
class WriteInfo(Contract):
    target = f"{CR}:write_info"
    props = ["C02", "C01"]
    raises_exact = False

    def configs(self, v):
        def mk(scool, has_meta, has_asm):
            def f(v):
                log = []
                info = {"nbins": v.Int("nbins"), "nchroms": v.Int("nchroms"), "bin-type": Opaque("bin-type"), "bin-size": Opaque("bin-size"),
                        "storage-mode": Opaque("storage-mode")}
                if not scool:
                    info.update({"nnz": v.Int("nnz"), "sum": v.Int("sum")})
                else:
                    info["ncells"] = v.Int("ncells")
                meta = Opaque("the caller's metadata document")
                asm = Opaque("the caller's assembly name")
                if has_meta:
                    info["metadata"] = meta
                if has_asm:
                    info["genome-assembly"] = asm
                given = dict(info)
                free = {"json": LibNS("json", {"dumps": LibFunc("json.dumps", lambda I, d, **k: ("json", d))}),
                        "datetime": LibNS("datetime", {"now": LibFunc("datetime.now", lambda I: _Now())}),
                        "__version__": "x.y.z"}
                return dict(grp=_Grp(log), info=info, scool=scool, __free__=free,
                            __ghost__={"log": log, "given": given, "meta": meta, "asm": asm, "has_meta": has_meta, "has_asm": has_asm})
            return f
        for scool in (False, True):
            for has_meta in (True, False):
                for has_asm in (True, False):
                    yield f"scool={scool},metadata={'given' if has_meta else 'absent'},assembly={'given' if has_asm else 'absent'}", mk(scool, has_meta, has_asm)

    def ensures(self, result, grp, info, scool):
        g = self._v.path.ghost
        ups = [e for e in g["log"] if e[0] == "attrs.update"]
        o = {"one-update-of-the-groups-attributes-nothing-else": len(ups) == 1 and len(g["log"]) == 1}
        if len(ups) != 1:
            return o
        d = ups[0][1]
        o["every-entry-of-the-callers-record-unchanged"] = all(d.get(k) is val for k, val in g["given"].items() if k not in ("metadata",))
        md = d.get("metadata")
        o["metadata-json-encoded:the-callers-document-or-empty"] = isinstance(md, tuple) and md[0] == "json" and \
            (md[1] is g["meta"] if g["has_meta"] else md[1] == {})
        o["assembly-the-callers-or-unknown"] = (d.get("genome-assembly") is g["asm"]) if g["has_asm"] else d.get("genome-assembly") == "unknown"
        o["format-identification-in-the-same-update"] = d.get("format") == ("HDF5::SCOOL" if scool else "HDF5::Cooler") \
            and "format-version" in d and "format-url" in d and "creation-date" in d and "generated-by" in d
        return o


class _Now:
    def pyvc_getattr(self, I, attr, node):
        return LibFunc("isoformat", lambda I: "2000-01-01T00:00:00")


@contract
class WriteIndexes(Contract):
    target = f"{CR}:write_indexes"
    props = ["C02"]

    def configs(self, v):
        def f(v):
            log = []
            co, bo = v.Arr("chrom_offset"), v.Arr("bin1_offset")
            opts = {"compression": Opaque("compression")}
            return dict(grp=_Grp(log), chrom_offset=co, bin1_offset=bo, h5opts=opts, __ghost__={"log": log, "co": co, "bo": bo, "opts": opts})
        yield "", f

    def ensures(self, result, grp, chrom_offset, bin1_offset, h5opts):
        g = self._v.path.ghost
        ds = [e for e in g["log"] if e[0] == "create_dataset"]
        o = {"two-datasets-nothing-else": len(ds) == 2 and len(g["log"]) == 2 and sorted(e[1] for e in ds) == ["bin1_offset", "chrom_offset"]}
        for e in ds:
            want = g["co"] if e[1] == "chrom_offset" else g["bo"]
            k = e[2]
            shp = k.get("shape")
            o[f"{e[1]}:holds-the-array-given-at-full-length-with-the-callers-options"] = k.get("data") is want and \
                k.get("compression") is g["opts"]["compression"] and isinstance(shp, tuple) and len(shp) == 1
            if isinstance(shp, tuple) and len(shp) == 1:
                o[f"{e[1]}:length"] = shp[0] == want.n
        return o


@contract
class ApiInfo(Contract):
    target = f"{API}:info"
    props = ["C01"]

    def configs(self, v):
        def f(v):
            parses = {k: v.Bool("parses:" + k) for k in ("metadata", "bin-size", "genome-assembly", "storage-mode")}
            vals = {"nbins": v.Int("nbins"), "metadata": v.Str("metadata.text"), "bin-size": v.Str("binsize.text"),
                    "genome-assembly": v.Str("assembly"), "storage-mode": v.Str("mode.text"), "sum": v.Int("sum")}
            by_text = {id(vals[k]): k for k in parses}

            def loads(I, s):
                k = by_text.get(id(s))
                if k is None:
                    raise Exception("json.loads of something that is not an attribute")
                if I.path.branch(parses[k]):
                    return ("decoded", k)
                raise PyRaise(ExcVal("ValueError", ("not JSON",)))

            class _A:
                def pyvc_getattr(self, I, attr, node):
                    if attr == "items":
                        return LibFunc("attrs.items", lambda I: list(vals.items()))
                    raise Exception("attrs." + attr)

            class _H5:
                attrs = _A()

                def pyvc_getattr(self, I, attr, node):
                    if attr == "attrs":
                        return self.attrs
                    raise Exception("Group." + attr)
            return dict(h5=_H5(), __free__={"json": LibNS("json", {"loads": LibFunc("json.loads", loads)})},
                        __ghost__={"vals": vals, "parses": parses})
        yield "", f

    def ensures(self, result, h5):
        g = self._v.path.ghost
        vals, parses = g["vals"], g["parses"]
        o = {"every-attribute-under-its-own-key": isinstance(result, dict) and list(result.keys()) == list(vals.keys())}
        if not o["every-attribute-under-its-own-key"]:
            return o
        o["non-string-attributes-unchanged"] = result["nbins"] is vals["nbins"] and result["sum"] is vals["sum"]
        o["assembly-name-comes-back-as-the-plain-string"] = result["genome-assembly"] is vals["genome-assembly"]
        for k in ("metadata", "bin-size", "storage-mode"):
            dec = isinstance(result[k], tuple) and result[k] == ("decoded", k)
            o[f"{k}:json-decoded-iff-it-parses"] = parses[k] if dec else (Not(parses[k]) if result[k] is vals[k] else False)
        return o
