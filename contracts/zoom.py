"""Contracts for the zoom-level planning (C09): get_multiplier_sequence."""
from pyvc.api import *  # noqa: F401,F403
from contracts.common import *  # noqa: F401,F403

RED = "cooler._reduce"


class _Universe:
    """sorted(bases | resolutions) abstracted: ``resn`` strictly increasing positive integers and a
    membership predicate ``isbase`` (assumed contract of set(), set.union and sorted())"""

    def __init__(self, v):
        self.resn = v.Arr("resn")
        self.isbase = v.Fn("isbase", "int", "bool")


class _BaseSet:
    pyvc_symbolic = True

    def __init__(self, U):
        self.U = U

    def pyvc_toset(self, I):
        return self

    def pyvc_contains(self, I, item):
        return self.U.isbase(item)

    def pyvc_getattr(self, I, attr, node):
        if attr == "union":
            from pyvc.values import LibFunc
            return LibFunc("set.union", lambda I, other: _Union(self.U))
        raise Exception("set." + attr)


class _Union:
    pyvc_symbolic = True

    def __init__(self, U):
        self.U = U

    def pyvc_sorted(self, I):
        from pyvc.values import SymList
        r = self.U.resn
        return SymList(r.n, r.at)


@contract
class GetMultiplierSequence(Contract):
    """C09: every non-base resolution gets the LARGEST smaller member that divides it as predecessor
    (multiplier >= 2); a supplied base is never re-derived (pred == -1); a non-base member without
    any divisor among the smaller members is refused."""
    target = f"{RED}:get_multiplier_sequence"
    props = ["C09"]

    def configs(self, v):
        def f(v):
            U = _Universe(v)
            return dict(resolutions=Opaque("resolutions"), bases=_BaseSet(U), __ghost__={"U": U})
        yield "bases-given", f

    def _U(self):
        return self._v.path.ghost["U"]

    def requires(self, resolutions, bases):
        U = self._U()
        r = U.resn
        return [L(r) >= 1, r[0] >= 1, increasing(r), forall(0, L(r), lambda k: r[k] >= 1)]

    def _derivable(self, j):
        """some smaller member divides resn[j]"""
        r = self._U().resn
        return exists(0, j, lambda q: mod(r[j], r[q]) == 0)

    @property
    def raises(self):
        def cond(resolutions=None, bases=None):
            U = self._U()
            r = U.resn
            return exists(0, L(r), lambda j: And(Not(U.isbase(r[j])), forall(0, j, lambda q: mod(r[j], r[q]) != 0)))
        return {"ValueError": cond}

    # loop 0: for i, target in list(enumerate(resn))[::-1]     (i = n-1-it)
    def _decided_range(self, S, lo, hi):
        """rows lo..hi-1 carry their final (pred, mult): flat clauses, the 'largest predecessor' part
        as a two-variable clause (pred == -1 means: no smaller member divides)"""
        U = self._U()
        r = U.resn
        pred, mult = S.pred, S.mult
        return And(
            forall(lo, hi, lambda j: Implies(U.isbase(r[j]), And(pred[j] == -1, mult[j] == -1))),
            forall(lo, hi, lambda j: And(pred[j] >= -1, pred[j] < j, Implies(pred[j] == -1, mult[j] == -1))),
            forall(lo, hi, lambda j: Implies(pred[j] >= 0, And(r[pred[j]] * mult[j] == r[j], mult[j] >= 2))),
            forall2(lo, hi, 0, hi, lambda j, q: Implies(And(Not(U.isbase(r[j])), pred[j] < q, q < j), mod(r[j], r[q]) != 0)),
        )

    def _inv0(self, S):
        r = self._U().resn
        n = L(r)
        t = S.it
        pred, mult = S.pred, S.mult
        return {
            "lengths": And(pred.n == n, mult.n == n, S.resn.n == n),
            "resn": forall(0, n, lambda k: S.resn[k] == r[k]),
            "processed-are-decided": self._decided_range(S, n - t, n),
            "unprocessed-untouched": forall(0, n - t, lambda j: And(pred[j] == -1, mult[j] == -1)),
        }

    # loop 1: while p >= 0  (inside loop 0)
    def _inv1(self, S):
        r = self._U().resn
        n = L(r)
        i, p = S.i, S.p
        pred, mult = S.pred, S.mult
        return {
            "p-range": And(-1 <= p, p < i, 0 <= i, i < n),
            "no-divisor-above-p": forall(p + 1, i, lambda q: mod(r[i], r[q]) != 0),
            "still-untouched": And(pred[i] == -1, mult[i] == -1),
            "target": S.target == r[i],
            "lengths": And(pred.n == n, mult.n == n, S.resn.n == n),
            "resn": forall(0, n, lambda k: S.resn[k] == r[k]),
            "others-kept": And(self._decided_range(S, i + 1, n),
                               forall(0, i, lambda j: And(pred[j] == -1, mult[j] == -1))),
            "not-a-base": Not(self._U().isbase(r[i])),
        }

    # loop 2: for i, p in enumerate(pred)
    def _inv2(self, S):
        U = self._U()
        r = U.resn
        t = S.it
        pred = S.pred
        return {"checked-so-far": forall(0, t, lambda j: Not(And(pred[j] == -1, Not(U.isbase(r[j])))))}

    @property
    def loops(self):
        return {0: LoopSpec(self._inv0), 1: LoopSpec(self._inv1, variant=lambda S: S.p + 1), 2: LoopSpec(self._inv2)}

    def ensures(self, result, resolutions, bases):
        U = self._U()
        r = U.resn
        n = L(r)
        resn, pred, mult = result
        return {
            "resolutions-sorted": And(L(resn) == n, forall(0, n, lambda k: resn[k] == r[k])),
            "lengths": And(L(pred) == n, L(mult) == n),
            "base-is-never-rederived": forall(0, n, lambda j: Implies(U.isbase(r[j]), pred[j] == -1)),
            "derived-from-a-smaller-member": forall(0, n, lambda j: Implies(Not(U.isbase(r[j])), And(
                0 <= pred[j], pred[j] < j, r[pred[j]] * mult[j] == r[j], mult[j] >= 2))),
            "largest-predecessor": forall(0, n, lambda j: Implies(Not(U.isbase(r[j])), forall(
                pred[j] + 1, j, lambda q: mod(r[j], r[q]) != 0))),
        }
