#!/bin/bash
# usage: sweep2.sh <seed names...>  -> /verif/seeded/<name>/detect.txt
printf "%s\n" "$@" | while read s; do pid=${s%%-*}; echo "$s $pid"; done | xargs -P ${PAR:-4} -L 1 sh -c 'LINES_MAX=40 /verif/tools/run_seeded.sh $0 $1 > /verif/seeded/$0/detect.txt 2>&1'
echo done >> /tmp/sweep2.done
