#!/bin/bash
# usage: tools/confirm_seeded2.sh C05 m1   (round-2 agents' output in /tmp/wt2/<id>.out/<mk>/)
# fresh scratch worktree of /repo HEAD: demo on clean tree (expect 0), apply patch, demo (expect 1), full suite (expect 134 passed)
PID=$1; MK=$2
SRC=/tmp/wt2/$PID.out/$MK
W=/tmp/confirm2/$PID-$MK
mkdir -p /tmp/confirm2 && rm -rf $W
git -C /repo worktree add --detach $W HEAD -q || exit 9
mkdir -p $W.tmp
R=/tmp/confirm2/$PID-$MK.result
( cd $W
  TMPDIR=$W.tmp PYTHONPATH=$W/src timeout 900 /venv/bin/python $SRC/demo.py > $R.clean.out 2>&1; echo "demo_orig_exit=$?" > $R
  git apply $SRC/patch.diff || { echo "patch_failed" >> $R; }
  TMPDIR=$W.tmp PYTHONPATH=$W/src timeout 900 /venv/bin/python $SRC/demo.py > $R.patched.out 2>&1; echo "demo_patched_exit=$?" >> $R
  TMPDIR=$W.tmp PYTHONPATH=$W/src timeout 1800 /venv/bin/python -m pytest -q -p no:cacheprovider --timeout=900 2>&1 | grep -E "passed|failed" | tail -3 > /tmp/confirm2/$PID-$MK.suite
)
git -C /repo worktree remove --force $W; rm -rf $W.tmp
cat $R; tail -1 /tmp/confirm2/$PID-$MK.suite
