#!/bin/bash
# run every seeded change against the check of the property it breaks (scratch copies; /repo untouched)
# usage: tools/sweep_seeded.sh [parallelism]   -> /verif/seeded/<id>/detect.txt
P=${1:-4}
cd /verif
ls seeded | grep -E '^C[0-9]+-' | while read s; do pid=${s%%-*}; echo "$s $pid"; done > /tmp/sweep_list.txt
cat /tmp/sweep_list.txt | xargs -P $P -L 1 sh -c 'LINES_MAX=40 /verif/tools/run_seeded.sh $0 $1 > /verif/seeded/$0/detect.txt 2>&1'
