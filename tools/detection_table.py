#!/usr/bin/env python3
"""build seeded/DETECTION.md from seeded/*/detect.txt (written by tools/sweep_seeded.sh)"""
import glob, json, os, re
rows = []
for d in sorted(glob.glob('/verif/seeded/C*')):
    s = os.path.basename(d)
    m = json.load(open(d + '/meta.json'))
    f = d + '/detect.txt'
    if not os.path.exists(f):
        continue
    t = open(f).read()
    ex = (re.findall(r'exit=(\d+)', t) or ['?'])[-1]
    head = re.search(r'^\[C\d+\].*$', t, re.M)
    nviol = int(re.search(r'violations=(\d+)', head.group(0)).group(1)) if head else 0
    obl = sorted(set(o for o in re.findall(r'failed obligation: (\S+)', t) if '#' in o))   # bounded failures carry no '#'
    bounded = sorted(set(x for x in re.findall(r'replay=\S*/bounded-([^ ]+?)-[0-9a-f]{10}\.json', t)))
    withinput = len([l for l in t.splitlines() if l.startswith('VIOLATION') and 'no-failing-input-found' not in l])
    errs = re.findall(r'CHECKER-ERROR: (.*)', t)
    if m.get('still_breaks_property_on_fixed_tree') is False:
        verdict = 'n/a (neutralised by a fix)'
    elif ex == '1':
        verdict = 'DETECTED'
    elif ex == '0':
        verdict = 'missed'
    else:
        verdict = f'not decided (exit {ex})'
    by = []
    if obl:
        by.append('prover: ' + ', '.join(o.split('#', 1)[1] if '#' in o else o for o in obl[:3]) + (' ...' if len(obl) > 3 else ''))
    if bounded:
        by.append('bounded: ' + ', '.join(bounded[:3]) + (' ...' if len(bounded) > 3 else ''))
    if errs and not by:
        by.append('checker error: ' + errs[0][:90])
    rows.append((s, m['property'], verdict, nviol, withinput, '; '.join(by)))
    m['detected_by'] = {'verdict': verdict, 'violations': nviol, 'with_failing_input': withinput,
                        'prover_obligations': obl[:10], 'bounded_contracts': bounded[:10], 'checker_errors': errs[:2]}
    json.dump(m, open(d + '/meta.json', 'w'), indent=1)
out = ['# Seeded changes vs. checks', '',
       'One row per seeded change (independent sub-agents; confirmed by me). `check` = quick tier of the property',
       'the change breaks, run by tools/run_seeded.sh on a scratch copy with the change applied (ported patch where the',
       'original conflicts with a later fix). DETECTED = exit 1 with VIOLATION lines.', '',
       '| seeded | property | verdict | violations | with failing input | caught by |', '|---|---|---|---|---|---|']
for r in rows:
    out.append('| ' + ' | '.join(str(x) for x in r) + ' |')
n = len(rows); det = sum(1 for r in rows if r[2] == 'DETECTED'); na = sum(1 for r in rows if r[2].startswith('n/a'))
out += ['', f'{det} of {n - na} applicable changes detected ({n} seeded, {na} neutralised by a fix).']
open('/verif/seeded/DETECTION.md', 'w').write('\n'.join(out) + '\n')
print(out[-1])
