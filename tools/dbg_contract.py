import sys, traceback
sys.path.insert(0, '/verif'); sys.path.insert(0, '/tmp/newc')
from pyvc import engine
import importlib, os
for fn in sorted(os.listdir('/verif/contracts')):
    if fn.endswith('.py') and fn != '__init__.py':
        importlib.import_module('contracts.' + fn[:-3])
importlib.import_module(sys.argv[2])
E = engine.Engine()
try:
    obls, st = E.verify(sys.argv[1])
    print(len(obls), st)
    from pyvc import solve
    res = solve.solve_all(obls, timeout_ms=40000, workers=4, long=False)
    import collections
    c = collections.Counter(r['status'] for r in res)
    print(dict(c))
    for r in res:
        if r['status'] not in ('proved', 'covered'):
            print(r['status'], r['name'][:200])
except Exception:
    traceback.print_exc()
