#!/bin/bash
# usage: mutp.sh <pid> <only> <patch file>
PID=$1; ONLY=$2; PATCH=$3
SCR=$(mktemp -d /tmp/mutrun.XXXXXX)
mkdir -p $SCR/repo && cp -r /repo/src $SCR/repo/
( cd $SCR/repo && git init -q . && git apply $PATCH ) || { echo "patch failed"; rm -rf $SCR; exit 9; }
cd /verif && VERIF_OUT=$SCR/out VERIF_REPO=$SCR/repo ./check $PID --tier quick --no-bounded --only "$ONLY" 2>&1 | grep -E "^\[|VIOLATION|KNOWN|CHECKER|UNDEC|failed obligation|error" | cut -c1-330 | head -${LINES_MAX:-8}
echo "exit=${PIPESTATUS[0]}"
rm -rf $SCR
