#!/usr/bin/env python3
"""Run the proof tier of every property whose functions under contract live in a file touched by a harmless
refactoring (benign/NN.diff), on a scratch copy of /repo with the patch applied.  Expected: exit 0 everywhere.
usage: tools/sweep_benign.py [NN ...]   -> benign/RESULTS.md"""
import glob, os, re, shutil, subprocess, sys, tempfile
from concurrent.futures import ThreadPoolExecutor
ROOT = os.path.dirname(os.path.dirname(os.path.abspath(__file__)))
sys.path.insert(0, ROOT)
from props import plan

def props_for(files):
    out = []
    for pid, P in sorted(plan.PLAN.items()):
        mods = {t.split(":")[0].replace(".", "/") for t in P["targets"]}
        if any(any(f.endswith(m + ".py") for m in mods) for f in files):
            out.append(pid)
    return out

def run(patch):
    nn = os.path.basename(patch)[:-5]
    files = re.findall(r"^\+\+\+ b/(\S+)", open(patch).read(), re.M)
    scr = tempfile.mkdtemp(prefix="benign.")
    os.makedirs(scr + "/repo")
    shutil.copytree("/repo/src", scr + "/repo/src")
    subprocess.run(["git", "init", "-q", "."], cwd=scr + "/repo")
    r = subprocess.run(["git", "apply", patch], cwd=scr + "/repo", capture_output=True, text=True)
    res = []
    if r.returncode != 0:
        res.append((nn, "-", "patch does not apply", ""))
    else:
        for pid in props_for(files):
            env = dict(os.environ, VERIF_REPO=scr + "/repo", VERIF_OUT=scr + "/out")
            p = subprocess.run([ROOT + "/check", pid, "--tier", "quick", "--no-bounded"], capture_output=True, text=True, env=env, cwd=ROOT)
            lines = [l for l in p.stdout.splitlines() if re.match(r"VIOLATION|CHECKER-ERROR|UNDECIDED|  failed", l)]
            res.append((nn, pid, f"exit={p.returncode}", " / ".join(l[:160] for l in lines[:3])))
    shutil.rmtree(scr, ignore_errors=True)
    return res

def main():
    sel = sys.argv[1:]
    patches = sorted(glob.glob(ROOT + "/benign/*.diff"))
    if sel:
        patches = [p for p in patches if os.path.basename(p)[:-5] in sel]
    rows = []
    with ThreadPoolExecutor(4) as ex:
        for r in ex.map(run, patches):
            rows += r
            for x in r:
                print(*x, flush=True)
    if not sel:
        with open(ROOT + "/benign/RESULTS.md", "w") as f:
            f.write("| patch | what | property | result | detail |\n|---|---|---|---|---|\n")
            for nn, pid, st, det in rows:
                what = open(f"{ROOT}/benign/{nn}.txt").read().strip().replace("|", "/")[:140]
                f.write(f"| {nn} | {what} | {pid} | {st} | {det} |\n")
        bad = [r for r in rows if r[2] != "exit=0"]
        print(f"{len(rows) - len(bad)} of {len(rows)} (patch, property) runs exit 0")

main()
