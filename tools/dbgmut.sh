#!/bin/bash
# usage: dbgmut.sh <target> <module in /tmp/newc> <file rel> <old> <new>
SCR=$(mktemp -d /tmp/dbgmut.XXXXXX); mkdir -p $SCR/repo && cp -r /repo/src $SCR/repo/
python3 - "$SCR/repo/src/cooler/$3" "$4" "$5" <<'PY'
import sys
p, old, new = sys.argv[1:4]
s = open(p).read(); assert s.count(old) >= 1, "pattern not found"
open(p, 'w').write(s.replace(old, new, 1))
PY
cd /verif && VERIF_REPO=$SCR/repo python3-vt /verif/tools/dbg_contract.py $1 $2 2>&1 | grep -E "Error|Exception|^\{|refuted|unknown" | sort | uniq -c | head -6 | cut -c1-200
rm -rf $SCR
