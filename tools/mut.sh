#!/bin/bash
# usage: /tmp/mut.sh <pid> <only> <python-edit-snippet operating on variable s of file $F> <file rel to src/cooler>
PID=$1; ONLY=$2; F=$3; OLD=$4; NEW=$5
SCR=$(mktemp -d /tmp/mutrun.XXXXXX)
mkdir -p $SCR/repo && cp -r /repo/src $SCR/repo/
python3 - "$SCR/repo/src/cooler/$F" "$OLD" "$NEW" <<'PY'
import sys
p, old, new = sys.argv[1:4]
s = open(p).read()
assert s.count(old) >= 1, "pattern not found"
s = s.replace(old, new, 1)
open(p, 'w').write(s)
PY
[ $? -eq 0 ] || { rm -rf $SCR; exit 9; }
cd /verif && VERIF_OUT=$SCR/out VERIF_REPO=$SCR/repo ./check $PID --tier quick --no-bounded --only "$ONLY" 2>&1 | grep -E "^\[|VIOLATION|KNOWN|CHECKER|UNDEC|failed obligation|error" | cut -c1-400 | head -${LINES_MAX:-12}
echo "exit=${PIPESTATUS[0]}"
rm -rf $SCR
