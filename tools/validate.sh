#!/bin/bash
# regenerate MANIFEST.json from props/plan.py and validate it and every evidence file against the given schemas
cd /verif && python3 tools/gen_manifest.py >/dev/null && python3-vt - <<'PY'
import json, jsonschema, sys
m = json.load(open('/verif/MANIFEST.json'))
jsonschema.validate(m, json.load(open('/root/.vp/MANIFEST.schema.json')))
S = json.load(open('/root/.vp/EVIDENCE.schema.json'))
bad = 0
for i in range(1, 21):
    p = 'C%02d' % i
    try:
        jsonschema.validate(json.load(open('/verif/evidence/%s.json' % p)), S)
    except Exception as e:
        bad += 1
        print(p, 'INVALID', str(e)[:200])
print('manifest valid;', 20 - bad, 'of 20 evidence files valid')
sys.exit(1 if bad else 0)
PY
