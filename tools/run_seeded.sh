#!/bin/bash
# usage: tools/run_seeded.sh <seed dir name, e.g. C04-m1> <property> [extra check args]
# Runs the check against a scratch copy of /repo with the seeded change applied
# (VERIF_REPO points the prover, replayer and bounded tier at the copy), then removes the copy.
# Equivalent to `git -C /repo apply ...; ./check ...; git -C /repo checkout -- .` but does not
# disturb other processes that import /repo/src while it runs.
SEED=$1; PID=$2; shift 2
SCR=$(mktemp -d /tmp/seedrun.XXXXXX)
mkdir -p $SCR/repo && cp -r /repo/src /repo/tests $SCR/repo/ 2>/dev/null
PATCH=/verif/seeded/$SEED/patch.diff; [ -f /verif/seeded/$SEED/patch_on_fixed_tree.diff ] && PATCH=/verif/seeded/$SEED/patch_on_fixed_tree.diff
( cd $SCR/repo && git init -q . && git apply $PATCH ) || { echo "patch failed"; rm -rf $SCR; exit 9; }
cd /verif && VERIF_OUT=$SCR/out VERIF_REPO=$SCR/repo ./check $PID --tier quick "$@" 2>&1 | grep -E "^\[|VIOLATION|KNOWN|CHECKER|UNDEC|failed obligation" | head -${LINES_MAX:-14}
echo "exit=${PIPESTATUS[0]}"
rm -rf $SCR
