#!/bin/bash
# usage: tools/run_seeded.sh <seed dir name, e.g. C04-m1> <property> [extra check args]
# applies the seeded change to /repo, runs the check, and ALWAYS undoes it
SEED=$1; PID=$2; shift 2
cd /repo && git status --short | grep -q . && { echo "/repo not clean"; exit 9; }
git -C /repo apply /verif/seeded/$SEED/patch.diff || exit 9
cd /verif && ./check $PID --tier quick "$@" 2>&1 | grep -E "^\[|VIOLATION|KNOWN|CHECKER|UNDEC|failed obligation" | head -${LINES_MAX:-14}
echo "exit=${PIPESTATUS[0]}"
git -C /repo checkout -- . 
git -C /repo status --short | head -3
