#!/usr/bin/env python3
"""Regenerate MANIFEST.json from props/plan.py (keeps it valid at all times)."""
import json, os, sys
ROOT = os.path.dirname(os.path.dirname(os.path.abspath(__file__)))
sys.path.insert(0, ROOT)
from props.plan import PLAN, NOT_APPLICABLE
props = [json.loads(l) for l in open(os.path.join(ROOT, "properties.jsonl"))]
checks = []
for p in props:
    pid = p["id"]
    if pid not in PLAN:
        continue
    P = PLAN[pid]
    checks.append({
        "property_id": pid,
        "quick_cmd": f"./check {pid} --tier quick",
        "thorough_cmd": f"./check {pid} --tier thorough",
        "evidence_file": f"evidence/{pid}.json",
        "replay_cmd_template": f"./check {pid} --replay {{path}}",
        "engine": "pyvc",
        "level_claimed": {"category": P.get("level", "proof"), "text": P["level_text"], "design_ref": P.get("design_ref", f"DESIGN.md section 3, {pid}")},
        "level_note": P["level_note"],
        "technique": P.get("technique", "contract-based deductive verification: VCs generated from the real AST (pyvc) and discharged by z3/cvc5; bounded run-time contracts as labelled stand-in"),
    })
na = [{"property_id": p["id"], "reason": NOT_APPLICABLE.get(p["id"], "not built yet (build in progress; planned per DESIGN.md section 3)")}
      for p in props if p["id"] not in PLAN]
m = {"version": 1,
     "setup_cmd": "python3-vt -c 'import z3, cvc5' && /venv/bin/python -c 'import cooler, numpy, pandas, h5py'",
     "hooks": {"guard": "OPEN2C_COOLER_VERIF",
               "enable": "none needed: contracts are sidecars under /verif/contracts; the prover re-reads /repo/src with ast on every run and the bounded tier imports /repo/src directly; no hook commits in /repo",
               "baseline_off_cmd": "cd /repo && /venv/bin/python -m pytest -ra -q -p no:cacheprovider --timeout=900 --continue-on-collection-errors",
               "source_commits": [], "add_only": True},
     "engines": [{"name": "pyvc", "path": "pyvc/", "serves_properties": sorted(PLAN),
                  "kind_free_text": "own VC generator: path-forking symbolic executor over the real Python AST + sidecar contracts (requires/ensures/raises/loop invariants/ghost state/lemmas), obligations discharged by z3 (python API) with cvc5 fallback; counterexamples replayed on the real code under /venv/bin/python; bounded run-time-contract tier as labelled stand-in"}],
     "checks": checks,
     "notes": "exit 0 held / 1 VIOLATION / 2 undecided / 3 checker error. See DESIGN.md.",
     "not_applicable": na}
json.dump(m, open(os.path.join(ROOT, "MANIFEST.json"), "w"), indent=1)
print("checks:", [c["property_id"] for c in checks], "n/a:", len(na))
