#!/usr/bin/env python3
"""copy a confirmed seeded change from the agents' scratch into /verif/seeded/<id>/"""
import json, os, shutil, sys
for spec in sys.argv[1:]:
    pid, mk = spec.split("-", 1)
    src = f"/tmp/agentscratch/{pid}/{mk}"
    dst = f"/verif/seeded/{pid}-{mk}"
    CONF = "/tmp/confirm"
    if os.environ.get("ROUND") == "2":   # round-2 agents: /tmp/wt2/<id>.out/<mk>, kept as <id>-r2<mk>
        src = f"/tmp/wt2/{pid}.out/{mk}"
        dst = f"/verif/seeded/{pid}-r2{mk}"
        CONF = "/tmp/confirm2"
    os.makedirs(dst, exist_ok=True)
    for f in ("patch.diff", "demo.py", "notes.txt"):
        shutil.copy(os.path.join(src, f), os.path.join(dst, f))
    res = open(f"{CONF}/{pid}-{mk}.result").read() if os.path.exists(f"{CONF}/{pid}-{mk}.result") else ""
    suite = open(f"{CONF}/{pid}-{mk}.suite").read() if os.path.exists(f"{CONF}/{pid}-{mk}.suite") else ""
    ok = "demo_orig_exit=0" in res and "demo_patched_exit=1" in res and "134 passed" in suite
    meta = {"property": pid, "origin": "independent sub-agent given only the property text and a scratch worktree",
            "needs_to_manifest": open(os.path.join(src, "notes.txt")).read().strip()[:1500],
            "confirmed_by_me": {"how": "fresh scratch worktree of /repo HEAD: demo.py on clean tree (expect exit 0), git apply patch.diff, demo.py (expect exit 1), full pytest suite with the patch (expect 134 passed, only the known test_roundtrip failure)",
                                 "demo_clean_exit0": "demo_orig_exit=0" in res, "demo_patched_exit1": "demo_patched_exit=1" in res,
                                 "suite_with_patch": [l for l in suite.splitlines() if "passed" in l][:1]},
            "confirmed": ok, "detected_by": None}
    json.dump(meta, open(os.path.join(dst, "meta.json"), "w"), indent=1)
    print(spec, "confirmed" if ok else "NOT CONFIRMED")
