"""C11 bounded stand-in: the real balance_cooler under every chunk size and many
map implementations / completion orders, compared with the single-chunk run, with
a repeated run, with the documented procedure on the dense matrix, and with the
CLI (which uses Pool.imap_unordered); plus a probe that records which stored
pixels every split-apply-combine pass actually reads.

Contracts
  chunksize-invariant          weights (1e-12 relative, bin by bin), NaN set, scale, var, converged
                               equal to the chunksize=None / builtin-map run, for chunksize 1..nnz+2
  map-invariant                the same for eager list, lazy generator, reversed, seeded permuted
                               evaluation order, permuted DELIVERY order (completion order adversary),
                               every permutation when <= 4 chunks, multiprocess Pool(2|3).map/imap/imap_unordered
  repeat-invariant             a second identical call gives the same result
  reference==dense-procedure   the single-chunk run coincides with the documented iterative correction
                               on the dense symmetric matrix (main diagonal once, plain trans matrix)
  pixels-visited-exactly-once  every pass reads each stored pixel of [0,nnz) (cis-only sweeps: of the
                               chromosome's pixel range) exactly once, content identical to the stored rows
  cli==api                     `cooler balance -p N -c K ...` stores the weights/stats the API returns
  repeat-invariant:after-rewriting-the-same-path
                               repeated runs WITH HISTORY in one process: the cooler at one path is rewritten (same number
                               of bins, other chromosome layout and/or pixels; overwrite / os.replace / unlink+create) after
                               it was balanced in every mode with the builtin map and through the pool workers; balancing
                               the new contents (new Cooler(P), URI P::/, builtin map and the same pools) must give what a
                               byte-identical copy at a never-used path gives in this process AND in a brand-new process,
                               and the dense procedure - nothing may be remembered from the earlier file

Latitude granted by the statement: floating-point summation order (hence 1e-12, not bit equality)."""
import sys, os
sys.path.insert(0, os.path.dirname(os.path.dirname(os.path.abspath(__file__))))
import hashlib
import json
import itertools
import math
import shutil
import traceback
import warnings

warnings.filterwarnings("ignore")
import numpy as np
import pandas as pd
import h5py
import cooler
import cooler.parallel
from cooler._balance import balance_cooler
from bounded.common import *

np.seterr(all="ignore")
MAXREC_PER_SIG = 2
WTOL = 1e-12


# ------------------------------------------------------------------ collector (picklable; merged into Bounded)
class Rec:
    def __init__(self):
        self.counts = {}
        self.nt = set()
        self.first = {}
        self.fails = []
        self.sigs = {}

    def ok(self, contract, case, nontrivial=True):
        self.counts[contract] = self.counts.get(contract, 0) + 1
        if nontrivial:
            self.nt.add(hashlib.md5(repr((contract, case)).encode()).hexdigest())
        if contract not in self.first:
            self.first[contract] = (case, nontrivial)

    def fail(self, contract, case, observed, expected, signature=None):
        sig = signature or contract
        self.sigs[sig] = self.sigs.get(sig, 0) + 1
        if self.sigs[sig] <= MAXREC_PER_SIG:
            self.fails.append((contract, case, observed, expected, sig))
        else:
            self.counts[contract] = self.counts.get(contract, 0) + 1

    def check(self, contract, cond, case, observed=None, expected=None, nontrivial=True, signature=None):
        if cond:
            self.ok(contract, case, nontrivial)
        else:
            self.fail(contract, case, observed, expected, signature)
        return bool(cond)

    def guarded(self, contract, case, fn, signature=None):
        try:
            return fn()
        except Exception as e:
            self.fail(contract, case, f"{type(e).__name__}: {e}\n{traceback.format_exc(limit=4)}",
                      "no exception", signature or (contract + ":exception"))
            return None


def merge(B, rec, state):
    for c, (case, nt) in rec.first.items():
        if c not in state["sampled"]:
            state["sampled"].add(c)
            B.ok(c, case, nt, sample=len(B.samples) < 7)
            rec.counts[c] -= 1
    for c, k in rec.counts.items():
        B.contracts[c] = B.contracts.get(c, 0) + k
        B.evaluations += k
    B.nontrivial |= rec.nt
    for contract, case, obs, exp, sig in rec.fails:
        if state["recorded"].get(sig, 0) < MAXREC_PER_SIG:
            state["recorded"][sig] = state["recorded"].get(sig, 0) + 1
            B.fail(contract, case, obs, exp, sig)
        else:
            B.contracts[contract] = B.contracts.get(contract, 0) + 1
            B.evaluations += 1
    for sig, k in rec.sigs.items():
        state["failcount"][sig] = state["failcount"].get(sig, 0) + k


# ------------------------------------------------------------------ inputs
def layout_bins(sizes):
    rows = []
    for ci, k in enumerate(sizes):
        for b in range(k):
            rows.append((f"c{ci + 1}", b * 10, b * 10 + 10))
    return pd.DataFrame(rows, columns=["chrom", "start", "end"])


def chrom_ids(sizes):
    return np.repeat(np.arange(len(sizes)), sizes)


def offsets(sizes):
    return np.concatenate([[0], np.cumsum(sizes)]).astype(int)


def build_matrix(spec):
    n = spec["n"]
    F = np.zeros((n, n), dtype=np.int64)
    if spec["kind"] == "upper":
        it = iter(spec["vals"])
        for i in range(n):
            for j in range(i, n):
                F[i, j] = F[j, i] = next(it)
    elif spec["kind"] == "rand":
        g = np.random.default_rng(spec["seed"])
        U = np.triu((g.random((n, n)) < spec["density"]) * g.integers(1, spec["maxval"] + 1, (n, n)))
        F = U + np.triu(U, 1).T
        for i in spec.get("empty", []):
            F[i, :] = 0
            F[:, i] = 0
    else:
        raise ValueError(spec)
    assert np.array_equal(F, F.T)
    return F


def upper_spec(F):
    n = len(F)
    return {"kind": "upper", "n": n, "vals": [int(F[i][j]) for i in range(n) for j in range(i, n)]}


def make_x0(kind, n):
    if kind is None:
        return None
    x = np.ones(n, dtype=float)
    if kind == "rand":
        return np.array([0.5 + ((7 * i + 3) % 5) / 4.0 for i in range(n)])
    if kind == "zero@1":
        x[min(1, n - 1)] = 0.0
        return x
    if kind == "nan@last":
        x[n - 1] = np.nan
        return x
    raise ValueError(kind)


def make_blacklist(kind, n):
    if kind is None:
        return None
    if kind == "[1]":
        return [min(1, n - 1)]
    if kind == "[0,last]":
        return sorted({0, n - 1})
    raise ValueError(kind)


BASE = dict(mode="gw", ig=1, nnz=1, cnt=0, mad=0, bl=None, tol=1e-5, maxit=25, x0=None, rescale=True)


def O(**kw):
    o = dict(BASE)
    o.update(kw)
    return o


OPTS = [O(), O(mode="cis", nnz=0, mad=1), O(mode="trans", ig=0),
        O(ig=0, nnz=2, cnt=3, mad=5, bl="[1]", tol=1e-3), O(mode="cis", ig=2, x0="rand", rescale=False, tol=1e-3),
        O(mode="trans", mad=1, x0="zero@1", tol=1e-3)]


def random_opts(rng, k):
    out = []
    for _ in range(k):
        out.append(O(mode=rng.choice(("gw", "cis", "trans")), ig=rng.choice((0, 1, 2, 3)), nnz=rng.choice((0, 1, 2, 3)),
                     cnt=rng.choice((0, 0, 3)), mad=rng.choice((0, 1, 5)), bl=rng.choice((None, None, "[1]", "[0,last]")),
                     tol=rng.choice((1e-5, 1e-3, 1e-8)), maxit=rng.choice((25, 25, 3, 60)),
                     x0=rng.choice((None, None, "rand", "zero@1", "nan@last")), rescale=rng.choice((True, True, False))))
    return out


# ------------------------------------------------------------------ dense statement of the documented procedure
def filtered(F, chrom, mode, ig):
    n = len(F)
    idx = np.arange(n)
    Af = F.astype(float).copy()
    if ig:
        Af[np.abs(idx[:, None] - idx[None, :]) < ig] = 0
    same = chrom[:, None] == chrom[None, :]
    base = Af.copy()
    if mode == "cis":
        Af[~same] = 0
        base = Af.copy()
    elif mode == "trans":
        Af[same] = 0
    return Af, base


def prefilter_mask(base, offs, opt, x0, diag2):
    n = len(base)
    d = np.diag(base)
    rs = base.sum(1) + (d if diag2 else 0)
    rn = (base != 0).sum(1) + ((d != 0) if diag2 else 0)
    mask = np.zeros(n, dtype=bool)
    border = False
    if opt["nnz"] > 0:
        mask |= rn < opt["nnz"]
    if opt["cnt"]:
        mask |= rs < opt["cnt"]
    if opt["mad"] > 0:
        norm = np.full(n, np.nan)
        for lo, hi in zip(offs[:-1], offs[1:]):
            c = rs[lo:hi]
            pos = c[c > 0]
            if len(pos):
                norm[lo:hi] = c / np.median(pos)
        pos = norm[norm > 0]
        if len(pos):
            L = np.log(pos)
            med = np.median(L)
            dev = np.median(np.abs(L - med))
            cutoff = np.exp(med - opt["mad"] * dev)
            mask |= norm < cutoff
            border = bool(((norm != cutoff) & (np.abs(norm - cutoff) <= 1e-12 * cutoff)).any())
    bl = make_blacklist(opt["bl"], n)
    if bl is not None and len(bl):
        mask[np.asarray(bl, dtype=int)] = True
    if x0 is not None:
        mask |= np.isnan(x0) | (x0 == 0)
    return mask, border


def cweights(sizes):
    n = int(sum(sizes))
    return 1.0 / np.concatenate([[1 - k / n] * k for k in sizes])


def dense_ic(F, sizes, opt, diag2=False, cw=False):
    """iterative correction on the dense symmetric matrix: w <- w / (rowsum(W A_f W) / mean) until var < tol.
    diag2 (main diagonal counted twice) / cw (per-chromosome factor in trans-only) reproduce two
    deviating conventions; they are used ONLY to name the class of a failure."""
    n = len(F)
    chrom = chrom_ids(sizes)
    offs = offsets(sizes)
    Af, base = filtered(F, chrom, opt["mode"], opt["ig"])
    x0 = make_x0(opt["x0"], n)
    mask, border = prefilter_mask(base, offs, opt, x0, diag2)
    w = np.ones(n) if x0 is None else np.where(np.isnan(x0), 0.0, x0)
    w[mask] = 0
    c = cweights(sizes) if (cw and opt["mode"] == "trans") else np.ones(n)
    dg = np.diag(Af).copy()
    blocks = list(zip(offs[:-1], offs[1:])) if opt["mode"] == "cis" else [(0, n)]
    scales, variances, near_tol = [], [], False
    for lo, hi in blocks:
        var = np.nan
        nz = np.array([])
        for _ in range(opt["maxit"]):
            u = np.nan_to_num(w * c)
            m = u * (Af @ u)
            if diag2:
                m = m + u * u * dg
            m = m[lo:hi]
            nz = m[m != 0]
            if not len(nz):
                w[lo:hi] = np.nan
                var = 0.0
                break
            mm = m / nz.mean()
            mm[mm == 0] = 1
            w[lo:hi] /= mm
            var = nz.var()
            if abs(var - opt["tol"]) <= 1e-6 * opt["tol"]:
                near_tol = True
            if var < opt["tol"]:
                break
        scale = nz.mean() if len(nz) else np.nan
        b = w[lo:hi]
        b[b == 0] = np.nan
        if opt["rescale"]:
            w[lo:hi] /= np.sqrt(scale)
        scales.append(scale)
        variances.append(var)
    return w, np.array(scales), np.array(variances), border or near_tol


# ------------------------------------------------------------------ comparing two results
def close(a, b, rel, abs_=0.0):
    a = np.asarray(a, dtype=float)
    b = np.asarray(b, dtype=float)
    if a.shape != b.shape:
        return False
    na, nb = np.isnan(a), np.isnan(b)
    if not np.array_equal(na, nb):
        return False
    return bool(np.all(na | (np.abs(a - b) <= rel * np.maximum(np.abs(a), np.abs(b)) + abs_)))


def lst(a):
    return [None if (isinstance(x, float) and math.isnan(x)) else x for x in np.atleast_1d(np.asarray(a, dtype=float)).tolist()]


def pack(out):
    bias, stats = out
    return dict(w=np.array(bias, dtype=float), scale=np.atleast_1d(np.asarray(stats["scale"], dtype=float)),
                var=np.atleast_1d(np.asarray(stats["var"], dtype=float)), conv=np.atleast_1d(np.asarray(stats["converged"])).astype(bool))


def same(a, b, wtol=WTOL):
    mu = float(np.max(np.nan_to_num(b["scale"]) ** 2, initial=0.0))
    return (close(a["w"], b["w"], wtol) and close(a["scale"], b["scale"], wtol)
            and close(a["var"], b["var"], 1e-6, 1e-13 * mu) and np.array_equal(a["conv"], b["conv"]))


def show(r):
    return dict(weights=lst(r["w"]), scale=lst(r["scale"]), var=lst(r["var"]), converged=r["conv"].tolist())


def call_balance(clr, opt, n, cs=None, mapf=map, **extra):
    return pack(balance_cooler(
        clr, cis_only=opt["mode"] == "cis", trans_only=opt["mode"] == "trans", ignore_diags=opt["ig"],
        mad_max=opt["mad"], min_nnz=opt["nnz"], min_count=opt["cnt"], blacklist=make_blacklist(opt["bl"], n),
        rescale_marginals=opt["rescale"], x0=make_x0(opt["x0"], n), tol=opt["tol"], max_iters=opt["maxit"],
        chunksize=cs, map=mapf, **extra))


def dense_verdict(F, sizes, o, got):
    """(agrees with the documented dense procedure?, name of a KNOWN deviating convention that explains a disagreement | None,
    dense result, borderline?) - the conventions are tried only to name the class of a failure"""
    mode = o["mode"]
    dw, dscale, dvar, dborder = dense_ic(F, sizes, o)

    def agrees(d2, cw):
        w_, s_, v_, _ = dense_ic(F, sizes, o, diag2=d2, cw=cw)
        mu = float(np.max(np.nan_to_num(s_) ** 2, initial=0.0))
        return close(got["w"], w_, 1e-9) and close(got["scale"], s_, 1e-9) and close(got["var"], v_, 1e-6, 1e-13 * mu) \
            and np.array_equal(got["conv"], v_ < o["tol"])
    if agrees(False, False):
        return True, None, (dw, dscale, dvar), dborder
    known = None
    if mode == "trans" and len(sizes) == 1 and np.isnan(got["w"]).all() and np.isnan(got["var"]).all() and not got["conv"].any():
        # one chromosome: no inter-chromosomal data.  The chromosome factor is 1/(1-1): NaN marginals, max_iters sweeps,
        # var = NaN / converged = False instead of the documented "no data" outcome (all NaN, var 0, converged)
        known = "trans-only:single-chromosome:nan-variance-not-converged"
    d2p = o["ig"] == 0 and bool(np.diag(F).any())
    for d2, cw in ((True, False), (False, True), (True, True)):
        if known or (d2 and not d2p) or (cw and mode != "trans"):
            continue
        if agrees(d2, cw):
            known = "+".join((["ignore_diags=0:main-diagonal-counted-twice"] if d2 else []) +
                             (["trans-only:chromosome-factor-missing-from-returned-weights"] if cw else []))
    return False, known, (dw, dscale, dvar), dborder


# ------------------------------------------------------------------ maps satisfying the map contract
def map_list(f, keys):
    return [f(k) for k in keys]


def map_gen(f, keys):
    return (f(k) for k in keys)


def map_reversed(f, keys):
    return [f(k) for k in reversed(list(keys))]


class PermEval:
    """evaluates (and yields) in a fresh seeded order at every pass"""

    def __init__(self, seed):
        self.g = np.random.default_rng(seed)

    def __call__(self, f, keys):
        keys = list(keys)
        order = self.g.permutation(len(keys))
        return (f(keys[i]) for i in order)


class PermDeliver:
    """evaluates in key order, hands the results back in a seeded order (completion-order adversary)"""

    def __init__(self, seed):
        self.g = np.random.default_rng(seed)

    def __call__(self, f, keys):
        res = [f(k) for k in keys]
        order = self.g.permutation(len(res))
        return iter([res[i] for i in order])


class NthPerm:
    """the p-th permutation (lexicographic, p mod k!) of the k keys at every pass"""

    def __init__(self, p):
        self.p = p

    def __call__(self, f, keys):
        keys = list(keys)
        k = len(keys)
        if k == 0:
            return iter(())
        perm = next(itertools.islice(itertools.permutations(range(k)), self.p % math.factorial(k), None))
        return (f(keys[i]) for i in perm)


SIMPLE_MAPS = [("list", lambda s: map_list), ("generator", lambda s: map_gen), ("reversed", lambda s: map_reversed),
               ("perm-eval", lambda s: PermEval(s)), ("perm-eval-b", lambda s: PermEval(s + 7919)), ("perm-deliver", lambda s: PermDeliver(s))]


# ------------------------------------------------------------------ probe: which pixels does every pass read?
class Probe:
    def __init__(self):
        self.runs = []
        self.cur = None

    def map(self, f, keys):
        keys = [(int(a), int(b)) for a, b in keys]
        self.cur = []
        self.runs.append((keys, self.cur))
        return [f(k) for k in keys]

    def __enter__(self):
        probe = self
        self.orig = cooler.parallel.chunkgetter.__call__

        def spy(cg, span):
            out = probe.orig(cg, span)
            if probe.cur is not None:
                probe.cur.append((int(span[0]), int(span[1]), {k: np.array(v) for k, v in out["pixels"].items()},
                                  len(out["bins"]["start"]) if "bins" in out else None))
            return out
        cooler.parallel.chunkgetter.__call__ = spy
        return self

    def __exit__(self, *a):
        cooler.parallel.chunkgetter.__call__ = self.orig


def probe_check(rec, path, F, sizes, mspec, mode, cs):
    n = len(F)
    case = dict(matrix=mspec, chroms=list(sizes), mode=mode, chunksize=cs)
    with h5py.File(path, "r") as h5:
        st = {k: h5["pixels"][k][:] for k in ("bin1_id", "bin2_id", "count")}
        b1o = h5["indexes/bin1_offset"][:]
        co = h5["indexes/chrom_offset"][:]
    nnz = len(st["count"])
    allowed = {(0, nnz)}
    chrom_ranges = [(int(b1o[lo]), int(b1o[hi])) for lo, hi in zip(co[:-1], co[1:])]
    opt = O(mode=mode, ig=1, nnz=1, mad=1, maxit=2, tol=1e-5)
    with Probe() as pr:
        out = rec.guarded("pixels-visited-exactly-once", case, lambda: call_balance(cooler.Cooler(path), opt, n, cs, pr.map),
                          signature=f"pixels-visited-exactly-once:exception:chunksize={'None' if cs is None else 'k'}:{mode}:{'empty-cooler' if nnz == 0 else 'nnz>0'}")
    if out is None:
        return
    problems = []
    seen_ranges = set()
    for ri, (keys, reads) in enumerate(pr.runs):
        if [(a, b) for a, b, _, _ in reads] != keys:
            problems.append(f"pass {ri}: keys {keys} but reads {[(a, b) for a, b, _, _ in reads]}")
        ivs = []
        for lo, hi, px, nb in reads:
            L = len(px["count"])
            want = {k: v[lo:hi] for k, v in st.items()}
            if L != len(want["count"]) or any(not np.array_equal(px[k], want[k]) for k in st):
                problems.append(f"pass {ri}: span ({lo},{hi}) returned {L} rows that are not stored rows [{lo},{min(hi, nnz)})")
            if nb is not None and nb != n:
                problems.append(f"pass {ri}: span ({lo},{hi}) came with {nb} bins instead of the whole table")
            if L:
                ivs.append((lo, lo + L))
        ivs.sort()
        for (a0, a1), (b0, b1) in zip(ivs[:-1], ivs[1:]):
            if b0 < a1:
                problems.append(f"pass {ri}: rows [{b0},{min(a1, b1)}) read twice")
            elif b0 > a1:
                problems.append(f"pass {ri}: rows [{a1},{b0}) not read")
        rng_ = (ivs[0][0], ivs[-1][1]) if ivs else None
        if rng_ is None:
            # nothing read: fine only if the range meant is empty (no pixels at all, or a chromosome without pixels)
            if nnz and not (mode == "cis" and any(a == b for a, b in chrom_ranges)):
                problems.append(f"pass {ri}: no pixel read although nnz={nnz}")
            continue
        seen_ranges.add(rng_)
        ok_ranges = allowed | (set(chrom_ranges) if mode == "cis" else set())
        if rng_ not in ok_ranges:
            problems.append(f"pass {ri}: rows {rng_} are neither all stored pixels (0,{nnz}) nor one chromosome's pixel range")
    if nnz and (0, nnz) not in seen_ranges:
        problems.append("no pass over all stored pixels")
    if mode == "cis":
        for r in chrom_ranges:
            if r[0] != r[1] and r not in seen_ranges:
                problems.append(f"cis-only: chromosome pixel range {r} never swept")
    rec.check("pixels-visited-exactly-once", not problems, case, problems[:6], "every pass tiles its pixel range exactly once",
              nontrivial=nnz > 0, signature=f"pixels-visited-exactly-once:{mode}")


# ------------------------------------------------------------------ one (matrix, layout, option vector)
def span_probe(rec, nmax):
    """the spans balance_cooler hands to the split engine, for EVERY pixel count 0..nmax x EVERY chunksize 1..nnz+2 (and None):
    the real function is called on a stand-in cooler that only answers info['nnz'] / info['nbins'], and is stopped at its first
    use of the split engine (cooler._balance.split is replaced by a recorder): the spans must cover every pixel of [0, nnz)
    exactly once, in order (an end beyond nnz is harmless: slices are clipped)"""
    import cooler._balance as cb

    class _Stop(Exception):
        pass

    class _Clr:
        def __init__(self, n):
            self.info = {"nnz": n, "nbins": 6}
            self.chromnames = ["a", "b"]

    seen = {}

    def rec_split(clr, *a, spans=None, **k):
        seen["spans"] = spans
        raise _Stop()
    orig = cb.split
    cb.split = rec_split
    C = "spans-cover-every-pixel-exactly-once@every-nnz-and-chunksize"
    try:
        for n in range(0, nmax + 1):
            bad = None
            for cs in [None] + list(range(1, n + 3)):
                seen.clear()
                try:
                    cb.balance_cooler(_Clr(n), chunksize=cs, min_nnz=1)
                except _Stop:
                    pass
                except Exception as e:      # the stand-in does not support what the code asked before splitting
                    bad = (cs, f"{type(e).__name__}: {e}", None)
                    break
                sp = seen.get("spans")
                if sp is None:
                    bad = (cs, "split was not given spans", None)
                    break
                sp = [(int(a), int(b)) for a, b in sp]
                cover = []
                ok = True
                pos = 0
                for a, b in sp:
                    if a != pos or b < a:
                        ok = False
                        break
                    pos = b
                if not ok or pos < n or (sp and sp[0][0] != 0) or (n > 0 and not sp):
                    bad = (cs, sp[:3] + (["..."] if len(sp) > 6 else []) + sp[-3:], n)
                    break
            case = dict(nnz=n, chunksizes=f"None, 1..{n + 2}")
            if bad is None:
                rec.ok(C, case, nontrivial=n > 0)
            else:
                rec.fail(C, dict(nnz=n, chunksize=bad[0]), bad[1], f"consecutive spans from 0 reaching {n}", signature=C)
    finally:
        cb.split = orig


def chunk_sizes(nnz):
    """every chunk size 1..nnz+2 for small coolers; 12 sizes incl. the boundary ones beyond"""
    if nnz <= 40:
        return list(range(1, nnz + 3))
    return sorted({3, 5, 7, 11, nnz // 7, nnz // 3, nnz // 2, nnz // 2 + 1, nnz - 1, nnz, nnz + 1, nnz + 2})


def run_combo(task):
    """task = (tmpdir, id, matrix spec, sizes, opt, plan) with plan = dict(sweep_maxit, full_cs, map_cs, allperm_cs, probe_modes, seed)"""
    tmp, tid, mspec, sizes, opt, plan = task
    rec = Rec()
    F = build_matrix(mspec)
    n = len(F)
    path = os.path.join(tmp, f"c{tid}.cool")
    case0 = dict(matrix=mspec, chroms=list(sizes), opt=opt)
    pix = pixels_from_dense(F, True)
    nnz = len(pix)
    if rec.guarded("chunksize-invariant", case0, lambda: make_cooler(path, layout_bins(sizes), pix, True), signature="create:exception") is None:
        return rec
    clr = cooler.Cooler(path)
    mode = opt["mode"]

    def against(ref, contract, case, fn, sig, nontrivial):
        got = rec.guarded(contract, case, fn, signature=sig + ":exception")
        if got is not None:
            rec.check(contract, same(got, ref), case, show(got), show(ref), nontrivial=nontrivial, signature=sig)

    for label, o in (("full", opt), ("short", dict(opt, maxit=plan["sweep_maxit"]))):
        if label == "short" and (plan["sweep_maxit"] is None or plan["sweep_maxit"] >= opt["maxit"]):
            continue
        case = dict(case0, opt=o)
        kind = f"{mode}:" + ("empty-cooler" if nnz == 0 else "nnz>0")
        ref = rec.guarded("chunksize-invariant", dict(case, chunksize=None), lambda: call_balance(clr, o, n),
                          signature=f"chunksize-invariant:exception:chunksize=None:{kind}")
        if ref is None:
            continue
        live = bool((~np.isnan(ref["w"])).any())
        # the same call again
        against(ref, "repeat-invariant", dict(case, chunksize=None), lambda: call_balance(clr, o, n), f"repeat-invariant:{mode}", live)
        # the documented procedure on the dense matrix
        good, known, (dw, dscale, dvar), dborder = dense_verdict(F, sizes, o, ref)
        if not dborder:
            rec.check("reference==dense-procedure", good, case, show(ref), dict(weights=lst(dw), scale=lst(dscale), var=lst(dvar)),
                      nontrivial=live, signature="reference==dense-procedure:" + (known or f"{mode}:other"))
        # every chunk size (sweep) / selected chunk sizes (full)
        sizes_cs = chunk_sizes(nnz) if label == "short" or plan["full_cs"] == "all" else sorted({c for c in plan["full_cs"](nnz) if c >= 1})
        for cs in sizes_cs:
            against(ref, "chunksize-invariant", dict(case, chunksize=cs), lambda: call_balance(clr, o, n, cs),
                    f"chunksize-invariant:{mode}", live and cs < nnz)
        if label == "short" or plan["sweep_maxit"] is None:
            for cs in sorted({c for c in plan["map_cs"](nnz) if c >= 1}):
                for mname, mk in SIMPLE_MAPS:
                    against(ref, "map-invariant", dict(case, chunksize=cs, map=mname, map_seed=plan["seed"]),
                            lambda: call_balance(clr, o, n, cs, mk(plan["seed"])), f"map-invariant:{mname}:{mode}", live and cs < nnz)
            for cs in sorted({c for c in plan["allperm_cs"](nnz) if c >= 1}):
                k = -(-nnz // cs) if nnz else 0
                if not (2 <= k <= 4):
                    continue
                for p in range(math.factorial(k)):
                    against(ref, "map-invariant", dict(case, chunksize=cs, map="nth-permutation", p=p),
                            lambda: call_balance(clr, o, n, cs, NthPerm(p)), f"map-invariant:nth-permutation:{mode}", live)
    for m in plan["probe_modes"]:
        if m == "trans" and len(sizes) < 2:
            continue
        for cs in [None] + chunk_sizes(nnz):
            probe_check(rec, path, F, sizes, mspec, m, cs)
    try:
        os.remove(path)
    except OSError:
        pass
    return rec


# ------------------------------------------------------------------ parent-only parts: process pools, CLI
def pool_checks(B, rec, pools, mspec, sizes, opts, css):
    F = build_matrix(mspec)
    n = len(F)
    path = B.path(f"pool-{hashlib.md5(repr((mspec, sizes)).encode()).hexdigest()[:8]}.cool")
    make_cooler(path, layout_bins(sizes), pixels_from_dense(F, True), True)
    clr = cooler.Cooler(path)
    nnz = int(clr.info["nnz"])
    for o in opts:
        case = dict(matrix=mspec, chroms=list(sizes), opt=o)
        ref = rec.guarded("map-invariant", dict(case, chunksize=None), lambda: call_balance(clr, o, n), signature="reference-run:exception")
        if ref is None:
            continue
        live = bool((~np.isnan(ref["w"])).any())
        for cs in css:
            for nw, pool in pools.items():
                for meth in ("map", "imap", "imap_unordered"):
                    c2 = dict(case, chunksize=cs, map=f"Pool({nw}).{meth}")
                    got = rec.guarded("map-invariant", c2, lambda: call_balance(clr, o, n, cs, getattr(pool, meth)),
                                      signature=f"map-invariant:pool.{meth}:exception")
                    if got is not None:
                        rec.check("map-invariant", same(got, ref), c2, show(got), show(ref), nontrivial=live and cs < nnz,
                                  signature=f"map-invariant:pool.{meth}:{o['mode']}")


HIST = "repeat-invariant:after-rewriting-the-same-path"


def to_json(r):
    return dict(w=r["w"].tolist(), scale=r["scale"].tolist(), var=r["var"].tolist(), conv=r["conv"].tolist())


def from_json(d):
    return dict(w=np.array(d["w"], dtype=float), scale=np.array(d["scale"], dtype=float), var=np.array(d["var"], dtype=float),
                conv=np.array(d["conv"], dtype=bool))


def fresh_ref_main(arg):
    """child side of fresh_process_refs: a brand-new interpreter that has never balanced anything"""
    a = json.loads(arg)
    clr = cooler.Cooler(a["path"])
    print(json.dumps([to_json(call_balance(clr, o, a["n"])) for o in a["opts"]]))
    return 0


def fresh_process_refs(path, opts, n):
    """balance the cooler at `path` in a NEW python process (no history of any kind); floats travel exactly (repr round trip)"""
    import subprocess
    p = subprocess.run([sys.executable, "-W", "ignore", os.path.abspath(__file__), "--fresh-ref", json.dumps(dict(path=path, opts=opts, n=n))],
                       capture_output=True, text=True, env=dict(os.environ))
    lines = [ln for ln in p.stdout.strip().splitlines() if ln.startswith("[")]
    if p.returncode != 0 or not lines:
        raise RuntimeError("fresh-process reference failed: " + (p.stdout + p.stderr)[-600:])
    return [from_json(d) for d in json.loads(lines[-1])]


def hist_opts(n):
    return [O(mode="cis", nnz=0, mad=1, maxit=5), O(mode="trans", ig=1, nnz=1, maxit=5), O(mode="gw", ig=1, nnz=1, maxit=5),
            O(mode="cis", ig=0, nnz=1, x0="rand", tol=1e-3, maxit=5)]


def history_checks(B, rec, pools, name, steps, full=False, only_step=None):
    """steps = [(matrix spec, chromosome sizes, how)], all with the same number of bins; the cooler at ONE path P is rewritten
    step by step (how = 'overwrite': create_cooler over the existing file | 'replace': built aside, then os.replace | 'remove':
    unlink, then create).  After every rewrite the cooler at P is balanced in this process - which has balanced the earlier
    contents of P with the builtin map and through the same pool workers - via a new Cooler(P) and via the URI P::/ ; the
    result must be that of a byte-identical copy at a never-used path, balanced here and in a brand-new process, and the
    documented procedure on the dense matrix."""
    P = B.path(f"hist-{name}.cool")
    hist = []
    plist = list(pools.items())
    for k, (spec, sizes, how) in enumerate(steps):
        F = build_matrix(spec)
        n = len(F)
        sizes = tuple(sizes)
        bins, pix = layout_bins(sizes), pixels_from_dense(F, True)
        if how == "replace" and os.path.exists(P):
            side = P + ".new"
            make_cooler(side, bins, pix, True)
            os.replace(side, P)
        else:
            if how == "remove" and os.path.exists(P):
                os.remove(P)
            make_cooler(P, bins, pix, True)
        hist.append(dict(matrix=spec, chroms=list(sizes), how=how))
        opts = hist_opts(n)
        runs = []  # (access, map name, map, chunksize)
        for ai, access in enumerate(("Cooler(P)", "Cooler(P::/)")):
            runs.append((access, "builtin", map, None if ai == 0 else 2))
            nw, pool = plist[(ai + k) % len(plist)]
            meths = (("imap_unordered", "imap"), ("map", "imap_unordered"))[ai] if full else (("imap_unordered", "map")[ai],)
            for meth in meths:
                runs.append((access, f"Pool({nw}).{meth}", getattr(pool, meth), 1))
        if k == 0 or (only_step is not None and k < only_step):
            # first contents of P: only make history (every mode, every map, every worker)
            for o in opts:
                for access, mname, mapf, cs in runs:
                    rec.guarded(HIST, dict(history=list(hist), opt=o, access=access, map=mname, chunksize=cs),
                                lambda: call_balance(cooler.Cooler(P if access == "Cooler(P)" else P + "::/"), o, n, cs, mapf),
                                signature=f"{HIST}:exception:first-contents")
            continue
        Q = B.path(f"hist-{name}-fresh{k}.cool")
        shutil.copy(P, Q)
        c0 = dict(history=list(hist))
        here = rec.guarded(HIST, dict(c0, reference="fresh path, this process"), lambda: [call_balance(cooler.Cooler(Q), o, n) for o in opts],
                           signature=f"{HIST}:exception:fresh-path")
        new = rec.guarded(HIST, dict(c0, reference="fresh path, new process"), lambda: fresh_process_refs(Q, opts, n),
                          signature=f"{HIST}:exception:fresh-process")
        if here is None or new is None:
            continue
        for oi, o in enumerate(opts):
            mode = o["mode"]
            live = bool((~np.isnan(new[oi]["w"])).any())
            rec.check(HIST, same(here[oi], new[oi]), dict(c0, opt=o, access="Cooler(fresh path)", map="builtin", chunksize=None),
                      show(here[oi]), show(new[oi]), nontrivial=live, signature=f"{HIST}:{mode}:fresh-path-differs-from-new-process")
            for access, mname, mapf, cs in runs:
                case = dict(c0, opt=o, access=access, map=mname, chunksize=cs)
                mk = "builtin" if mname == "builtin" else "pool"
                got = rec.guarded(HIST, case, lambda: call_balance(cooler.Cooler(P if access == "Cooler(P)" else P + "::/"), o, n, cs, mapf),
                                  signature=f"{HIST}:exception:{mode}:{mk}")
                if got is None:
                    continue
                rec.check(HIST, same(got, new[oi]) and same(got, here[oi]), case, show(got), show(new[oi]), nontrivial=live,
                          signature=f"{HIST}:{mode}:{mk}")
            # the dense statement for the NEW contents (known deviating conventions keep their own contract/signature)
            good, known, (dw, dscale, dvar), dborder = dense_verdict(F, sizes, o, here[oi])
            if dborder:
                continue
            case = dict(c0, opt=o, access="Cooler(fresh path)", map="builtin", chunksize=None, reference="dense procedure")
            exp = dict(weights=lst(dw), scale=lst(dscale), var=lst(dvar))
            if good:
                rec.ok(HIST, case, live)
            elif known:
                # not a memory effect: the convention defects already reported by reference==dense-procedure
                rec.fail("reference==dense-procedure", case, show(here[oi]), exp, "reference==dense-procedure:" + known)
            else:
                rec.fail(HIST, case, show(here[oi]), exp, f"{HIST}:{mode}:dense-procedure")


def cli_checks(B, rec, mspec, sizes, runs):
    from click.testing import CliRunner
    from cooler.cli import cli
    F = build_matrix(mspec)
    n = len(F)
    src = B.path(f"cli-src-{hashlib.md5(repr((mspec, sizes)).encode()).hexdigest()[:8]}.cool")
    make_cooler(src, layout_bins(sizes), pixels_from_dense(F, True), True)
    for i, (o, nproc, cs) in enumerate(runs):
        case = dict(matrix=mspec, chroms=list(sizes), opt=o, nproc=nproc, chunksize=cs)
        ref = rec.guarded("cli==api", case, lambda: call_balance(cooler.Cooler(src), o, n), signature="reference-run:exception")
        if ref is None:
            continue
        dst = B.path(f"cli-{i}-{os.path.basename(src)}")
        shutil.copy(src, dst)
        args = ["balance", "-p", str(nproc), "-c", str(cs), "--ignore-diags", str(o["ig"]), "--min-nnz", str(o["nnz"]),
                "--min-count", str(o["cnt"]), "--mad-max", str(o["mad"]), "--tol", repr(o["tol"]), "--max-iters", str(o["maxit"])]
        args += {"gw": [], "cis": ["--cis-only"], "trans": ["--trans-only"]}[o["mode"]] + [dst]

        def run():
            r = CliRunner().invoke(cli, args)
            if r.exit_code != 0:
                raise RuntimeError(f"exit {r.exit_code}: {r.output[-300:]} {r.exception!r}")
            with h5py.File(dst, "r") as h5:
                w = h5["bins/weight"][:]
                at = dict(h5["bins/weight"].attrs)
            return dict(w=w, scale=np.atleast_1d(np.asarray(at["scale"], dtype=float)), var=np.atleast_1d(np.asarray(at["var"], dtype=float)),
                        conv=np.atleast_1d(np.asarray(at["converged"])).astype(bool))
        got = rec.guarded("cli==api", dict(case, args=args[:-1]), run, signature="cli==api:exception")
        if got is not None:
            rec.check("cli==api", same(got, ref), dict(case, args=args[:-1]), show(got), show(ref),
                      nontrivial=bool((~np.isnan(ref["w"])).any()), signature=f"cli==api:{o['mode']}:nproc={'1' if nproc == 1 else '>1'}")


# ------------------------------------------------------------------ scope
DENSE4 = np.array([[2, 1, 3, 1], [1, 1, 2, 2], [3, 2, 2, 1], [1, 2, 1, 3]])
SPARSE6 = np.array([[1, 2, 0, 1, 0, 1], [2, 0, 0, 1, 0, 2], [0, 0, 0, 0, 0, 0], [1, 1, 0, 2, 0, 1], [0, 0, 0, 0, 3, 0], [1, 2, 0, 1, 0, 0]])
DENSE5 = np.array([[2, 1, 2, 1, 1], [1, 1, 1, 2, 1], [2, 1, 0, 1, 2], [1, 2, 1, 2, 1], [1, 1, 2, 1, 1]])
EMPTY3 = np.zeros((3, 3), dtype=int)
GRADED6 = np.array([[4, 6, 5, 7, 1, 6], [6, 2, 7, 5, 0, 8], [5, 7, 3, 6, 1, 5], [7, 5, 6, 1, 0, 7], [1, 0, 1, 0, 0, 1], [6, 8, 5, 7, 1, 2]])
BANDED6 = np.array([[3, 2, 1, 0, 0, 0], [2, 3, 2, 1, 0, 0], [1, 2, 3, 2, 1, 0], [0, 1, 2, 3, 2, 1], [0, 0, 1, 2, 3, 2], [0, 0, 0, 1, 2, 3]])


def replay(B):
    """./check C11 --replay <file>: re-run the recorded case only (same contract; pools/CLI are re-created as needed)"""
    from multiprocess import Pool
    r = json.load(open(B.replay_file))
    case, contract = r["case"], r["contract"]
    mspec, sizes = case.get("matrix"), tuple(case.get("chroms", ()))
    rec = Rec()
    cs = case.get("chunksize")
    mp = str(case.get("map", ""))
    if "history" in case:
        steps = [(h["matrix"], tuple(h["chroms"]), h["how"]) for h in case["history"]]
        pools = {2: Pool(2), 3: Pool(3)}
        history_checks(B, rec, pools, "replay", steps, full=True, only_step=len(steps) - 1)
        for p in pools.values():
            p.terminate()
    elif contract == "pixels-visited-exactly-once":
        F = build_matrix(mspec)
        path = B.path("replay.cool")
        make_cooler(path, layout_bins(sizes), pixels_from_dense(F, True), True)
        probe_check(rec, path, F, sizes, mspec, case["mode"], cs)
    elif contract == "cli==api":
        cli_checks(B, rec, mspec, sizes, [(case["opt"], case["nproc"], cs)])
    elif mp.startswith("Pool("):
        nw = int(mp[5:mp.index(")")])
        pool = Pool(nw)
        pool_checks(B, rec, {nw: pool}, mspec, sizes, [case["opt"]], (cs,))
        pool.terminate()
    else:
        one = (lambda z: (cs,)) if cs else (lambda z: ())
        none = lambda z: ()
        plan = dict(sweep_maxit=None, full_cs=one, map_cs=one if (contract == "map-invariant" and mp != "nth-permutation") else none,
                    allperm_cs=one if mp == "nth-permutation" else none, probe_modes=(), seed=case.get("map_seed", B.seed))
        os.makedirs(B.path("w"), exist_ok=True)
        rec = run_combo((B.path("w"), 0, mspec, sizes, case["opt"], plan))
    out = dict(replay=B.replay_file, contract=contract, signature=r["signature"],
               reproduced=any(f[0] == contract and f[4] == r["signature"] for f in rec.fails),
               failures=[dict(contract=f[0], signature=f[4], case=f[1], observed=f[2], expected=f[3]) for f in rec.fails],
               passed=rec.counts)
    shutil.rmtree(B.tmp, ignore_errors=True)
    print(json.dumps(out, default=str))
    return 0


def hist_scenarios(thorough, rng):
    U = upper_spec
    D4b = np.array([[1, 3, 1, 2], [3, 2, 1, 1], [1, 1, 1, 4], [2, 1, 4, 2]])
    D5b = np.array([[1, 2, 1, 3, 1], [2, 2, 1, 1, 2], [1, 1, 3, 2, 1], [3, 1, 2, 1, 1], [1, 2, 1, 1, 2]])
    sc = [("n4", [(U(DENSE4), (2, 2), "overwrite"), (U(D4b), (3, 1), "overwrite"), (U(DENSE4), (1, 1, 2), "replace")]),
          ("n6", [(U(SPARSE6), (3, 2, 1), "overwrite"), (U(GRADED6), (2, 4), "remove")]),
          ("n5-same-pixels", [(U(DENSE5), (3, 2), "overwrite"), (U(DENSE5), (2, 3), "overwrite")])]
    if thorough:
        lay6 = [(6,), (3, 3), (2, 4), (3, 2, 1), (1, 2, 3), (4, 1, 1), (1, 5), (2, 2, 2)]
        mats6 = [GRADED6, SPARSE6, BANDED6]
        steps = []
        for k in range(6):
            steps.append((U(mats6[rng.randrange(3)]), lay6[rng.randrange(len(lay6))], ("overwrite", "replace", "remove")[k % 3]))
        sc.append(("n6-chain", steps))
        lay5 = [(5,), (3, 2), (2, 3), (2, 2, 1), (1, 4), (1, 1, 3)]
        sc.append(("n5-chain", [(U((DENSE5, D5b)[k % 2]), lay5[rng.randrange(len(lay5))], ("replace", "overwrite")[k % 2]) for k in range(5)]))
        sc.append(("n4-same-layout-new-pixels", [(U(DENSE4), (2, 2), "overwrite"), (U(D4b), (2, 2), "overwrite"), (U(D4b), (1, 3), "remove")]))
    return sc


def main():
    if "--fresh-ref" in sys.argv:
        return fresh_ref_main(sys.argv[sys.argv.index("--fresh-ref") + 1])
    B = Bounded("C11", "bounded/C11.py")
    B.max_violations = 60
    if B.replay_file:
        return replay(B)
    from multiprocess import Pool
    pools = {2: Pool(2), 3: Pool(3)}  # forked before any HDF5 file is opened in this process
    workers = Pool(8) if B.thorough else None
    tmp = B.path("w")
    os.makedirs(tmp, exist_ok=True)
    tid = itertools.count()
    tasks = []
    S = B.seed

    def add(F_or_spec, sizes, opt, **plan):
        spec = F_or_spec if isinstance(F_or_spec, dict) else upper_spec(F_or_spec)
        p = dict(sweep_maxit=3, full_cs=lambda z: (1, 3, z + 1), map_cs=lambda z: (), allperm_cs=lambda z: (), probe_modes=(), seed=S)
        p.update(plan)
        tasks.append((tmp, next(tid), spec, tuple(sizes), opt, p))

    two_five = lambda z: (2, 5)
    if not B.thorough:
        for k, o in enumerate(OPTS):
            add(DENSE4, (2, 2), o, map_cs=two_five if k in (0, 1, 2) else (lambda z: ()),
                allperm_cs=(lambda z: (3, 4)) if k == 0 else (lambda z: ()), probe_modes=("gw", "cis", "trans") if k == 0 else ())
            add(SPARSE6, (3, 2, 1), o, map_cs=two_five if k in (3, 4, 5) else (lambda z: ()),
                allperm_cs=(lambda z: (3,)) if k == 1 else (lambda z: ()), probe_modes=("gw", "cis", "trans") if k == 0 else ())
        for k, o in enumerate(OPTS):
            add(DENSE5, (3, 2), o, full_cs=lambda z: (), probe_modes=("cis",) if k == 0 else ())
        add(EMPTY3, (2, 1), OPTS[0], probe_modes=("gw", "cis", "trans"), map_cs=lambda z: (1,))
        add(EMPTY3, (2, 1), OPTS[1])
        add(DENSE4, (4,), O(mode="trans", maxit=6), sweep_maxit=None, full_cs=lambda z: (1, 3, z + 1), map_cs=lambda z: (2,))  # one chromosome, trans-only
        B.bound = ("dense 4-bin (2+2, nnz 10) and sparse 6-bin (3+2+1, nnz 9, empty row, diagonal-only bin) coolers x 6 option vectors (3 modes; filters, blacklist, x0, "
                   "rescale off) x EVERY chunksize 1..nnz+2 at max_iters 3 and chunksize {1,3,nnz+1} at max_iters 25, against chunksize=None; dense 5-bin (3+2, nnz 14) "
                   "x 6 vectors x every chunksize at max_iters 3; empty cooler; trans-only on a one-chromosome cooler; 6 map implementations (list, generator, reversed, 2 seeded evaluation orders, "
                   "seeded delivery order) at chunksize {2,5} on 3 vectors per cooler; every permutation of 3 and of 4 chunks; Pool(2), Pool(3) x map/imap/"
                   "imap_unordered x chunksize {1,4} x 2 vectors x 2 coolers; probe of the pixels read by every pass for every chunksize 1..nnz+2 and None x 3 modes on "
                   "3 coolers (+cis on the 5-bin one); the spans handed to the split engine for EVERY nnz 0..300 x EVERY chunksize None, 1..nnz+2 (real function on a stand-in cooler, stopped at the first split); 6 CLI runs (-p 1/2/3, -c 1..7, 3 modes); history: one path rewritten 4 times in 3 chains (2+2 -> 3+1 -> 1+1+2; "
                   "3+2+1 -> 2+4; 3+2 -> 2+3 with the same pixels) x 4 vectors (cis, trans, genome-wide, cis+x0) x {Cooler(P), P::/} x {builtin, Pool(2|3) map/imap_unordered}")
        B.exhaustive = True
    else:
        mats = [(DENSE4, (2, 2)), (SPARSE6, (3, 2, 1)), (DENSE5, (3, 2)), (GRADED6, (3, 3)), (BANDED6, (6,)), (DENSE5, (2, 2, 1)), (EMPTY3, (2, 1))]
        for mi, (F, sizes) in enumerate(mats):
            for k, o in enumerate(OPTS + random_opts(B.rng, 4)):
                if o["mode"] == "trans" and len(sizes) < 2 and k != 2:
                    o = dict(o, mode="gw")  # one chromosome: trans-only is degenerate (kept once, k == 2)
                add(F, sizes, o, sweep_maxit=None, full_cs="all", map_cs=lambda z: (1, 2, 5, z // 2 + 1),
                    allperm_cs=(lambda z: tuple(range(1, z + 1))) if k < 3 else (lambda z: ()),
                    probe_modes=("gw", "cis", "trans") if k == 0 else ())
        for s in range(4):
            nn = (12, 12, 30, 30)[s]
            spec = {"kind": "rand", "n": nn, "seed": 1000 * S + s, "density": (0.5, 0.2, 0.3, 0.08)[s], "maxval": 9, "empty": [3, nn - 2]}
            sizes = ((7, 5), (6, 4, 2), (18, 12), (14, 9, 7))[s]
            for k, o in enumerate(OPTS[:3] + random_opts(B.rng, 5)):
                add(spec, sizes, o, sweep_maxit=None, full_cs="all", map_cs=lambda z: (3, z // 3, z // 2 + 1),
                    probe_modes=("gw", "cis", "trans") if k == 0 else ())
        B.bound = ("7 small coolers (4-6 bins, 1-3 chromosomes, dense / sparse / graded / banded / empty) x 10 option vectors (6 fixed + 4 seeded) x every chunksize "
                   "1..nnz+2 to max_iters 25; 6 map implementations at chunksize {1,2,5,nnz/2+1}; every permutation for every chunksize giving 2..4 chunks (3 vectors per "
                   "cooler); pixel-read probe for every chunksize x 3 modes; spans for every nnz 0..600 x every chunksize; beyond the bound: 4 seeded random coolers (12 and 30 bins) x 8 vectors x every chunksize "
                   "(nnz<=40) or 12 chunk sizes incl. nnz-1..nnz+2; Pool(2), Pool(3) x map/imap/imap_unordered x chunksize {1,4} x 6 vectors x 3 coolers; 36 CLI runs (-p 1/2/3); "
                   "history: the 3 quick chains + seeded chains of 5 (6 bins, 8 layouts) and 4 (5 bins, 6 layouts) rewrites + same layout/new pixels, "
                   "x 4 vectors x 2 spellings x {builtin, Pool.map, imap, imap_unordered}")
        B.exhaustive = False
    B.rule = ("case = (cooler, option vector, chunksize, map[, permutation]); compared bin by bin within 1e-12 relative + NaN set + scale/var/converged with the "
              "chunksize=None builtin-map run; non-trivial when some bin gets a finite weight and the chunksize splits the pixels (chunksize < nnz); "
              "probe non-trivial when nnz > 0; history case = (sequence of contents written to the path, option vector, spelling, map), compared with the "
              "fresh-path run in this and in a new process; distinct by (contract, case)")

    state = dict(sampled=set(), recorded={}, failcount={})
    if workers is not None:
        for rec in workers.imap(run_combo, tasks):
            merge(B, rec, state)
        workers.close()
    else:
        for t in tasks:
            merge(B, run_combo(t), state)

    rec = Rec()
    if not B.thorough:
        pool_checks(B, rec, pools, upper_spec(DENSE4), (2, 2), [dict(OPTS[0], maxit=6), dict(OPTS[2], maxit=6)], (1, 4))
        pool_checks(B, rec, pools, upper_spec(SPARSE6), (3, 2, 1), [dict(OPTS[1], maxit=6), dict(OPTS[3], maxit=6)], (1, 4))
        cli_checks(B, rec, upper_spec(DENSE4), (2, 2), [(OPTS[0], 2, 3), (OPTS[2], 3, 1), (OPTS[0], 1, 4)])
        cli_checks(B, rec, upper_spec(SPARSE6), (3, 2, 1), [(O(mode="cis", nnz=0, mad=1), 2, 2), (O(mode="trans", ig=0), 2, 7), (OPTS[0], 3, 5)])
    else:
        for F, sizes in ((DENSE4, (2, 2)), (SPARSE6, (3, 2, 1)), (GRADED6, (3, 3))):
            pool_checks(B, rec, pools, upper_spec(F), sizes, OPTS, (1, 4))
            runs = []
            for k, o in enumerate(OPTS):
                if o["bl"] is None and o["x0"] is None and o["rescale"]:
                    for nproc, cs in ((1, 3), (2, 1 + k), (3, 5)):
                        runs.append((o, nproc, cs))
            runs += [(O(mode="cis", ig=2, nnz=2, mad=1), 2, 2), (O(mode="trans", ig=1, nnz=0, mad=5, cnt=3), 3, 3), (O(ig=3, nnz=0, tol=1e-3), 2, 6)]
            cli_checks(B, rec, upper_spec(F), sizes, runs)
    for name, steps in hist_scenarios(B.thorough, B.rng):
        history_checks(B, rec, pools, name, steps, full=B.thorough)
    span_probe(rec, 600 if B.thorough else 300)
    merge(B, rec, state)
    for p in pools.values():
        p.terminate()
    if state["failcount"]:
        B.samples.insert(0, {"contract": "failures-by-signature", "case": json.dumps(dict(sorted(state["failcount"].items())))})
    return B.finish()


if __name__ == "__main__":
    sys.exit(main())
