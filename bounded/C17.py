"""C17 bounded stand-in: every cell of a single-cell (.scool) file reads back as the
matrix given for it.

The REAL create_scool is run on small inputs; afterwards, for every file,
  * the recognition test says "single-cell file" and the cell listing names exactly
    the cells given (one collection per cell NAME, i.e. at /cells/<name>);
  * the root carries format HDF5::SCOOL, ncells = number of cells given, and the common
    bin / chromosome tables (raw h5py read against the input table);
  * every cell, opened through the ordinary interface cooler.Cooler(file::/cells/<name>)
    (and `cooler dump` / `cooler ls` in-process for some), returns exactly ITS pixel table,
    the common bin table, ITS extra bin columns and the dense matrix recomputed from the
    input with plain numpy; cells get different content so any mix-up shows;
  * the three primary bin columns of every cell are the SAME HDF5 object as the root's
    (stored once, shared), the per-cell extra columns are private objects.
"""
import sys, os
sys.path.insert(0, os.path.dirname(os.path.dirname(os.path.abspath(__file__))))
import itertools
import math
import traceback
import warnings
import numpy as np
import h5py
import cooler
from cooler import fileops
from click.testing import CliRunner
from cooler.cli import cli
from bounded.common import *

warnings.filterwarnings("ignore")
NAMES = ["a", "b", "cell 1", "x/y", "z/y"]
MIXED_NAMES = ["10x_A3", "7", "GSM123", "cellB", "2cell", "cell10", "cell9"]
PER_SIG = 2  # violations recorded per failure class (all are counted as evaluations)


def canon(x):
    if isinstance(x, pd.DataFrame):
        return {str(c): canon(x[c].to_numpy()) for c in x.columns}
    if isinstance(x, pd.Series):
        return canon(x.to_numpy())
    if isinstance(x, np.ndarray):
        return [canon(v) for v in x.tolist()]
    if isinstance(x, (list, tuple)):
        return [canon(v) for v in x]
    if isinstance(x, dict):
        return {str(k): canon(v) for k, v in x.items()}
    if isinstance(x, bytes):
        return x.decode("latin1")
    if isinstance(x, (float, np.floating)):
        return "nan" if math.isnan(x) else float(x)
    if isinstance(x, np.integer):
        return int(x)
    if isinstance(x, np.bool_):
        return bool(x)
    return x


class Run:
    def __init__(self, B):
        self.B = B
        self.nsig = {}
        self.nfile = 0
        self.runner = CliRunner()

    # -- failure bookkeeping: a known class must not crowd out the others
    def check(self, contract, cond, case, observed=None, expected=None, nontrivial=True, kind="plain"):
        B = self.B
        if cond:
            B.ok(contract, case, nontrivial)
            return True
        sig = f"{contract}:{kind}"
        self.nsig[sig] = self.nsig.get(sig, 0) + 1
        if self.nsig[sig] > PER_SIG:
            B.evaluations += 1
            B.contracts[contract] = B.contracts.get(contract, 0) + 1
        else:
            B.fail(contract, case, observed, expected, sig)
        return False

    def guarded(self, contract, case, fn, kind="plain"):
        try:
            return fn()
        except Exception as e:
            self.check(contract + ":no-exception", False, case, f"{type(e).__name__}: {str(e)[:300]}", "no exception", True, kind)
            return None

    # ------------------------------------------------------------------
    def one_file(self, tname, bins, symm, cells, bins_form, order="given", input_form="df", extra_pix=False,
                 float_counts=False):
        """never lets an exception escape: anything unexpected becomes a recorded failure with the case"""
        try:
            self._one_file(tname, bins, symm, cells, bins_form, order, input_form, extra_pix, float_counts)
        except Exception as e:
            case = dict(table=tname, symmetric_upper=symm, bins_form=bins_form, insertion=order, input_form=input_form,
                        extra_pixel_column=extra_pix, cells=[[k, m] for k, m, _ in cells])
            self.check("file-examined:no-exception", False, case,
                       f"{type(e).__name__}: {str(e)[:300]}\n{traceback.format_exc(limit=5)}", "no exception", True, "plain")

    def _one_file(self, tname, bins, symm, cells, bins_form, order="given", input_form="df", extra_pix=False,
                  float_counts=False):
        """cells: list of (key, matrix name, dense matrix).  bins_form in
        plain | single+extra | per-cell | per-cell-mixed.  float_counts: fractional counts (multiples of 0.25,
        exact in binary) stored with the value type override dtypes={'count': float}"""
        B = self.B
        self.nfile += 1
        n = len(bins)
        keys = [k for k, _, _ in cells]
        base = [k.split("/")[-1] for k in keys]
        kind = "colliding-basenames" if len(set(base)) < len(base) else \
            "name-with-slash" if any("/" in k for k in keys) else "plain"
        case0 = dict(table=tname, symmetric_upper=symm, bins_form=bins_form, insertion=order, input_form=input_form,
                     extra_pixel_column=extra_pix, cells=[[k, m] for k, m, _ in cells])
        if float_counts:
            case0["counts"] = "fractional; dtypes={'count': float}"
        path = B.path(f"f{self.nfile}.scool")
        # ---- inputs
        pix, extras = {}, {}
        for ci, (k, mname, A) in enumerate(cells):
            p = pixels_from_dense(A, symm)
            if float_counts:
                frac = np.array([0.5, 1.25, 2.75, 0.25])[(np.arange(len(p)) + ci) % 4]
                p["count"] = p["count"].to_numpy().astype(float) * 0.25 + frac
            if extra_pix:
                p["foo"] = (np.arange(len(p)) + 0.5 + ci).astype(float)
            pix[k] = p
        common = bins[["chrom", "start", "end"]].reset_index(drop=True)
        if bins_form == "plain":
            bins_arg = common.copy()
            for k in keys:
                extras[k] = {}
        elif bins_form == "single+extra":
            bins_arg = common.copy()
            bins_arg["weight"] = np.linspace(0.5, 1.5, n)
            for k in keys:
                extras[k] = {"weight": bins_arg["weight"].tolist()}
        else:
            bins_arg = {}
            for ci, k in enumerate(keys):
                b = common.copy()
                ex = {}
                if bins_form == "per-cell" or ci % 3 != 2:
                    ex["weight"] = (np.linspace(0.5, 1.5, n) + 10 * (ci + 1)).tolist()
                if bins_form == "per-cell-mixed" and ci % 3 == 1:
                    ex["gc"] = (np.arange(n) * 3 + ci).astype(float).tolist()
                for c, v in ex.items():
                    b[c] = v
                bins_arg[k] = b
                extras[k] = ex
        ins = list(keys) if order == "given" else list(reversed(keys))
        if isinstance(bins_arg, dict):
            bins_arg = {k: bins_arg[k] for k in ins}

        def as_input(p):
            if input_form == "dict":
                return {c: p[c].to_numpy() for c in p.columns}
            if input_form == "chunks":
                h = len(p) // 2
                return iter([p.iloc[:h], p.iloc[h:]]) if len(p) else iter([])
            return p.copy()
        pix_arg = {k: as_input(pix[k]) for k in ins}
        kw = {}
        if extra_pix:
            kw = dict(columns=["count", "foo"], dtypes={"foo": float})
        if float_counts:
            kw["dtypes"] = dict(kw.get("dtypes", {}), count=float)
        nt = any(len(p) for p in pix.values())
        r = self.guarded("create_scool", case0, lambda: (cooler.create_scool(path, bins_arg, pix_arg, symmetric_upper=symm,
                                                                             ordered=True, **kw), True)[1], kind)
        if r is None:
            return
        # ---- file level
        got = self.guarded("recognised-as-single-cell-file", case0, lambda: fileops.is_scool_file(path), kind)
        if got is not None:
            self.check("recognised-as-single-cell-file", got is True, case0, got, True, nt, kind)
        exp_list = sorted("/cells/" + k for k in keys)
        got = self.guarded("cell-listing==cells-given", case0, lambda: fileops.list_scool_cells(path), kind)
        if got is not None:
            self.check("cell-listing==cells-given", sorted(got) == exp_list and len(got) == len(set(got)), case0,
                       sorted(got), exp_list, nt, kind)
        got = self.guarded("cell-listing==cells-given", dict(case0, via="list_coolers"), lambda: fileops.list_coolers(path), kind)
        if got is not None:
            # a single-cell file holds one collection per cell and nothing else
            self.check("cell-listing==cells-given", sorted(got) == exp_list, dict(case0, via="list_coolers"), sorted(got),
                       exp_list, nt, kind)
        if self.nfile % 4 == 0:
            res = self.guarded("cell-listing==cells-given", dict(case0, via="cli ls"),
                               lambda: self.runner.invoke(cli, ["ls", path], catch_exceptions=False), kind)
            if res is not None:
                lines = sorted(l.split("::", 1)[1] for l in res.output.splitlines() if "::" in l)
                self.check("cell-listing==cells-given", res.exit_code == 0 and lines == exp_list, dict(case0, via="cli ls"),
                           lines, exp_list, nt, kind)
        names0 = list(dict.fromkeys(common["chrom"]))
        lengths = [int(common[common.chrom == c]["end"].max()) for c in names0]
        raw = self.guarded("root-tables-and-attrs", case0, lambda: self.read_raw(path), kind)
        if raw is None:
            return
        attrs, root, addr = raw
        self.check("root-tables-and-attrs", attrs.get("format") == "HDF5::SCOOL", dict(case0, what="format"),
                   attrs.get("format"), "HDF5::SCOOL", nt, kind)
        self.check("root-tables-and-attrs", attrs.get("ncells") == len(keys), dict(case0, what="ncells"),
                   attrs.get("ncells"), len(keys), nt, kind)
        self.check("root-tables-and-attrs", attrs.get("nbins") == n and attrs.get("nchroms") == len(names0),
                   dict(case0, what="nbins/nchroms"), [attrs.get("nbins"), attrs.get("nchroms")], [n, len(names0)], nt, kind)
        exp_root = {"bins/chrom": [names0.index(c) for c in common["chrom"]], "bins/start": common["start"].tolist(),
                    "bins/end": common["end"].tolist(), "chroms/name": names0, "chroms/length": lengths}
        for k_, v in exp_root.items():
            self.check("root-tables-and-attrs", root.get(k_) == v, dict(case0, what=k_), root.get(k_), v, nt, kind)
        # stored once: every dataset called .../bins/{chrom,start,end} in the whole file is ONE object
        for col in ("chrom", "start", "end"):
            objs = sorted({a for p_, a in addr.items() if p_.endswith("bins/" + col)})
            self.check("bin-table-stored-once-and-shared", len(objs) == 1, dict(case0, column=col),
                       {p_: a for p_, a in addr.items() if p_.endswith("bins/" + col)}, "one HDF5 object", nt, kind)
        # ---- every cell
        for ci, (k, mname, A) in enumerate(cells):
            case = dict(case0, cell=k)
            loc = "/cells/" + k
            def _present():
                with h5py.File(path, "r") as f:
                    return loc in f and f[loc].attrs.get("format", None) == "HDF5::Cooler"
            present = bool(self.guarded("cell-stored-under-its-name", case, _present, kind))
            self.check("cell-stored-under-its-name", present, case, "no collection at " + loc, loc, True, kind)
            if not present:
                if "/" in k:
                    loc = "/cells/" + k.split("/")[-1]  # where this library version puts it; content is still examined
                    case = dict(case, located_at=loc)
                else:
                    continue
            uri = path + "::" + loc
            got = self.guarded("is_cooler(cell)", case, lambda: fileops.is_cooler(uri), kind)
            if got is not None:
                self.check("is_cooler(cell)", got is True, case, got, True, True, kind)
            clr = self.guarded("cell-reads-as-given:open", case, lambda: cooler.Cooler(uri), kind)
            if clr is None:
                continue
            p = pix[k]
            cnt = len(p) > 0
            got = self.guarded("cell-pixels==given", case, lambda: clr.pixels()[:], kind)
            if got is not None:
                ok = list(got.columns) == list(p.columns) and all(canon(got[c]) == canon(p[c]) for c in p.columns) \
                    and got["count"].dtype.kind in ("f" if float_counts else "iu")
                self.check("cell-pixels==given", ok, case, canon(got), canon(p), cnt, kind)
            F = full_matrix(p, n, symm)
            got = self.guarded("cell-matrix==given", case, lambda: clr.matrix(balance=False)[:], kind)
            if got is not None:
                self.check("cell-matrix==given", got.shape == F.shape and np.array_equal(got, F), case, canon(got), canon(F), cnt, kind)
            if float_counts:
                got = self.guarded("cell-matrix==given", dict(case, sparse=True),
                                   lambda: clr.matrix(balance=False, sparse=True)[:].toarray(), kind)
                if got is not None:
                    self.check("cell-matrix==given", got.shape == F.shape and np.array_equal(got, F), dict(case, sparse=True),
                               canon(got), canon(F), cnt, kind)
            if len(names0) > 1:
                c0, c1 = names0[0], names0[-1]
                i0 = [i for i, c in enumerate(common["chrom"]) if c == c0]
                i1 = [i for i, c in enumerate(common["chrom"]) if c == c1]
                expb = F[np.ix_(i0, i1)]
                got = self.guarded("cell-matrix==given", dict(case, fetch=[c0, c1]), lambda: clr.matrix(balance=False).fetch(c0, c1), kind)
                if got is not None:
                    self.check("cell-matrix==given", got.shape == expb.shape and np.array_equal(got, expb),
                               dict(case, fetch=[c0, c1]), canon(got), canon(expb), bool(expb.any()), kind)
            got = self.guarded("cell-info==given", case, lambda: clr.info, kind)
            if got is not None:
                exp = {"nnz": len(p), "sum": float(p["count"].sum()) if float_counts else int(p["count"].sum()), "nbins": n, "nchroms": len(names0),
                       "storage-mode": "symmetric-upper" if symm else "square", "format": "HDF5::Cooler"}
                g = {q: canon(got.get(q)) for q in exp}
                self.check("cell-info==given", g == exp, case, g, exp, cnt, kind)
            got = self.guarded("cell-bins==common+own-extra-columns", case, lambda: clr.bins()[:], kind)
            if got is not None:
                ex = extras[k]
                ok = (sorted(got.columns) == sorted(["chrom", "start", "end", *ex])
                      and [str(x) for x in got["chrom"]] == common["chrom"].tolist()
                      and got["start"].tolist() == common["start"].tolist() and got["end"].tolist() == common["end"].tolist()
                      and all(canon(got[c]) == canon(v) for c, v in ex.items() if c in got.columns))
                self.check("cell-bins==common+own-extra-columns", ok, case, canon(got.astype({"chrom": str})),
                           dict(canon(common), **ex), bool(ex) or ci == 0, kind)
            got = self.guarded("cell-bins==common+own-extra-columns", dict(case, what="chromsizes"),
                               lambda: [list(clr.chromnames), canon(clr.chromsizes.to_numpy())], kind)
            if got is not None:
                self.check("cell-bins==common+own-extra-columns", got == [names0, lengths], dict(case, what="chromsizes"),
                           got, [names0, lengths], ci == 0, kind)
            # sharing: the cell's primary columns ARE the root's objects; extra columns are private to the cell
            rel = loc.strip("/")
            for col in ("chrom", "start", "end"):
                a, b = addr.get(f"{rel}/bins/{col}"), addr.get(f"bins/{col}")
                self.check("bin-table-stored-once-and-shared", a is not None and a == b, dict(case, column=col), a, b, True, kind)
            for col in extras[k]:
                a = addr.get(f"{rel}/bins/{col}")
                others = [p_ for p_, x in addr.items() if x == a and p_ != f"{rel}/bins/{col}"]
                self.check("extra-bin-columns-kept-per-cell", a is not None and not others, dict(case, column=col),
                           others if a is not None else "missing", "a dataset of its own", True, kind)
            if ci == 0 and self.nfile % 3 == 0 and not extra_pix and not float_counts:
                res = self.guarded("cell-pixels==given", dict(case, via="cli dump"),
                                   lambda: self.runner.invoke(cli, ["dump", uri], catch_exceptions=False), kind)
                if res is not None:
                    rows = [[int(v) for v in l.split("\t")] for l in res.output.splitlines() if l.strip()]
                    self.check("cell-pixels==given", res.exit_code == 0 and rows == p[["bin1_id", "bin2_id", "count"]].values.tolist(),
                               dict(case, via="cli dump"), rows, p.values.tolist(), cnt, kind)

    @staticmethod
    def read_raw(path):
        """root attrs, root tables, and the object address of every dataset under every .../bins group (by link walk,
        so hard links show up as equal addresses)"""
        with h5py.File(path, "r") as f:
            attrs = canon(dict(f.attrs))
            root = {}
            if "bins" in f:
                for c in ("chrom", "start", "end"):
                    if c in f["bins"]:
                        root["bins/" + c] = canon(f["bins"][c][:])
            if "chroms" in f:
                for c in ("name", "length"):
                    if c in f["chroms"]:
                        root["chroms/" + c] = canon(f["chroms"][c][:])
            addr = {}

            def walk(g, prefix, depth):
                for name in g.keys():
                    obj = g.get(name)
                    pth = f"{prefix}/{name}".strip("/")
                    if isinstance(obj, h5py.Dataset):
                        if prefix.endswith("bins"):
                            addr[pth] = h5py.h5o.get_info(obj.id).addr
                    elif isinstance(obj, h5py.Group) and depth < 6:
                        walk(obj, pth, depth + 1)
            walk(f, "", 0)
        return attrs, root, addr


def main():
    B = Bounded("C17", "bounded/C17.py")
    B.max_violations = 40
    try:
        body(B)
    except Exception as e:  # the runner must ALWAYS end with the JSON line
        B.fail("runner-completed", dict(stage="main"), f"{type(e).__name__}: {str(e)[:300]}\n{traceback.format_exc(limit=6)}",
               "no exception", "runner-completed:exception")
    return B.finish()


def body(B):
    R = Run(B)
    T = dict(bin_tables(small=not B.thorough))
    mats = lambda n: matrices(n, random.Random(B.seed), 5)
    forms = ["plain", "single+extra", "per-cell", "per-cell-mixed"]
    mats_of = {t: mats(len(b)) for t, b in T.items()}

    # B. matrix sweep (plain names): all singles / ordered pairs (/ triples) of the 5 matrices
    tabs_b = list(T) if B.thorough else ["fixed10-short-last", "variable"]
    B.bound = (("thorough: " if B.thorough else "quick: ") + f"{len(T)} common bin tables; matrix sweep: ALL singles and ordered "
               "pairs" + (" and triples (2 tables)" if B.thorough else "") + f" of the 5 C01 matrices (empty, diagonal, dense, sparse, "
               f"corners) on {len(tabs_b)} tables x " + ("2 storage modes" if B.thorough else "storage modes (both / symmetric only)") +
               "; table sweep: every table x 2 modes x 4 bin-table forms "
               "(single plain, single with extra column, per-cell dict with differing extra column, per-cell dict with "
               "differing SETS of extra columns) x " + ("3" if B.thorough else "2 of 3 (rotating)") +
               " pixel input forms (DataFrame, dict of arrays, iterator of chunks incl. "
               "the empty iterator), every 5th with an extra pixel value column; name sweep: ALL non-empty subsets of <= 3 "
               "of {a, b, 'cell 1', x/y, z/y} x bin forms x both dict insertion orders; value-type sweep: every table x 2 modes x " + ("3" if B.thorough else "2 of 3 (rotating)") +
               " input forms with FRACTIONAL counts under dtypes={'count': float} (2-4 cells, different per cell); mixed-name "
               "sweep: ALL non-empty subsets of <= 4 of {10x_A3, 7, GSM123, cellB, 2cell" + (", cell10, cell9" if B.thorough else "") + "} (digit- and "
               "letter-leading names in one file) x bin forms"
               + ("; 400 seeded random files (1-4 random names, random matrices)" if B.thorough else ""))
    B.rule = ("case = (table, mode, bin form, insertion order, input form, [(cell name, matrix)], cell, query); non-trivial when "
              "the cell has at least one pixel (content checks) / always (structure checks); distinct by case")
    B.exhaustive = not B.thorough
    q = 0
    for tname in tabs_b:
        bins, ms = T[tname], mats_of[tname]
        for symm in ((True, False) if B.thorough or tname == tabs_b[0] else (True,)):
            for r in ((1, 2, 3) if B.thorough and tname in ("fixed10-short-last", "one-bin-chroms") else (1, 2)):
                for combo in itertools.product(range(5), repeat=r):
                    q += 1
                    cells = [(NAMES[i], ms[m][0], ms[m][1]) for i, m in enumerate(combo)]
                    R.one_file(tname, bins, symm, cells, forms[q % 4], "given" if q % 2 else "reversed")
    # C. table sweep: every table x storage mode x bins form x input form, three different cells
    for tname, bins in T.items():
        ms = mats_of[tname]
        for symm in (True, False):
            for bf in forms:
                for ii, inp in enumerate(("df", "dict", "chunks")):
                    if not B.thorough and (ii + forms.index(bf) + symm) % 3 == 0:
                        continue   # quick: two of the three input forms per combination, rotating
                    q += 1
                    cells = [("a", ms[2][0], ms[2][1]), ("b", ms[0][0], ms[0][1]), ("cell 1", ms[3][0], ms[3][1])]
                    R.one_file(tname, bins, symm, cells, bf, "given" if q % 2 else "reversed", inp, extra_pix=(q % 5 == 0))
    # D. value type override: fractional counts with dtypes={'count': float}, different per cell
    for tname, bins in T.items():
        ms = mats_of[tname]
        for symm in (True, False):
            for ii, inp in enumerate(("df", "dict", "chunks")):
                q += 1
                if not B.thorough and (ii + symm + len(bins)) % 3 == 0:
                    continue   # quick: two of the three input forms per (table, mode), rotating
                cells = [("a", ms[2][0], ms[2][1]), ("b", ms[0][0], ms[0][1]), ("cell 1", ms[3][0], ms[3][1]),
                         ("d", ms[4][0], ms[4][1])][: 2 + (q % 3)]
                R.one_file(tname, bins, symm, cells, forms[(q + ii) % 4], "given" if q % 2 else "reversed", inp,
                           extra_pix=(q % 4 == 0), float_counts=True)
    # E. cell names that mix digit-leading and letter-leading spellings in one file
    tname = "fixed10-short-last"
    bins, ms = T[tname], mats_of[tname]
    for r in (1, 2, 3, 4):
        for sub in itertools.combinations(MIXED_NAMES if B.thorough else MIXED_NAMES[:5], r):
            for bf in (forms if B.thorough else ["plain", "per-cell"]):
                q += 1
                if not B.thorough and r == 1 and bf != "plain":
                    continue
                cells = [(k, ms[(i + q) % 5][0], ms[(i + q) % 5][1]) for i, k in enumerate(sub)]
                R.one_file(tname, bins, q % 2 == 0, cells, bf, "given" if q % 2 else "reversed", float_counts=(q % 5 == 0))
    # A. name sweep LAST (names with "/" are a known failure class): all non-empty subsets of <= 3 of the 5 names
    tname = "fixed10-short-last"
    bins, ms = T[tname], mats_of[tname]
    for r in (1, 2, 3):
        for sub in itertools.combinations(NAMES, r):
            for bf in forms if B.thorough else ["plain", "per-cell"]:
                for order in ("given", "reversed") if r > 1 else ("given",):
                    q += 1
                    cells = [(k, ms[(i + q) % 5][0], ms[(i + q) % 5][1]) for i, k in enumerate(sub)]
                    if r > 1 and len({c[1] for c in cells}) < 2:
                        continue
                    R.one_file(tname, bins, q % 2 == 0, cells, bf, order)
    if B.thorough:
        # seeded sampling beyond the enumerated scope: random matrices, random cell names, 1-4 cells
        alphabet = "abcXYZ019_. -"
        tabs = list(T.items())
        for it in range(400):
            tname, bins = tabs[it % len(tabs)]
            n = len(bins)
            m = B.rng.randrange(1, 5)
            keys = set()
            while len(keys) < m:
                keys.add("".join(B.rng.choice(alphabet) for _ in range(B.rng.randrange(1, 9))).strip() or "c")
            keys = [k for k in keys if k not in (".", "..") and not k.startswith(".")] or ["c0"]
            symm = bool(it % 2)
            cells = []
            for k in sorted(keys):
                A = np.zeros((n, n), dtype=np.int64)
                for _ in range(B.rng.randrange(0, n * n + 1)):
                    A[B.rng.randrange(n), B.rng.randrange(n)] = B.rng.randrange(1, 50)
                cells.append((k, f"random#{it}", A))
            B.rng.shuffle(cells)
            R.one_file(tname, bins, symm, cells, forms[it % 4], "given", ("df", "dict", "chunks")[it % 3])


if __name__ == "__main__":
    sys.exit(main())
