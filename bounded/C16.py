"""C16 bounded stand-in: the REAL command line (click CliRunner, in-process) against an
independent reading of the same data.

 dump     every subset of the 7 pixel options (--fill-lower, -b, --join, --annotate,
          --one-based-ids, --one-based-starts, -c) x region choices (none, -r, -r + -r2 above / below / staggered across the diagonal both ways)
          on coolers of the C01 scope (bin-table shapes x matrices x storage modes); the text
          is parsed back and compared, column group by column group, with a model computed
          from the dense matrix and the bin table in plain python (each option must have its
          documented effect whatever the other options are), and - for the option subsets
          that have an API counterpart - with the library query itself.
 load     a COO / bedGraph-2D text (written by this runner exactly as the documented dump
          would look, or produced by the real `cooler dump`) is loaded back with the same bin
          table: every placement of the fields over the file columns (--field name=number),
          zero/one-based, symmetric/square, 3 chunk sizes; result compared with the source
          pixels (raw h5py read) and with the cooler the library call creates from the same data.
 pairs    `cooler cload pairs` with every permutation of the positional (and value) columns,
          zero/one-based, symmetric/square, chunk sizes; compared with a plain-python binning
          and with the library's own sanitize/aggregate pipeline on a correctly labelled frame.
 fields   parse_field_param on a small grammar of `name[=number][:dtype=..,agg=..]`.
 zoomify  every spelling of the resolution spec (N, B, 4DN, <int>N, <int>B, <int>, lists, case,
          blanks) against the documented progressions, on genomes whose length is and is not a
          multiple of 256 (the top level ceil(L/256) is inclusive); the levels actually written are
          read back; posts of preferred_sequence.
 Loaders are also run with non-integer (x.5) counts and more chunks than --max-merge (two merge
 passes): the stored values must be exactly the input values / the in-memory aggregate whatever
 the chunk size and --max-merge.  `dump --fill-lower` -> `load --input-copy-status duplex` must
 reproduce a symmetric cooler including its main diagonal.

Assumed (not checked here): to_csv/read_csv round trip of ints and %g floats.
"""
import sys, os
sys.path.insert(0, os.path.dirname(os.path.dirname(os.path.abspath(__file__))))
import itertools
import math
import shutil
import warnings

warnings.filterwarnings("ignore")
import numpy as np
import pandas as pd
import h5py
import click
from click.testing import CliRunner
import cooler
import cooler._logging as _clog
from cooler.cli import cli
from cooler.cli._util import parse_field_param
from cooler._reduce import preferred_sequence
from bounded.common import *

# The CLI binds its log handler to whatever sys.stderr is at the first invocation (a CliRunner
# capture buffer that is closed afterwards).  Bind it once to /dev/null instead: quiet and fast.
_devnull = open(os.devnull, "w")
_saved_err = sys.stderr
sys.stderr = _devnull
try:
    _clog.set_logging_context("cli")
finally:
    sys.stderr = _saved_err

FLAGS = ["fill-lower", "balanced", "join", "annotate", "one-based-ids", "one-based-starts", "columns"]
WCYCLE = [0.5, 1.5, float("nan"), 2.0, 0.25, 1.0, 4.0, 0.75]


# ---------------------------------------------------------------------------------- recorder
class Rec:
    """at most `per_sig` recorded violations per signature (so that one frequent class cannot
    hide the others); the number of failures per signature is attached at the end"""

    def __init__(self, B, per_sig=2):
        self.B = B
        self.per_sig = per_sig
        self.sig_counts = {}
        B.max_violations = 80

    def record(self, rec):
        contract, cond, case, observed, expected, nontrivial, signature, detail = rec
        B = self.B
        if cond:
            B.ok(contract, case, nontrivial)
            return
        signature = signature or contract
        k = self.sig_counts.get(signature, 0)
        self.sig_counts[signature] = k + 1
        if k < self.per_sig:
            B.fail(contract, dict(case, **(detail or {})), observed, expected, signature)
        else:
            B.evaluations += 1
            B.contracts[contract] = B.contracts.get(contract, 0) + 1

    def finish(self):
        for v in self.B.violations:
            v["failures_with_this_signature"] = self.sig_counts.get(v["signature"], 1)
        return self.B.finish()


def rec(contract, cond, case, observed=None, expected=None, nontrivial=True, signature=None, detail=None):
    return (contract, bool(cond), case, observed, expected, nontrivial, signature, detail)


def run_jobs(B, R, fn, specs, parallel):
    if parallel and len(specs) > 4:
        import multiprocessing as mp
        with mp.get_context("fork").Pool(8) as pool:
            for out in pool.imap(fn, specs, chunksize=1):   # ordered: deterministic
                for r in out:
                    R.record(r)
    else:
        for s in specs:
            for r in fn(s):
                R.record(r)


def crashed(contract, case, e, signature, detail=None):
    import traceback
    return rec(contract, False, case, f"{type(e).__name__}: {e}\n{traceback.format_exc(limit=4)}", "no exception",
               True, signature, detail)


# ---------------------------------------------------------------------------------- scope
def scope_matrices(n):
    """deterministic dense integer matrices (asymmetric values: square storage differs from symmetric)"""
    z = np.zeros((n, n), dtype=np.int64)
    out = {"empty": z.copy()}
    d = z.copy()
    for i in range(n):
        d[i, i] = i + 1
    out["diagonal"] = d
    out["dense"] = np.arange(1, n * n + 1, dtype=np.int64).reshape(n, n)
    sp = z.copy()
    for i in range(n):
        for j in range(n):
            if (i * 7 + j * 3) % 4 == 0:
                sp[i, j] = 1 + (i + 2 * j) % 7
    if n > 2:
        sp[1, :] = 0
        sp[:, 1] = 0
    out["sparse-empty-row"] = sp
    c = z.copy()
    c[n - 1, n - 1] = 5
    c[0, n - 1] = 3
    c[n - 1, 0] = 4
    out["corners"] = c
    return out


def stored_pixels(A, symm):
    n = len(A)
    return [(i, j, int(A[i][j])) for i in range(n) for j in range(n) if A[i][j] != 0 and not (symm and j < i)]


def bins_frame(rows, extra=True):
    df = pd.DataFrame(rows, columns=["chrom", "start", "end"])
    if extra:
        df["weight"] = [WCYCLE[i % len(WCYCLE)] for i in range(len(df))]
        df["tag"] = [100 + 7 * i for i in range(len(df))]
    return df


def pixel_frame(P):
    return pd.DataFrame(P, columns=["bin1_id", "bin2_id", "count"]).astype({"bin1_id": np.int64, "bin2_id": np.int64, "count": np.int32})


def region_choices(rows, rng=None):
    """5 region choices for a bin table: none / -r (unaligned, inside the first chromosome) / -r + -r2 above, below, across the diagonal.
    Only non-empty ranges (empty ranges at a chromosome end are C04's recorded finding)."""
    chroms = []
    for c, s, e in rows:
        if c not in chroms:
            chroms.append(c)
    ext = {c: [r for r in rows if r[0] == c] for c in chroms}
    c0, cl = chroms[0], chroms[-1]
    b0 = ext[c0]
    L0 = b0[-1][2]
    if len(b0) >= 3:
        s, e = b0[1][1] + 1, b0[-1][1]            # starts inside the 2nd bin, ends at the start of the last bin
    elif len(b0) == 2:
        s, e = b0[0][1] + 1, b0[1][1] + 1
    else:
        s, e = 1, L0
    if s >= e:
        s = e - 1
    # 0 none | 1 -r alone (the box straddles the diagonal) | 2 -r + -r2 above the diagonal | 3 -r + -r2 BELOW the diagonal
    # (the column bins come before the row bins) | 4 -r + -r2 partly overlapping (box crosses the diagonal, not anchored on it)
    out = [dict(r=None, r2=None, rows=None, cols=None),
           dict(r=f"{c0}:{s}-{e}", r2=None, rows=(c0, s, e), cols=None)]
    if len(chroms) > 1:
        whole = (cl, 0, ext[cl][-1][2])
        out.append(dict(r=f"{c0}:{s:,}-{e:,}", r2=cl, rows=(c0, s, e), cols=whole))
        out.append(dict(r=cl, r2=f"{c0}:{s}-{e}", rows=whole, cols=(c0, s, e)))
        out.append(dict(r=f"{c0}:{s}-", r2=f"{c0}:0-{e}", rows=(c0, s, L0), cols=(c0, 0, e)))
        # the mirror image: rows start BEFORE the columns and end inside them (staggered, overlapping: the part of the box
        # below the diagonal is non-empty although the box "leans" above it)
        out.append(dict(r=f"{c0}:0-{e}", r2=f"{c0}:{s}-", rows=(c0, 0, e), cols=(c0, s, L0)))
    else:
        s2 = b0[-2][1] if len(b0) >= 2 else 0
        out.append(dict(r=f"{c0}:0-{e}", r2=f"{c0}:{s2}-", rows=(c0, 0, e), cols=(c0, s2, L0)))
        out.append(dict(r=f"{c0}:{s2}-", r2=f"{c0}:0-{e}", rows=(c0, s2, L0), cols=(c0, 0, e)))
        out.append(dict(r=f"{c0}:{s}-{e}", r2=c0, rows=(c0, s, e), cols=(c0, 0, L0)))
    if rng is not None:       # thorough: two random non-empty regions (r, r2), arbitrary chromosomes
        def rnd():
            c = rng.choice(chroms)
            L = ext[c][-1][2]
            a = rng.randrange(0, L)
            b = rng.randrange(a + 1, L + 1)
            return (c, a, b)
        for _ in range(2):
            x, y = rnd(), rnd()
            out.append(dict(r=f"{x[0]}:{x[1]}-{x[2]}", r2=f"{y[0]}:{y[1]}-{y[2]}", rows=x, cols=y))
    return out


def extent(rows, reg):
    """bins that overlap the half-open range (C04's contract), as [lo, hi)"""
    c, s, e = reg
    ids = [i for i, (bc, bs, be) in enumerate(rows) if bc == c and be > s and bs < e]
    return ids[0], ids[-1] + 1


# ---------------------------------------------------------------------------------- dump model
def potential_columns(o, ann):
    cols = ["chrom1", "start1", "end1", "chrom2", "start2", "end2"] if "join" in o else ["bin1_id", "bin2_id"]
    cols.append("count")
    if "balanced" in o:
        cols.append("balanced")
    if "annotate" in o:
        for f in ann:
            cols += [f + "1", f + "2"]
    return cols


def choose_columns(o, ann):
    sel = ["count", "end2", "start1", "chrom1"] if "join" in o else ["count", "bin2_id"]
    if "balanced" in o:
        sel[0] = "balanced"
    if "annotate" in o:
        sel.append(ann[0] + "2")
    return sel


def model_pixels(P, symm, fill, bbox):
    i0, i1, j0, j1 = bbox
    if fill and symm:
        M = {}
        for i, j, v in P:
            M[(i, j)] = v
            M[(j, i)] = v
        return [(i, j, M[(i, j)]) for i in range(i0, i1) for j in range(j0, j1) if (i, j) in M]
    return [(i, j, v) for (i, j, v) in P if i0 <= i < i1 and j0 <= j < j1]


def model_value(col, px, rows, o, ann):
    """expected printed value of column `col` for pixel px: int, str, or for floats the %g text ('' for NaN)"""
    i, j, v = px
    side = i if col.endswith("1") else j
    base = col[:-1]
    if col == "count":
        return v
    if col == "balanced":
        w = WCYCLE[i % len(WCYCLE)] * WCYCLE[j % len(WCYCLE)] * v
        return "" if math.isnan(w) else "%g" % w
    if col in ("bin1_id", "bin2_id"):
        return (i if col == "bin1_id" else j) + (1 if "one-based-ids" in o else 0)
    if base == "chrom":
        return rows[side][0]
    if base == "start":
        return rows[side][1] + (1 if "one-based-starts" in o else 0)
    if base == "end":
        return rows[side][2]
    if base == "tag":
        return 100 + 7 * side
    raise KeyError(col)


def tok_equal(tok, exp):
    if isinstance(exp, str):
        return tok == exp
    try:
        return float(tok) == exp
    except ValueError:
        return False


def tok_key(tok):
    if tok == "":
        return (0, 0.0, "")
    try:
        return (1, float(tok), "")
    except ValueError:
        return (2, 0.0, tok)


def exp_key(v):
    if isinstance(v, str):
        return tok_key(v)
    return (1, float(v), "")


GROUPS = {"ids": ("bin1_id", "bin2_id"), "coords": ("chrom1", "start1", "end1", "chrom2", "start2", "end2"),
          "count": ("count",), "balanced": ("balanced",)}


def dump_args(o, reg, ann, k=None, header=True, out=None):
    a = ["dump"]
    if header:
        a.append("-H")
    if "fill-lower" in o:
        a.append("--fill-lower")
    if "balanced" in o:
        a.append("-b")
    if "join" in o:
        a.append("--join")
    if "annotate" in o:
        a += ["--annotate", ",".join(ann)]
    if "one-based-ids" in o:
        a.append("--one-based-ids")
    if "one-based-starts" in o:
        a.append("--one-based-starts")
    if "columns" in o:
        a += ["-c", ",".join(choose_columns(o, ann))]
    if reg["r"]:
        a += ["-r", reg["r"]]
    if reg["r2"]:
        a += ["-r2", reg["r2"]]
    if k:
        a += ["-k", str(k)]
    if out:
        a += ["-o", out]
    return a


def parse_table(text):
    lines = text.split("\n")
    if lines and lines[-1] == "":
        lines.pop()
    return [ln.split("\t") for ln in lines]


def check_dump(spec, runner, path, o, reg, ann, k=None):
    """one CLI run -> list of contract records"""
    rows, P, symm = spec["bins"], spec["pixels"], spec["symm"]
    o = frozenset(o)
    args = dump_args(o, reg, ann, k)
    case = dict(bintable=spec["tname"], matrix=spec["mname"], symmetric_upper=symm, args=args + ["<cool>"])
    detail = dict(bins=rows, pixels=P, bin_columns="weight=[0.5,1.5,nan,2,0.25,1,4,0.75][i%8], tag=100+7i")
    out = []
    # kind of command line for a crash / non-zero exit: bin-table join in play?, engine, kind of box, chunked
    optsig = ("bin-table-join" if o & {"join", "balanced", "annotate"} else "ids-only") + (":fill-lower" if "fill-lower" in o else "") + \
             (":r+r2" if reg["r2"] else ":r" if reg["r"] else ":whole") + (":-k" if k else "")
    try:
        res = runner.invoke(cli, args + [path])
    except Exception as e:  # CliRunner normally catches; belt and braces
        return [crashed("dump:runs", case, e, f"dump:runs:{optsig}", detail)]
    if res.exit_code != 0:
        return [rec("dump:runs", False, case, f"exit {res.exit_code}: {res.exception!r}\n{res.output[-600:]}", "exit 0", True,
                    f"dump:runs:{optsig}", detail)]
    n = len(rows)
    bbox = (0, n, 0, n)
    if reg["rows"]:
        rr = extent(rows, reg["rows"])
        cc = extent(rows, reg["cols"]) if reg["cols"] else rr
        bbox = rr + cc
    mp_ = model_pixels(P, symm, "fill-lower" in o, bbox)
    table = parse_table(res.stdout)
    nt = len(mp_) > 0
    rsig = "dump:lists-the-query-pixels" + (":fill-lower" if "fill-lower" in o else "") + \
           ((":r+r2:" if reg["r2"] else ":r:") + spec["tname"] if reg["r"] else "")
    if not table:
        # no chunk at all -> the command prints nothing, not even the header: accepted when the query is empty
        out.append(rec("dump:lists-the-query-pixels", len(mp_) == 0, case, "no output", f"{len(mp_)} rows", False, rsig, detail))
        return out
    header, body = table[0], table[1:]
    pot = potential_columns(o, ann)
    want = choose_columns(o, ann) if "columns" in o else pot
    out.append(rec("dump:columns", sorted(header) == sorted(want), case, header, want, nt,
                   "dump:columns:" + ("-c" if "columns" in o else "default"), detail))
    ok_n = len(body) == len(mp_) and all(len(r) == len(header) for r in body)
    out.append(rec("dump:lists-the-query-pixels", ok_n, case, f"{len(body)} rows: {body[:12]}", f"{len(mp_)} rows: {mp_[:12]}", nt, rsig, detail))
    if not ok_n:
        return out
    # printed columns the model knows, pixel identity first (so that a wrong value column cannot disturb the row matching below)
    prio = ["bin1_id", "bin2_id", "chrom1", "start1", "end1", "chrom2", "start2", "end2"] + [f + x for f in ann for x in "12"] + ["count", "balanced"]
    known = sorted((c for c in header if c in pot), key=prio.index)
    idx = [header.index(c) for c in known]
    exp_rows = [[model_value(c, px, rows, o, ann) for c in known] for px in mp_]
    got_rows = [[r[i] for i in idx] for r in body]
    # rows are matched after sorting both sides on all printed columns (a uniform +1 on a column keeps the order)
    got_sorted = sorted(got_rows, key=lambda r: [tok_key(t) for t in r])
    exp_sorted = sorted(exp_rows, key=lambda r: [exp_key(v) for v in r])
    groups = dict(GROUPS)
    groups["annotate"] = tuple(f + s for f in ann for s in "12") if "annotate" in o else ()
    for g, cols in groups.items():
        cidx = [known.index(c) for c in cols if c in known]
        if not cidx:
            continue
        same = all(tok_equal(gr[c], er[c]) for gr, er in zip(got_sorted, exp_sorted) for c in cidx)
        sig = f"dump:{g}"
        if g == "ids" and "one-based-ids" in o:
            sig += ":one-based-ids"
        if g == "coords" and "one-based-starts" in o:
            sig += ":one-based-starts"
        if not same:
            bad = [(gr, er) for gr, er in zip(got_sorted, exp_sorted) if not all(tok_equal(gr[c], er[c]) for c in cidx)][:4]
            out.append(rec(f"dump:{g}", False, case, [b[0] for b in bad], {"columns": known, "rows": [b[1] for b in bad]}, nt, sig, detail))
        else:
            out.append(rec(f"dump:{g}", True, case, nontrivial=nt))
    # sequence for the direct engine: pixel-table order (row-major), judged on the printed pixel identity columns;
    # ranks are compared so that a uniform shift of a column (the ids/coords contracts' business) does not matter here
    if ("fill-lower" not in o or not symm) and "columns" not in o:
        idc = [c for c in (("chrom1", "start1", "chrom2", "start2") if "join" in o else ("bin1_id", "bin2_id")) if c in known]
        if len(idc) == (4 if "join" in o else 2):
            ci = [known.index(c) for c in idc]
            # chromosomes compare by their order in the bin table, not alphabetically
            corder = {}
            for c, _, _ in rows:
                corder.setdefault(c, len(corder))
            gk = [tuple(corder.get(r[c], -1) if known[c].startswith("chrom") else tok_key(r[c]) for c in ci) for r in got_rows]
            ek = [tuple(corder[r[c]] if known[c].startswith("chrom") else exp_key(r[c]) for c in ci) for r in exp_rows]
            rank = lambda L: [sorted(set(L)).index(x) for x in L]
            out.append(rec("dump:row-order==pixel-table-order", rank(gk) == rank(ek), case, got_rows[:12], exp_rows[:12], nt,
                           "dump:row-order==pixel-table-order", detail))
    return out


def api_rows(clr, o, reg):
    """the corresponding library query, rendered like the dump prints it"""
    bal, join = "balanced" in o, "join" in o
    if "fill-lower" in o and clr.storage_mode == "symmetric-upper":
        sel = clr.matrix(sparse=True, balance=bal)
        if reg["r"]:
            m = sel.fetch(reg["r"], reg["r2"])
            i0 = clr.extent(reg["r"])[0]
            j0 = clr.extent(reg["r2"] or reg["r"])[0]
        else:
            m = sel[:, :]
            i0 = j0 = 0
        return None, [(int(r) + i0, int(c) + j0, v) for r, c, v in zip(m.row, m.col, m.data)]
    sel = clr.matrix(as_pixels=True, balance=bal, join=join)
    df = sel.fetch(reg["r"], reg["r2"]) if reg["r"] else sel[:, :]
    return list(df.columns), df.values.tolist()


def check_api(spec, runner, path, clr, o, reg, k=None):
    o = frozenset(o)
    args = dump_args(o, reg, [], k)
    case = dict(bintable=spec["tname"], matrix=spec["mname"], symmetric_upper=spec["symm"], args=args + ["<cool>"], against="library query")
    detail = dict(bins=spec["bins"], pixels=spec["pixels"])
    C = "dump==library-query"
    sig = C + (":fill-lower" if "fill-lower" in o else "") + (":region" if reg["r"] else "")
    try:
        res = runner.invoke(cli, args + [path])
        if res.exit_code != 0:
            return [rec(C, False, case, f"exit {res.exit_code}: {res.exception!r}", "exit 0", True, sig, detail)]
        table = parse_table(res.stdout)
        cols, vals = api_rows(clr, o, reg)
    except Exception as e:
        return [crashed(C, case, e, sig + ":exception", detail)]

    def fmt(v):
        if isinstance(v, str):
            return v
        if isinstance(v, float):
            return "" if math.isnan(v) else "%g" % v
        return str(int(v))
    if cols is None:      # fill-lower: sparse query -> (i, j, value) as a multiset
        body = table[1:] if table else []
        vi = table[0].index("balanced" if "balanced" in o else "count") if table else 2
        got = sorted((int(r[0]), int(r[1]), r[vi]) for r in body)
        exp = sorted((i, j, fmt(float(v)) if "balanced" in o else fmt(v)) for i, j, v in vals)
        return [rec(C, got == exp, case, got[:20], exp[:20], len(exp) > 0, sig, detail)]
    if not table:
        return [rec(C, len(vals) == 0, case, "no output", vals[:20], False, sig, detail)]
    exp = [[fmt(v) for v in r] for r in vals]
    good = table[0] == cols and table[1:] == exp
    return [rec(C, good, case, table[:20], [cols] + exp[:20], len(exp) > 0, sig, detail)]


class CachingRunner:
    """the same command line on the same (unchanged) file is executed once"""

    def __init__(self):
        self.runner = CliRunner()
        self.cache = {}

    def invoke(self, cmd, args):
        key = tuple(args)
        if key not in self.cache:
            self.cache[key] = self.runner.invoke(cmd, args)
        return self.cache[key]


def dump_job(spec):
    """one cooler x a list of (option subset, region index) runs"""
    out = []
    d = spec["dir"]
    os.makedirs(d, exist_ok=True)
    try:
        path = os.path.join(d, "c.cool")
        bdf = bins_frame(spec["bins"])
        cooler.create_cooler(path, bdf, pixel_frame(spec["pixels"]), symmetric_upper=spec["symm"], ordered=True)
        runner = CachingRunner()
        regs = spec["regions"]
        ann = spec["ann"]
        for o, ri in spec["runs"]:
            out += check_dump(spec, runner, path, o, regs[ri], ann)
        for o, ri, k in spec.get("chunked", []):
            out += check_dump(spec, runner, path, o, regs[ri], ann, k)
        clr = cooler.Cooler(path)
        for o, ri in spec.get("api", []):
            out += check_api(spec, runner, path, clr, o, regs[ri])
        for o, ri, k in spec.get("chunked", []):
            if set(o) <= {"fill-lower", "balanced", "join"} and not ({"fill-lower", "join"} <= set(o) and spec["symm"]):
                out += check_api(spec, runner, path, clr, o, regs[ri], k)
        # -H adds exactly one line; -o writes what stdout would get
        for o in spec.get("plain", []):
            reg = regs[0]
            case = dict(bintable=spec["tname"], matrix=spec["mname"], symmetric_upper=spec["symm"], args=dump_args(o, reg, ann, header=False) + ["<cool>"])
            try:
                a = runner.invoke(cli, dump_args(o, reg, ann, header=True) + [path])
                b = runner.invoke(cli, dump_args(o, reg, ann, header=False) + [path])
                fo = os.path.join(d, "o.txt")
                if os.path.exists(fo):
                    os.remove(fo)
                c = runner.invoke(cli, dump_args(o, reg, ann, header=True, out=fo) + [path])
                ta, tb = a.stdout.split("\n"), b.stdout.split("\n")
                cond = a.exit_code == 0 and b.exit_code == 0 and (ta[1:] == tb if a.stdout else tb == [""])
                out.append(rec("dump:header-adds-one-line", cond, case, tb[:6], ta[1:7], bool(a.stdout)))
                txt = open(fo).read() if os.path.exists(fo) else None
                out.append(rec("dump:out-file==stdout", c.exit_code == 0 and txt == a.stdout, dict(case, out="<file>"), txt and txt[:300], a.stdout[:300], bool(a.stdout)))
            except Exception as e:
                out.append(crashed("dump:header-adds-one-line", case, e, "dump:header-adds-one-line:exception"))
    except Exception as e:
        out.append(crashed("dump:runs", dict(bintable=spec["tname"], matrix=spec["mname"], symmetric_upper=spec["symm"]), e, "dump:job-setup"))
    finally:
        shutil.rmtree(d, ignore_errors=True)
    return out


# ---------------------------------------------------------------------------------- loaders
COO_FIELDS = ["bin1_id", "bin2_id", "count"]
BG2_FIELDS = ["chrom1", "start1", "end1", "chrom2", "start2", "end2", "count"]
PAIR_FIELDS = ["chrom1", "pos1", "chrom2", "pos2"]


def layout_kind(names_in_library_order, layout):
    """are the field numbers ascending in the order in which the command lists the field names
    (positional fields in their fixed order, then the value fields in command-line order)?"""
    nums = [layout[f] for f in names_in_library_order]
    return "ascending-field-numbers" if nums == sorted(nums) else "non-ascending-field-numbers"


def chunk_class(nrec, cs, max_merge):
    """kind of chunking, for signatures: one chunk / several chunks merged in one pass / more chunks than --max-merge"""
    if not cs or cs >= nrec:
        return ""
    nchunks = -(-nrec // cs)
    return ":two-pass-merge" if nchunks > (max_merge or 200) else ":multi-chunk"


def write_table(path, records, fields, layout, ncols, header=None):
    with open(path, "w") as f:
        if header:
            f.write(header)
        for r in records:
            row = ["9"] * ncols
            for name in fields:
                row[layout[name]] = str(r[name])
            f.write("\t".join(row) + "\n")


def read_pixels_raw(path, cols=("count",)):
    with h5py.File(path, "r") as h:
        arrs = [h["pixels/bin1_id"][:].tolist(), h["pixels/bin2_id"][:].tolist()] + [h["pixels/" + c][:].tolist() for c in cols]
        b = list(zip([x.decode() if isinstance(x, bytes) else x for x in h["chroms/name"][:][h["bins/chrom"][:]].tolist()],
                     h["bins/start"][:].tolist(), h["bins/end"][:].tolist()))
        mode = h.attrs.get("storage-mode", "symmetric-upper")
    return [tuple(r) for r in zip(*arrs)], b, mode


def load_job(spec):
    """text (COO or BG2, optionally with a supplementary value field `val`) whose fields sit at the file columns given
    by `layout` -> `cooler load` with `--field name=number` for the names in spec['cli_fields'] -> compare"""
    d = spec["dir"]
    os.makedirs(d, exist_ok=True)
    fmt, rows, P, symm, ob = spec["fmt"], spec["bins"], spec["pixels"], spec["symm"], spec["one_based"]
    positional = COO_FIELDS[:2] if fmt == "coo" else BG2_FIELDS[:6]
    layout, ncols, cli_fields = spec["layout"], spec["ncols"], spec["cli_fields"]
    wv = "val" in layout
    fields = positional + ["count"] + (["val"] if wv else [])
    names = positional + ([f for f in cli_fields if f not in positional] if cli_fields else ["count"])
    kind = layout_kind(names, layout)
    if fmt == "bg2" and any(f in positional for f in cli_fields):
        kind += ":positional-field-numbers-via---field"
    C = f"load-{fmt}:reproduces-the-cooler"
    nrec = len(P)
    cs = spec.get("chunksize")
    fc = spec.get("float_count")         # None | "flag" (--count-as-float) | "field" (--field count=N:dtype=float)
    chunk = chunk_class(nrec, cs, spec.get("max_merge"))
    if fc:
        kind += ":float-count"
    sig = f"{C}:{kind}{chunk}"
    out = []
    try:
        bpath, tpath, opath = os.path.join(d, "bins.bed"), os.path.join(d, "pix.txt"), os.path.join(d, "out.cool")
        pd.DataFrame(rows).to_csv(bpath, sep="\t", header=False, index=False)
        order = spec.get("shuffle") or list(range(nrec))
        val = lambda i, j, v: 1000 + 31 * i + 7 * j
        recs = []
        for t in order:
            i, j, v = P[t]
            if fmt == "coo":
                recs.append({"bin1_id": i + ob, "bin2_id": j + ob, "count": v, "val": val(i, j, v)})
            else:
                recs.append({"chrom1": rows[i][0], "start1": rows[i][1] + ob, "end1": rows[i][2],
                             "chrom2": rows[j][0], "start2": rows[j][1] + ob, "end2": rows[j][2], "count": v, "val": val(i, j, v)})
        write_table(tpath, recs, fields, layout, ncols)
        args = ["load", "-f", fmt]
        if ob:
            args.append("--one-based")
        if not symm:
            args.append("-N")
        if cs:
            args += ["--chunksize", str(cs)]
        if spec.get("mergebuf"):
            args += ["--mergebuf", str(spec["mergebuf"])]
        if spec.get("max_merge"):
            args += ["--max-merge", str(spec["max_merge"])]
        if fc == "flag":
            args.append("--count-as-float")
        for f in cli_fields:
            args += ["--field", f"{f}={layout[f] + 1}" + (":dtype=float" if fc == "field" and f == "count" else "")]
        case = dict(bintable=spec["tname"], matrix=spec["mname"], symmetric_upper=symm, one_based=bool(ob), layout=layout, ncols=ncols,
                    args=args + ["<bins>", "<text>", "<out>"])
        detail = dict(bins=rows, pixels=P, text_head=open(tpath).read()[:300])
        res = CliRunner().invoke(cli, args + [bpath, tpath, opath])
        if res.exit_code != 0:
            out.append(rec(C, False, case, f"exit {res.exit_code}: {res.exception!r}", "exit 0 and the source pixels", True, sig, detail))
            return out
        vcols = ("count", "val") if wv else ("count",)
        with h5py.File(opath, "r") as h:
            have = sorted(h["pixels"].keys())
            ckind = h["pixels/count"].dtype.kind if "count" in h["pixels"] else None
        if have != sorted(("bin1_id", "bin2_id") + vcols) or ckind != ("f" if fc else "i"):
            out.append(rec(C, False, case, {"pixel columns": have, "count dtype kind": ckind},
                           {"pixel columns": sorted(("bin1_id", "bin2_id") + vcols), "count dtype kind": "f" if fc else "i"}, True, sig, detail))
            return out
        got, gb, mode = read_pixels_raw(opath, vcols)
        exp = [(i, j, v) + ((val(i, j, v),) if wv else ()) for i, j, v in sorted(P)]
        good = got == exp and gb == [tuple(r) for r in rows] and mode == ("symmetric-upper" if symm else "square")
        out.append(rec(C, good, case, got[:30], exp[:30], nrec > 0, sig, detail))
        if spec.get("libref"):
            # ... and the matrix the library call produces on the same data
            ref = os.path.join(d, "ref.cool")
            pf = pd.DataFrame(P, columns=["bin1_id", "bin2_id", "count"]) if fc else pixel_frame(P)
            cooler.create_cooler(ref, bins_frame(rows, extra=False), pf, symmetric_upper=symm, ordered=True,
                                 **({"dtypes": {"count": np.float64}} if fc else {}))
            m1 = cooler.Cooler(opath).matrix(balance=False)[:, :]
            m0 = cooler.Cooler(ref).matrix(balance=False)[:, :]
            out.append(rec(f"load-{fmt}:matrix==library-created", np.array_equal(m0, m1), case, m1.tolist(), m0.tolist(), nrec > 0,
                           f"load-{fmt}:matrix==library-created:{kind}{chunk}", detail))
    except Exception as e:
        out.append(crashed(C, dict(bintable=spec["tname"], matrix=spec["mname"], layout=layout, fmt=fmt, cli_fields=cli_fields), e, sig))
    finally:
        shutil.rmtree(d, ignore_errors=True)
    return out


def roundtrip_job(spec):
    """real `cooler dump` -> real `cooler load` with the matching flags"""
    d = spec["dir"]
    os.makedirs(d, exist_ok=True)
    rows, P, symm, fmt, ob = spec["bins"], spec["pixels"], spec["symm"], spec["fmt"], spec["one_based"]
    C = "dump->load:reproduces-the-cooler"
    filled, cs = spec.get("filled"), spec.get("chunksize")
    # filled: `dump --fill-lower` of a symmetric cooler (both triangles + diagonal in the text) -> `load --input-copy-status duplex`
    sig = f"{C}:{fmt}:{'one-based' if ob else 'zero-based'}" + (":fill-lower->duplex" if filled else "") + \
          chunk_class((2 * len(P) if filled else len(P)), cs, None)
    case = dict(bintable=spec["tname"], matrix=spec["mname"], symmetric_upper=symm, format=fmt, one_based=bool(ob))
    detail = dict(bins=rows, pixels=P)
    out = []
    try:
        src, bpath, tpath, opath = (os.path.join(d, x) for x in ("src.cool", "bins.bed", "dump.txt", "out.cool"))
        cooler.create_cooler(src, bins_frame(rows, extra=False), pixel_frame(P), symmetric_upper=symm, ordered=True)
        runner = CliRunner()
        r0 = runner.invoke(cli, ["dump", "-t", "bins", "-o", bpath, src])
        a = ["dump", "-o", tpath]
        if fmt == "bg2":
            a.append("--join")
        if ob:
            a.append("--one-based-ids" if fmt == "coo" else "--one-based-starts")
        if filled:
            a.append("--fill-lower")
        if spec.get("dump_k"):
            a += ["-k", str(spec["dump_k"])]
        r1 = runner.invoke(cli, a + [src])
        l = ["load", "-f", fmt] + (["--one-based"] if ob else []) + ([] if symm else ["-N"]) + \
            (["--input-copy-status", "duplex"] if filled else []) + (["--chunksize", str(cs)] if cs else [])
        case["dump_args"], case["load_args"] = ["<dump>" if x == tpath else x for x in a] + ["<src>"], l + ["<bins>", "<dump>", "<out>"]
        r2 = runner.invoke(cli, l + [bpath, tpath, opath])
        if r0.exit_code or r1.exit_code or r2.exit_code:
            out.append(rec(C, False, case, f"exit codes {r0.exit_code},{r1.exit_code},{r2.exit_code}: {r0.exception!r} {r1.exception!r} {r2.exception!r}",
                           "all exit 0", True, sig, detail))
            return out
        got, gb, mode = read_pixels_raw(opath)
        good = got == sorted(P) and gb == [tuple(r) for r in rows] and mode == ("symmetric-upper" if symm else "square")
        if not good:
            detail = dict(detail, dump_head=open(tpath).read()[:400])
        out.append(rec(C, good, case, got[:30], sorted(P)[:30], len(P) > 0, sig, detail))
    except Exception as e:
        out.append(crashed(C, case, e, sig, detail))
    finally:
        shutil.rmtree(d, ignore_errors=True)
    return out


def bin_of(rows, chrom, pos):
    for k, (c, s, e) in enumerate(rows):
        if c == chrom and s <= pos < e:
            return k
    raise ValueError((chrom, pos))


def pairs_job(spec):
    d = spec["dir"]
    os.makedirs(d, exist_ok=True)
    rows, pairs, symm, zb = spec["bins"], spec["pairs"], spec["symm"], spec["zero_based"]
    layout, ncols, wv = spec["layout"], spec["ncols"], spec["with_value"]
    fields = PAIR_FIELDS + (["val"] if wv else [])
    kind = layout_kind(fields, layout)
    cs = spec.get("chunksize")
    C = "cload-pairs:bins-as-the-model"
    fc = spec.get("float_count")     # the value column (x.5 values) is summed into `count`: --field count=N:dtype=float
    chunk = chunk_class(len(pairs), cs, spec.get("max_merge"))
    if fc:
        kind += ":float-count"
    sig = f"{C}:{kind}{chunk}"
    out = []
    try:
        bpath, tpath, opath = os.path.join(d, "bins.bed"), os.path.join(d, "p.pairs"), os.path.join(d, "out.cool")
        pd.DataFrame(rows).to_csv(bpath, sep="\t", header=False, index=False)
        off = 0 if zb else 1
        half = 0.5 if fc else 0
        recs = [{"chrom1": c1, "pos1": p1 + off, "chrom2": c2, "pos2": p2 + off, "val": v + half} for (c1, p1, c2, p2, v) in pairs]
        write_table(tpath, recs, fields, layout, ncols, header="## pairs format v1.0\n#columns: see the command line\n" if spec.get("header") else None)
        args = ["cload", "pairs", "-c1", str(layout["chrom1"] + 1), "-p1", str(layout["pos1"] + 1),
                "-c2", str(layout["chrom2"] + 1), "-p2", str(layout["pos2"] + 1)]
        if zb:
            args.append("--zero-based")
        if not symm:
            args.append("-N")
        if wv:
            args += ["--field", (f"count={layout['val'] + 1}:dtype=float" if fc else f"val={layout['val'] + 1}")]
        if cs:
            args += ["--chunksize", str(cs)]
        if spec.get("mergebuf"):
            args += ["--mergebuf", str(spec["mergebuf"])]
        if spec.get("max_merge"):
            args += ["--max-merge", str(spec["max_merge"])]
        case = dict(bintable=spec["tname"], symmetric_upper=symm, zero_based=zb, layout=layout, ncols=ncols, args=args + ["<bins>", "<pairs>", "<out>"])
        detail = dict(bins=rows, pairs_zero_based=pairs, text_head=open(tpath).read()[:300])
        res = CliRunner().invoke(cli, args + [bpath, tpath, opath])
        if res.exit_code != 0:
            out.append(rec(C, False, case, f"exit {res.exit_code}: {res.exception!r}", "exit 0 and the binned pairs", True, sig, detail))
            return out
        # plain-python binning
        acc = {}
        for (c1, p1, c2, p2, v) in pairs:
            b1, b2 = bin_of(rows, c1, p1), bin_of(rows, c2, p2)
            if symm and b1 > b2:
                b1, b2 = b2, b1
            n_, s_ = acc.get((b1, b2), (0, 0))
            acc[(b1, b2)] = (n_ + 1, s_ + v + half)
        if fc:      # `count` is the (exact, x.5-valued) sum of the value column, stored as float
            exp = [(b1, b2, float(s_)) for (b1, b2), (n_, s_) in sorted(acc.items())]
            vcols = ("count",)
        else:
            exp = [(b1, b2, n_) + ((s_,) if wv else ()) for (b1, b2), (n_, s_) in sorted(acc.items())]
            vcols = ("count", "val") if wv else ("count",)
        with h5py.File(opath, "r") as h:
            have = sorted(h["pixels"].keys())
            ckind = h["pixels/count"].dtype.kind if "count" in h["pixels"] else None
        if have != sorted(("bin1_id", "bin2_id") + vcols) or ckind != ("f" if fc else "i"):
            out.append(rec(C, False, case, {"pixel columns": have, "count dtype kind": ckind},
                           {"pixel columns": sorted(("bin1_id", "bin2_id") + vcols), "count dtype kind": "f" if fc else "i"}, True, sig, detail))
            return out
        got, gb, mode = read_pixels_raw(opath, vcols)
        good = got == exp and gb == [tuple(r) for r in rows] and mode == ("symmetric-upper" if symm else "square")
        out.append(rec(C, good, case, got[:30], exp[:30], True, sig, detail))
        # the library's own pipeline on a correctly labelled frame (in memory, one chunk)
        if spec.get("libref"):
            from cooler.create import sanitize_records, aggregate_records
            df = pd.DataFrame(recs)[fields]
            if fc:
                df = df.rename(columns={"val": "count"})
            san = sanitize_records(bins_frame(rows, extra=False), schema="pairs", decode_chroms=True, is_one_based=not zb,
                                   tril_action="reflect" if symm else None, sort=True, validate=True)
            agg = aggregate_records(agg={"count": "sum"} if fc else {"val": "sum"} if wv else {}, count=True, sort=False)
            ref = os.path.join(d, "ref.cool")
            cooler.create_cooler(ref, bins_frame(rows, extra=False), [agg(san(df))], columns=["count"] if fc else (["val"] if wv else []) + ["count"],
                                 symmetric_upper=symm, ordered=False, triucheck=False, dupcheck=False, boundscheck=False, ensure_sorted=False,
                                 **({"dtypes": {"count": np.float64}} if fc else {}))
            r_, _, _ = read_pixels_raw(ref, vcols)
            out.append(rec("cload-pairs:==library-pipeline", got == r_, case, got[:30], r_[:30], True, f"cload-pairs:==library-pipeline:{kind}{chunk}", detail))
    except Exception as e:
        out.append(crashed(C, dict(bintable=spec["tname"], layout=layout, zero_based=zb, symmetric_upper=symm), e, sig))
    finally:
        shutil.rmtree(d, ignore_errors=True)
    return out


def make_pairs(rows, rng=None, n_extra=0):
    """(chrom1, pos1, chrom2, pos2, val) with zero-based positions: both orientations, inter-chromosomal,
    same bin, first/last base of a chromosome, repeated pixels"""
    chroms = []
    for c, s, e in rows:
        if c not in chroms:
            chroms.append(c)
    L = {c: max(e for cc, s, e in rows if cc == c) for c in chroms}
    a, b = chroms[0], chroms[-1]
    ps = [(a, 0, a, L[a] - 1, 3), (a, L[a] - 1, a, 0, 5), (b, L[b] - 1, a, 1, 7), (a, 1, b, L[b] - 1, 11), (a, 2, a, 2, 13),
          (b, 0, b, L[b] - 1, 17), (a, L[a] // 2, b, L[b] // 2, 19), (a, L[a] // 2, b, L[b] // 2, 23), (b, L[b] // 2, a, L[a] // 2, 29)]
    if rng is not None:
        for _ in range(n_extra):
            c1, c2 = rng.choice(chroms), rng.choice(chroms)
            ps.append((c1, rng.randrange(L[c1]), c2, rng.randrange(L[c2]), rng.randrange(1, 50)))
    return ps


# ---------------------------------------------------------------------------------- field params / zoomify
def field_param_checks(R):
    C = "field-param:name=number:props"
    names = ["count", "val", "bin1_id", "x.y", "a_b"]
    nums = [("", None), ("=1", 0), ("=2", 1), ("=10", 9), ("=007", 6), ("=0", "err"), ("=-1", "err"), ("=x", "err"), ("=", "err"),
            ("=1.5", "err"), ("=1=2", "err")]
    props = [("", None, None), (":dtype=float", "float64", None), (":dtype=int32", "int32", None), (":agg=mean", None, "mean"),
             (":dtype=float,agg=mean", "float64", "mean"), (":agg=sum,dtype=float32", "float32", "sum"), (":bogus=1", "err", "err"),
             (":dtype", "err", "err"), (":dtype=float:agg=mean", "err", "err")]
    for nm in names:
        for ntxt, nexp in nums:
            for ptxt, dexp, aexp in props:
                arg = nm + ntxt + ptxt
                case = dict(fn="parse_field_param", arg=arg)
                try:
                    got = parse_field_param(arg)
                    got = (got[0], got[1], None if got[2] is None else str(got[2]), got[3])
                except click.BadParameter as e:
                    got = "BadParameter"
                except Exception as e:
                    got = f"{type(e).__name__}: {e}"
                exp = "BadParameter" if "err" in (nexp, dexp, aexp) else (nm, nexp, dexp, aexp)
                R.record(rec(C, got == exp, case, got, exp, True, C + (":refusal" if exp == "BadParameter" else ":accepted")))


def nice_seq(start, stop):
    out, k = set(), 0
    while start * 10 ** k <= stop:
        for m in (1, 2, 5):
            if start * m * 10 ** k <= stop:
                out.add(start * m * 10 ** k)
        k += 1
    return sorted(out)


def binary_seq(start, stop):
    out = []
    while start <= stop:
        out.append(start)
        start *= 2
    return out


def expand_spec(spec, base, maxres):
    """independent reading of the help text of `cooler zoomify -r`"""
    out = []
    for item in spec.split(","):
        t = item.strip().lower()
        if t == "n":
            out += nice_seq(base, maxres)
        elif t == "b":
            out += binary_seq(base, maxres)
        elif t == "4dn":
            out += [1000, 2000] + nice_seq(5000, maxres)
        elif t.endswith("n"):
            out += nice_seq(int(t[:-1]), maxres)
        elif t.endswith("b"):
            out += binary_seq(int(t[:-1]), maxres)
        else:
            out.append(int(t))
    return out


def spec_kind(spec):
    ks = []
    for item in spec.split(","):
        t = item.strip().lower()
        ks.append(t.upper() if t in ("n", "b", "4dn") else "<int>N" if t.endswith("n") else "<int>B" if t.endswith("b") else "<int>")
    return "+".join(sorted(set(ks)))


def zoomify_checks(B, R, coolers):
    """coolers: list of (binsize, chromsizes, [spec spellings]).  The documented stop of a progression is the resolution
    at which the whole genome fits one 256 x 256 tile, ceil(genome_length / 256), INCLUSIVE; the levels actually written
    to the .mcool are compared with an independent expansion of the spec."""
    C = "zoomify:spec-expands-to-documented-progression"
    runner = CliRunner()
    for ci, (bs, sizes, specs) in enumerate(coolers):
        rows = [(c, s, min(s + bs, L)) for c, L in sizes.items() for s in range(0, L, bs)]
        nb = len(rows)
        n1 = sum(1 for r in rows if r[0] == rows[0][0])
        P = sorted({(0, 0, 1), (1, 3, 2), (5, 7, 3), (100, nb - 1, 4), ((n1 - 1, n1, 5) if n1 < nb else (nb - 2, nb - 1, 5)), (nb - 1, nb - 1, 6)})
        src = B.path(f"z{ci}.cool")
        cooler.create_cooler(src, bins_frame(rows, extra=False), pixel_frame(P), ordered=True)
        L = sum(sizes.values())
        maxres = -(-L // 256)
        for k, spec in enumerate(specs):
            outp = B.path(f"z{ci}-{k}.mcool")
            args = ["zoomify", "-o", outp] + (["-r", spec] if spec is not None else []) + [src]
            case = dict(spec=spec, binsize=bs, chromsizes=sizes, stop=maxres, args=["zoomify", "-o", "<out>"] + (["-r", spec] if spec is not None else []) + ["<cool>"])
            sk = spec_kind(spec if spec is not None else "b")
            try:
                exp = sorted(set(expand_spec(spec if spec is not None else "B", bs, maxres)) | {bs})
                sig = f"{C}:{sk}" + (":top-level==ceil(L/256)" if maxres in exp and L % 256 else "")
                res = runner.invoke(cli, args)
                if res.exit_code != 0:
                    R.record(rec(C, False, case, f"exit {res.exit_code}: {res.exception!r}", exp, True, sig))
                    continue
                got = sorted(int(p.split("/")[-1]) for p in cooler.fileops.list_coolers(outp))
                sums = {r: int(cooler.Cooler(f"{outp}::resolutions/{r}").pixels()["count"][:].sum()) for r in got}
                sizes_ok = all(cooler.Cooler(f"{outp}::resolutions/{r}").binsize == r for r in got)
                good = got == exp and sizes_ok and all(v == sum(p[2] for p in P) for v in sums.values())
                R.record(rec(C, good, case, dict(resolutions=got, sums=sums), dict(resolutions=exp, sum=sum(p[2] for p in P)), True, sig))
            except Exception as e:
                R.record(crashed(C, case, e, f"{C}:{sk}"))
            finally:
                if os.path.exists(outp):
                    os.remove(outp)
    # posts of the progression generator itself
    C2 = "preferred_sequence:posts"
    for style in ("binary", "nice"):
        for start in list(range(1, 26)) + [50, 100, 250, 1000, 2500, 5000]:
            for stop in sorted({start, start + 1, 2 * start - 1, 2 * start, 5 * start, 10 * start - 1, 10 * start, 37 * start, 1000 * start + 1}):
                case = dict(fn="preferred_sequence", start=start, stop=stop, style=style)
                try:
                    got = [int(x) for x in preferred_sequence(start, stop, style)]
                except Exception as e:
                    R.record(crashed(C2, case, e, f"{C2}:{style}"))
                    continue
                exp = binary_seq(start, stop) if style == "binary" else nice_seq(start, stop)
                R.record(rec(C2, got == exp and got[0] == start and max(got) <= stop, case, got, exp, True, f"{C2}:{style}"))


# ---------------------------------------------------------------------------------- main
def subsets(full, upto=2):
    allf = [frozenset(c) for r in range(len(FLAGS) + 1) for c in itertools.combinations(FLAGS, r)]
    if full:
        return allf
    return [s for s in allf if len(s) <= upto or len(s) == len(FLAGS)]


def main():
    B = Bounded("C16", "bounded/C16.py")
    R = Rec(B)
    T = B.thorough
    tables = {name: [tuple(r) for r in df.itertuples(index=False)] for name, df in bin_tables(small=not T)}
    tables["width1"] = [("chr1", 0, 1), ("chr1", 1, 2), ("chr1", 2, 3), ("chr2", 0, 1), ("chr2", 1, 2)]   # one-based vs zero-based starts land in different bins
    jid = itertools.count()
    jdir = lambda: B.path(f"j{next(jid)}")
    npick = itertools.count()

    def pick(lst, k):
        """thorough: seeded sample; quick: a fixed, evenly strided selection (the quick scope is a fixed enumerated set)"""
        lst = list(lst)
        if k <= 0:
            return []
        if k >= len(lst):
            return lst
        if T:
            return B.rng.sample(lst, k)
        off = next(npick) % max(1, len(lst) // k)
        return lst[off::max(1, len(lst) // k)][:k]

    def shuffled(n):
        sh = list(range(n))
        if T:
            B.rng.shuffle(sh)
        else:
            sh.sort(key=lambda t: ((t * 7 + 3) % 11, t))
        return sh

    # ------------------------------------------------------------ dump
    if T:
        full = [(t, m, s) for t in tables for m in ("dense", "sparse-empty-row") for s in (True, False)]
        red = [(t, m, s) for t in tables for m in ("empty", "diagonal", "corners") for s in (True, False)]
    else:
        full = [("variable", "dense", True)]
        mid = [("fixed10-short-last", "sparse-empty-row", False)]        # square: subsets of size <= 2 and the full set, all 5 region choices
        red = [("variable", "corners", False), ("one-bin-chroms", "dense", True),
               ("single-chrom-fixed", "dense", False), ("fixed10-exact", "empty", True)]
    dump_specs = []
    for which, lst in (("full", full), ("mid", [] if T else mid), ("reduced", red)):
        for t, m, s in lst:
            rows = tables[t]
            A = scope_matrices(len(rows))[m]
            regs = region_choices(rows, B.rng if T else None)
            subs = subsets(which == "full", 1 if m == "empty" and not T else 2)
            ridx = list(range(len(regs))) if which != "reduced" or T else [0, 1, 2, 3]
            runs = [(sorted(o), ri) for o in subs for ri in ridx]
            api = [(sorted(o), ri) for o in subs if o <= {"fill-lower", "balanced", "join"} and not ({"fill-lower", "join"} <= o and s)
                   for ri in ridx]
            chunked = [(sorted(o), ri, k) for o in (frozenset(), frozenset({"fill-lower"}), frozenset(FLAGS) - {"columns"})
                       for ri in range(3) for k in ((1, 2, 3) if which in ("full", "mid") or T else (2,))]
            # region boxes on / above / BELOW / across the diagonal with the bin-table joins and tiny chunks (-k 1, 2: chunks that are
            # empty, start at a row > 0, hold fewer records than there are bins): every record must carry the coordinates, weights and
            # annotation of its OWN two bins; with --fill-lower on symmetric coolers, as stored on square ones
            if T or which in ("full", "mid") or (t, m) in (("one-bin-chroms", "dense"), ("variable", "corners")):
                for base in ({"join"}, {"balanced"}, {"annotate"}, {"join", "balanced", "annotate"}):
                    for fill in (False, True):
                        for ri in (1, 2, 3, 4):
                            for k in (1, 2):
                                chunked.append((sorted(base | ({"fill-lower"} if fill else set())), ri, k))
            dump_specs.append(dict(dir=jdir(), tname=t, mname=m, symm=s, bins=rows, pixels=stored_pixels(A.tolist(), s), regions=regs,
                                   ann=["tag"], runs=runs, api=api, chunked=chunked,
                                   plain=[[], sorted(set(FLAGS) - {"columns"})] if which in ("full", "mid") else [[]]))
    if T:   # random matrices / random option subsets / random chunk sizes, seeded
        for t in tables:
            rows = tables[t]
            n = len(rows)
            for s in (True, False):
                A = (B.nprng.random((n, n)) < 0.45) * B.nprng.integers(1, 60, (n, n))
                regs = region_choices(rows, B.rng)
                subs = B.rng.sample(subsets(True), 24)
                dump_specs.append(dict(dir=jdir(), tname=t, mname=f"random-seed{B.seed}", symm=s, bins=rows, pixels=stored_pixels(A.tolist(), s),
                                       regions=regs, ann=["tag"], runs=[(sorted(o), ri) for o in subs for ri in range(len(regs))], api=[],
                                       chunked=[(sorted(o), B.rng.randrange(len(regs)), B.rng.choice([1, 2, 3, 5])) for o in subs], plain=[]))
    n_random = sum(1 for d_ in dump_specs if d_["mname"].startswith("random"))
    run_jobs(B, R, dump_job, dump_specs, T)

    # ------------------------------------------------------------ load (COO / BG2)
    load_specs = []
    lt = [("fixed10-short-last", "dense"), ("variable", "sparse-empty-row"), ("width1", "dense")] + \
         ([("one-bin-chroms", "dense"), ("fixed-3chrom", "corners")] if T else [])

    def placements(fields, ncols):
        return [dict(zip(fields, p)) for p in itertools.permutations(range(ncols), len(fields))]
    coo3, coo4 = COO_FIELDS, COO_FIELDS + ["val"]
    # (layout, ncols, names given by --field in this order); the default layout is also run without any --field
    coo_lay = [(dict(zip(coo3, range(3))), 3, [])]
    coo_lay += [(l, 3, coo3) for l in placements(coo3, 3)]                                                   # every permutation of 3 columns
    coo_lay += [(l, 4, coo3) for l in placements(coo3, 4)[::1 if T else 2]]                                  # placements in 4 columns (quick: every second)
    coo_lay += [(l, 4, coo4) for l in placements(coo4, 4)[::1 if T else 3]]                                  # + supplementary value field (quick: every third)
    coo_lay += [(l, 4, list(reversed(coo4))) for l in placements(coo4, 4)[1::5 if T else 8]]                 # names in another command-line order
    if T:
        coo_lay += [(l, 5, coo3) for l in placements(coo3, 5)] + [(l, 5, coo4) for l in placements(coo4, 5)]
        coo_lay += [(l, 5, [coo4[k] for k in B.rng.sample(range(4), 4)]) for l in B.rng.sample(placements(coo4, 5), 40)]
    pos6 = dict(zip(BG2_FIELDS[:6], range(6)))
    bg2_lay = [(dict(pos6, count=6), 7, [])]
    # value fields only (the documented use of --field for BG2): count and val anywhere behind the six positional columns
    for c in (6, 7, 8):
        bg2_lay.append((dict(pos6, count=c), 9, ["count"]))
        for v in (6, 7, 8):
            if v != c and (T or (c + v) % 2):
                bg2_lay.append((dict(pos6, count=c, val=v), 9, ["count", "val"]))
                bg2_lay.append((dict(pos6, count=c, val=v), 9, ["val", "count"]))
    n_valueonly = len(bg2_lay)
    # positional fields moved with --field ("override default field numbers for the specified format")
    ident7 = list(range(7))
    perms = [tuple(ident7), tuple(reversed(ident7)), tuple(ident7[1:] + ident7[:1]), tuple(ident7[3:] + ident7[:3]),
             (1, 0, 2, 3, 4, 5, 6), (0, 1, 2, 3, 5, 4, 6), (3, 4, 5, 0, 1, 2, 6), (0, 2, 1, 3, 4, 5, 6)]
    if not T:
        perms = perms[:5]
    perms += pick(itertools.permutations(range(7)), 300 if T else 1)
    bg2_lay += [(dict(zip(BG2_FIELDS, p_)), 7, BG2_FIELDS) for p_ in dict.fromkeys(perms)]
    bg2_lay += [(dict(zip(BG2_FIELDS, p_)), 9, BG2_FIELDS) for p_ in ((0, 1, 2, 3, 4, 5, 8), (1, 2, 3, 5, 6, 7, 8), (0, 2, 3, 4, 6, 7, 8))[:3 if T else 1]]   # ascending, moved
    bg2_lay.append((dict(pos6, count=6), 7, ["start1", "count"]))
    for (t, m) in lt:
        rows = tables[t]
        A = scope_matrices(len(rows))[m]
        for s in (True, False):
            P = stored_pixels(A.tolist(), s)
            nrec = len(P)
            for ob in (0, 1):
                for fmt, lays in (("coo", coo_lay), ("bg2", bg2_lay)):
                    # every layout on the first cooler (the layouts are data-independent); on the other coolers / modes the
                    # default layout and a seeded sample
                    if ((t, m) == lt[0] and (T or (s and ob == 0))) or (T and (t, m) == lt[1] and s and ob == 0):
                        use = lays
                    else:
                        use = [lays[0]] + pick(lays[1:], 12 if T else 0 if ob else 1)
                    for k, (lay, nc, cf) in enumerate(use):
                        load_specs.append(dict(dir=jdir(), fmt=fmt, tname=t, mname=m, bins=rows, pixels=P, symm=s, one_based=ob, layout=lay, ncols=nc,
                                               cli_fields=cf, libref=(k % 8 == 0)))
                    if (ob or t == "width1") and not T:
                        continue
                    # chunk sizes on shuffled (unordered) input: default layout and one with a moved value field
                    sh = shuffled(nrec)
                    moved = (dict(zip(coo3, (0, 1, 3))), 4, ["count"]) if fmt == "coo" else (dict(pos6, count=8), 9, ["count"])
                    sizes = {1, 2, 3, nrec + 1} if T else {1, 2, nrec + 1} if nrec <= 8 else {3, nrec + 1}
                    for cs in sorted(sizes):
                        for lay, nc, cf in ((lays[0], moved) if T or cs == min(sizes) else (lays[0],)):
                            load_specs.append(dict(dir=jdir(), fmt=fmt, tname=t, mname=m, bins=rows, pixels=P, symm=s, one_based=ob, layout=lay, ncols=nc,
                                                   cli_fields=cf, chunksize=cs, shuffle=sh, libref=(cs == 2),
                                                   **({"mergebuf": 1000} if cs == 3 else {})))      # mergebuf: default (= chunksize) and explicit
    # non-integer counts (x.5) and more chunks than --max-merge (two merge passes): the stored values must be exactly the
    # source values, whatever the chunk size and --max-merge; single-chunk and single-pass runs are the baseline
    tables["fixed10-21bins"] = [("chrA", k * 10, k * 10 + 10) for k in range(21)]
    lay0 = {"coo": (dict(zip(coo3, range(3))), 3), "bg2": (dict(pos6, count=6), 7)}
    for ti, (t, m) in enumerate(lt[:2] if not T else lt):
        rows = tables[t]
        A = scope_matrices(len(rows))[m]
        for s in (True, False):
            P = stored_pixels(A.tolist(), s)
            Pf = [(i, j, v + 0.5) for i, j, v in P]
            nrec = len(P)
            sh = shuffled(nrec)
            for fmt in ("coo", "bg2"):
                combos = [(1, 2, "flag"), (2, 3, "field"), (1, 3, "field"), (2, None, "flag"), (nrec + 1, None, "flag"), (1, 2, None), (3, 2, "flag")]
                if not T:
                    # quick: chunk sizes chosen so that there are 4..8 chunks (each chunk costs a temporary cooler), still more than --max-merge
                    c5, c7, c4 = -(-nrec // 5), -(-nrec // 7), -(-nrec // 4)
                    combos = [(c5, 2, "flag"), (c7, 3, "field"), (c4, None, "flag"), (nrec + 1, None, "flag"), (c5, 2, None)] if fmt == "coo" and s else \
                             [(c5, 2, "flag"), (c7, 3, "field")] if fmt == "coo" or s else [(c5, 3, "flag")]
                for k, (cs, mm, fc) in enumerate(combos):
                    lay, nc = lay0[fmt]
                    load_specs.append(dict(dir=jdir(), fmt=fmt, tname=t, mname=m, bins=rows, pixels=Pf if fc else P, symm=s, one_based=0, layout=lay, ncols=nc,
                                           cli_fields=["count"] if fc == "field" else [], chunksize=cs, max_merge=mm, float_count=fc, shuffle=sh,
                                           libref=(k == 0)))
    # default --max-merge (200) exceeded: 231 records, one record per chunk
    rows = tables["fixed10-21bins"]
    P = stored_pixels(scope_matrices(21)["dense"].tolist(), True)
    for fmt, fc in ((("coo", "flag"), ("bg2", "field"), ("coo", None)) if T else ()):      # ~8 s each: thorough tier only
        load_specs.append(dict(dir=jdir(), fmt=fmt, tname="fixed10-21bins", mname="dense", bins=rows, pixels=[(i, j, v + 0.5) for i, j, v in P] if fc else P,
                               symm=True, one_based=0, layout=lay0[fmt][0], ncols=lay0[fmt][1], cli_fields=["count"] if fc == "field" else [],
                               chunksize=1, float_count=fc, shuffle=shuffled(len(P)), libref=True))
    run_jobs(B, R, load_job, load_specs, T)
    rt_specs = [dict(dir=jdir(), tname=t, mname=m, bins=tables[t], pixels=stored_pixels(scope_matrices(len(tables[t]))[m].tolist(), s), symm=s, fmt=fmt, one_based=ob)
                for (t, m) in lt for s in (True, False) for fmt in ("coo", "bg2") for ob in (0, 1) if T or s or t != "width1"]
    # `dump --fill-lower` of a symmetric cooler WITH diagonal pixels -> `load --input-copy-status duplex`: lower-triangle copies
    # are dropped, the diagonal is kept; chunk sizes that mix lower-triangle, diagonal and upper records in one chunk
    def rt(t, m, fmt, ob, cs, dk=None):
        return dict(dir=jdir(), tname=t, mname=m, bins=tables[t], pixels=stored_pixels(scope_matrices(len(tables[t]))[m].tolist(), True), symm=True,
                    fmt=fmt, one_based=ob, filled=True, chunksize=cs, dump_k=dk)
    if T:
        rt_specs += [rt(t, m, fmt, ob, cs, dk) for (t, m) in [("fixed10-short-last", "dense"), ("variable", "dense"), ("width1", "dense"), ("variable", "diagonal"),
                                                             ("one-bin-chroms", "dense"), ("fixed-3chrom", "sparse-empty-row")]
                     for fmt in ("coo", "bg2") for ob in (0, 1) for cs, dk in ((None, None), (1, None), (2, 2), (3, 1), (5, 1), (7, None), (4, 2))]
    else:
        # dump -k 1/2 interleaves the reflected (lower) records with the diagonal/upper ones row by row, so that load chunks mix them
        rt_specs += [rt("fixed10-short-last", "dense", "coo", 0, cs, dk) for cs, dk in ((None, None), (2, 1), (4, 2), (7, 1))]
        rt_specs += [rt("fixed10-short-last", "dense", "bg2", 0, 5, 1), rt("variable", "dense", "bg2", 1, 8, 2), rt("width1", "dense", "coo", 1, 6, 1)]
    run_jobs(B, R, roundtrip_job, rt_specs, T)

    # ------------------------------------------------------------ cload pairs
    pair_specs = []
    ptabs = ["fixed10-short-last", "variable", "width1"] + (["one-bin-chroms", "fixed-3chrom"] if T else [])
    for ti, t in enumerate(ptabs):
        rows = tables[t]
        pairs = make_pairs(rows, B.rng if T else None, 12 if T else 0)
        for s in (True, False):
            for zb in (False, True):
                lays = [(l, 4, False) for l in placements(PAIR_FIELDS, 4)]           # every permutation of the 4 positional columns
                p5 = placements(PAIR_FIELDS + ["val"], 5)
                if T:
                    lays += [(l, 5, True) for l in p5]                               # ... and of 5 columns with a value field
                elif ti == 0 and s and not zb:
                    lays += [(l, 5, True) for l in p5[::5]]                          # quick: every fifth one of the 120
                elif ti == 0:
                    if s == zb:          # quick: all 24 permutations in two of the four modes, a fixed selection of 8 in the other two
                        lays = pick(lays, 8)
                    lays += [(l, 5, True) for l in pick(p5, 3)]
                if T and ti == 0 and s:
                    lays += [(l, 6, True) for l in B.rng.sample(placements(PAIR_FIELDS + ["val"], 6), 150)]
                if ti > 0 and not T:
                    lays = lays[:1] + pick(lays, 2)
                for k, (lay, nc, wv) in enumerate(lays):
                    pair_specs.append(dict(dir=jdir(), tname=t, bins=rows, pairs=pairs, symm=s, zero_based=zb, layout=lay, ncols=nc, with_value=wv,
                                           header=(k % 2 == 1), libref=(k < 2 or (wv and k % 40 == 0))))
                if (ti == 0 and s != zb) or T:
                    for cs in (1, 4, len(pairs) + 1):
                        for lay, nc, wv in ((lays[0][0], 4, False), (dict(zip(PAIR_FIELDS + ["val"], (0, 2, 3, 4, 5))), 6, True)):
                            pair_specs.append(dict(dir=jdir(), tname=t, bins=rows, pairs=pairs, symm=s, zero_based=zb, layout=lay, ncols=nc, with_value=wv,
                                                   chunksize=cs, header=False, **({"mergebuf": 1000} if cs == 4 else {})))
                else:
                    pair_specs.append(dict(dir=jdir(), tname=t, bins=rows, pairs=pairs, symm=s, zero_based=zb, layout=lays[0][0], ncols=4, with_value=False,
                                           chunksize=1, header=False))
        # a non-integer value column (x.5) summed into `count` (--field count=N:dtype=float) and more chunks than --max-merge:
        # the result must be the in-memory aggregate, whatever the chunk size and --max-merge
        lay5 = dict(zip(PAIR_FIELDS + ["val"], range(5)))
        if ti < 2 or T:
            for s in ((True, False) if ti == 0 or T else (True,)):
                combos = [(1, 2, True), (2, 3, True), (4, None, True), (len(pairs) + 1, None, True), (1, 3, True), (1, 2, False), (2, 2, False)]
                quick = [(2, 2, True), (2, 3, True), (4, None, True), (len(pairs) + 1, None, True), (1, 2, True), (2, 2, False)] if s and ti == 0 else \
                        [(2, 2, True), (3, 2, True)] if s else [(2, 3, True), (3, 2, True)]
                for k, (cs, mm, fc) in enumerate(combos if T else quick):
                    pair_specs.append(dict(dir=jdir(), tname=t, bins=rows, pairs=pairs, symm=s, zero_based=False, layout=lay5, ncols=5, with_value=True,
                                           chunksize=cs, max_merge=mm, float_count=fc, header=False, libref=(k == 0)))
    # default --max-merge (200) exceeded: 210 lines, one line per chunk
    rows = tables["fixed10-short-last"]
    cl = [("chr1", 25), ("chr2", 17)]
    many = [(cl[k % 2][0], (k * 7) % cl[k % 2][1], cl[(k // 2) % 2][0], (k * 3 + 1) % cl[(k // 2) % 2][1], k % 9) for k in range(210)]
    for s, fc in (((True, True), (False, True), (True, False)) if T else ()):              # ~8 s each: thorough tier only
        pair_specs.append(dict(dir=jdir(), tname="fixed10-short-last", bins=rows, pairs=many, symm=s, zero_based=False, layout=lay5, ncols=5, with_value=True,
                               chunksize=1, float_count=fc, header=False, libref=True))
    run_jobs(B, R, pairs_job, pair_specs, T)

    # ------------------------------------------------------------ field params, zoomify specs
    field_param_checks(R)
    zspecs = ["N", "B", "4DN", "2000N", "2000B", "5000", "n", "2000,5000N", " 2000b , 5000 ", None]
    if T:
        zspecs += ["b", "4dn", "2000n", "2000b", "5000,2000B", " 2000N , 5000 ", "1000N", "1000B", "3000B", "3000N", "4000,8000", "2000,4000b", "5000n,2000", "10000N", "16000B", "4DN,4000"]
    zcoolers = [(1000, {"c1": 3_000_000, "c2": 2_120_000}, zspecs),                      # L % 256 == 0, stop 20000
                # genome lengths with L % 256 != 0 whose ceil(L/256) is itself a member of a progression (top level inclusive)
                # (L/256 just above an integer: floor and round both miss the top level; just below: floor misses it)
                (10, {"c1": 12000, "c2": 8240}, ["B", "b", None, "20B", "40b", "N", "20N"]),   # L = 20240 -> 79.06 -> stop 80 = 10*2^3 = 20*2^2 = 40*2
                (10, {"c1": 15000, "c2": 10350}, ["N", "n", "20N", "50n", "B", "20B"]),        # L = 25350 -> 99.02 -> stop 100 = 10*10 = 20*5 = 50*2
                (10, {"c1": 5110}, ["N", "B"]),                                                # L = 5110  -> 19.96 -> stop 20 = 10*2
                (10, {"c1": 12000, "c2": 8470}, ["B", "20b"])]                                 # L = 20470 -> 79.96 -> stop 80
    if T:
        zcoolers += [(1, {"c1": 1000, "c2": 1045}, ["B", "N", "2B", "4N"]),                    # L = 2045 -> stop 8 (binary) ...
                     (5, {"c1": 6400, "c2": 6395}, ["B", "N", "10N", "25B"]),                  # L = 12795 -> stop 50 = 5*10 = 10*5 = 25*2
                     (100, {"c1": 204700}, ["B", "200B", "N"])]                                # L = 204700 -> stop 800 = 100*2^3
    zoomify_checks(B, R, zcoolers)

    nd = sum(len(s["runs"]) + len(s["chunked"]) for s in dump_specs)
    B.bound = (f"dump: coolers drawn from {'8' if T else '5 small'} bin-table shapes x 5 matrices x symmetric/square: {len(full)} coolers x all 128 subsets of the 7 options" + ("" if T else " and 1 square cooler x the subsets of size <=2 and the full set") + " x "
               f"{'8' if T else '6'} region choices (none, -r, -r + -r2 above / below / staggered across the diagonal both ways{', 2 seeded random' if T else ''}); {len(red)} more coolers x the "
               f"subsets of size <=2 and the full set{'' if T else ' x 4 region choices'}; -k in {{1,2,3}} on 3 subsets; on {'all' if T else '4'} coolers "
               f"{{join, balanced, annotate, all three}} x with/without --fill-lower x 4 region boxes x -k in {{1,2}}; {nd} distinct command lines" + (f"; + {n_random} random matrices x 24 random subsets" if T else "") + ". "
               f"load: COO every permutation of 3 fields in 3 columns, {'every placement in 4 and 5' if T else 'every second placement in 4'} columns and {'all' if T else 'every third'} of 4 fields (with a supplementary value field) in 4{' and 5' if T else ''} columns; "
               f"BG2 value fields (count, val) at {'every position' if T else 'positions 7..9'} behind the positional columns in both command-line orders, and {len(dict.fromkeys(perms))} "
               f"{'(8 fixed + seeded sample)' if T else '(fixed selection)'} permutations of all 7 columns given by --field; x zero/one-based x symmetric/square on "
               f"{len(lt)} bin tables (all layouts on the first, a {'seeded sample' if T else 'fixed selection'} on the others); chunk sizes {{1,2,3,n+1}} on permuted input; "
               f"non-integer counts (x.5; --count-as-float / --field count=N:dtype=float) with {'chunksize in {1,2,3}' if T else '4..8 chunks'} x --max-merge in {{2,3}} (more chunks than "
               f"max-merge: two merge passes) against single-chunk / single-pass baselines" + (", and 231 one-record chunks under the default --max-merge" if T else "") + "; "
               f"real dump->load round trips COO/BG2 x zero/one-based x symmetric/square, and `dump --fill-lower` -> `load --input-copy-status duplex` of symmetric "
               f"coolers with diagonal pixels for load chunk sizes {'{all,1,2,3,5,7}' if T else '{all,2,4,5,6,7,8}'} x dump -k. "
               f"cload pairs: all 24 permutations of the 4 positional columns x {'zero/one-based x symmetric/square' if T else '(one-based symmetric, zero-based square; 8 in the other two modes)'}, "
               f"{'all 120' if T else 'every fifth of the 120'} permutations of 5 columns with a value field{', 150 sampled 5-of-6 placements' if T else ''}; chunk sizes {{1,4,n+1}}; "
               f"a x.5-valued column summed into count (--field count=N:dtype=float) with chunksize in {{1,2,3,4}} x --max-merge in {{2,3,default}}"
               + (", and 210 one-line chunks under the default --max-merge" if T else "") + ". "
               f"zoomify -r: {sum(len(z[2]) for z in zcoolers)} (cooler, spelling) runs on {len(zcoolers)} coolers incl. genome lengths with L % 256 != 0 whose ceil(L/256) is a progression member; preferred_sequence on 31 starts x 9 stops x 2 styles; "
               f"parse_field_param: 5 names x 11 number texts x 9 property strings")
    B.rule = ("case = (cooler, command line); one evaluation per contract (column group / row set / order / API agreement) per CLI run; "
              "non-trivial when the expected output has at least one row; distinct by (contract, case)")
    B.exhaustive = not T   # thorough adds seeded sampling (random matrices, regions, option subsets, placements)
    return R.finish()


if __name__ == "__main__":
    sys.exit(main())
