"""C09 bounded stand-in: the real zoomify code (get_multiplier_sequence, zoomify_cooler, is_multires_file,
list_coolers, `cooler zoomify`) against a plain-python model.

Model (derived from the property statement, independent of the library):
  * the output file holds exactly the groups /resolutions/<r> for r in bases U targets, each once, nothing else;
  * the level of a base resolution is a copy of its source (chroms, bins incl. extra columns, pixel index columns and
    the requested value columns, indexes, attributes);
  * the level of a derived resolution r is the exact block aggregation (see C08) of a base b | r by r/b, whatever the
    order of the target list, the other members of the set, the chunk size or the number of workers;
  * a target that is not an integer multiple of an available base is refused with ValueError;
  * the file is recognised as multi-resolution (root attributes, is_multires_file, list_coolers).
The resolution of a base is its true common bin width; a variable-width base counts as resolution 1 (library convention,
needed to name the levels at all).
"""
import sys, os, signal, itertools, atexit, shutil
sys.path.insert(0, os.path.dirname(os.path.dirname(os.path.abspath(__file__))))
import numpy as np
import h5py
import cooler
from cooler._reduce import get_multiplier_sequence
from cooler.fileops import is_multires_file, list_coolers
from cooler.util import parse_cooler_uri
from bounded.common import *


# ---------------------------------------------------------------- scope helpers / model (same model as in C08.py)
def t_fixed(sizes, b):
    return {c: list(range(0, ln, b)) + [ln] for c, ln in sizes.items()}


def bins_of(spec):
    rows = [(c, s, e) for c, ed in spec.items() for s, e in zip(ed[:-1], ed[1:])]
    return pd.DataFrame(rows, columns=["chrom", "start", "end"])


def true_resolution(spec):
    """common bin width if the table is truly fixed-width (every non-last bin == w, every last bin <= w), else 1"""
    ws = {e - s for ed in spec.values() for s, e in zip(ed[:-2], ed[1:-1])}
    if len(ws) != 1:
        return 1
    w = next(iter(ws))
    return w if all(ed[-1] - ed[-2] <= w for ed in spec.values()) else 1


def model_bins(spec, f):
    cmap, cb = [], []
    for c, ed in spec.items():
        n = len(ed) - 1
        for g in range(0, n, f):
            hi = min(g + f, n)
            cb.append((c, ed[g], ed[hi]))
            cmap.extend([len(cb) - 1] * (hi - g))
    return cmap, cb


def _py(x):
    return x.item() if hasattr(x, "item") else x


def model_pixels(pix, cmap, cols=("count",)):
    groups = {}
    for rec in pix[["bin1_id", "bin2_id"] + list(cols)].itertuples(index=False):
        k = (cmap[rec[0]], cmap[rec[1]])
        groups[k] = [a + _py(b) for a, b in zip(groups.get(k, [0] * len(cols)), rec[2:])]
    return [[k[0], k[1]] + groups[k] for k in sorted(groups)]


def read_cool(uri, cols=("count",)):
    path, grp = parse_cooler_uri(uri)
    with h5py.File(path, "r") as h:
        g = h[grp]
        names = [x.decode() if isinstance(x, bytes) else str(x) for x in g["chroms/name"][:]]
        out = dict(
            chroms=list(zip(names, g["chroms/length"][:].tolist())),
            bins=list(zip([names[i] for i in g["bins/chrom"][:]], g["bins/start"][:].tolist(), g["bins/end"][:].tolist())),
            bin_columns=sorted(g["bins"].keys()), pixel_columns=sorted(g["pixels"].keys()),
            bins_extra={c: g["bins/" + c][:].tolist() for c in g["bins"].keys() if c not in ("chrom", "start", "end")},
            indexes={k: g["indexes/" + k][:].tolist() for k in g["indexes"].keys()} if "indexes" in g else None,
            attrs={k: _py(v) for k, v in g.attrs.items()})
        have = [c for c in cols if c in g["pixels"]]
        n = max(len(g["pixels/" + c]) for c in ["bin1_id", "bin2_id"] + have)
        arr = {c: g["pixels/" + c][:] for c in ["bin1_id", "bin2_id"] + have}
        out["pixels"] = [[_py(arr[c][i]) if i < len(arr[c]) else None for c in ["bin1_id", "bin2_id"] + have] for i in range(n)]
        out["value_columns"] = have
        out["value_dtypes"] = {c: g["pixels/" + c].dtype for c in have}
    return out


def rows_close(a, b):
    if len(a) != len(b):
        return False
    for ra, rb in zip(a, b):
        if len(ra) != len(rb):
            return False
        for x, y in zip(ra, rb):
            if x is None or y is None:
                return False
            if isinstance(y, int):  # integer expectations are exact, whatever type the stored value has
                if x != y:
                    return False
            elif abs(x - y) > 1e-9 * max(1.0, abs(y)):
                return False
    return True


class Timeout(Exception):
    pass


def _alarm(signum, frame):
    raise Timeout("no result within the time limit (worker pool / lock never returned)")


_TIMEOUTS = [0]


def with_timeout(fn, seconds=60):
    """a call that never returns (e.g. a lock that is not released) becomes an exception; after two such calls the
    remaining guarded calls fail at once instead of waiting again (the library's global lock stays held)"""
    if _TIMEOUTS[0] >= 2:
        raise Timeout("not run: two earlier calls already hit the time limit")
    old = signal.signal(signal.SIGALRM, _alarm)
    signal.setitimer(signal.ITIMER_REAL, seconds)
    try:
        return fn()
    except Timeout:
        _TIMEOUTS[0] += 1
        raise
    finally:
        signal.setitimer(signal.ITIMER_REAL, 0)
        signal.signal(signal.SIGALRM, old)


class _NoResult:
    """stands in for a click result when the invocation did not return in time"""
    exit_code = None
    output = ""

    def __init__(self, e):
        self.exception = e


def invoke(runner, cli, args):
    try:
        res = with_timeout(lambda: runner.invoke(cli, args))
    except Timeout as e:
        return _NoResult(e)
    if isinstance(res.exception, Timeout):  # click caught it
        _TIMEOUTS[0] += 1
    return res


class PerSignature(Bounded):
    """records at most `per_sig` violations per signature, so that one known failure class cannot
    use up the violation list and hide another one (all failures are still counted as evaluations)"""
    per_sig = 2

    def fail(self, contract, case, observed, expected, signature=None):
        sig = signature or contract
        seen = self.__dict__.setdefault("sig_seen", {})
        seen[sig] = seen.get(sig, 0) + 1
        if seen[sig] > self.per_sig:
            self.evaluations += 1
            self.contracts[contract] = self.contracts.get(contract, 0) + 1
            return
        super().fail(contract, case, observed, expected, signature)


class Base:
    """a base cooler of the scope + what the model needs"""
    _n = 0

    def __init__(self, B, name, spec, mname, pix, symm=True, group="/", weight=False, scale=1):
        Base._n += 1
        self.name, self.spec, self.mname, self.symm = name, spec, mname, symm
        self.pix = pix.copy()
        if scale != 1:
            self.pix["count"] = (self.pix["count"] * scale).astype(pix["count"].dtype)
        self.bins = bins_of(spec)
        if weight:
            self.bins["weight"] = [0.5 + 0.25 * i for i in range(len(self.bins))]
        self.res = true_resolution(spec)
        self.nnz = len(self.pix)
        self.total = sum(_py(v) for v in self.pix["count"])
        self.count_dtype = self.pix["count"].dtype
        path = B.path(f"base{Base._n}-{name}-{mname}.cool")
        self.uri = path if group == "/" else path + "::" + group
        cols = [c for c in self.pix.columns if c not in ("bin1_id", "bin2_id")]
        kw = dict(dtypes={c: self.pix[c].dtype for c in cols})
        if cols != ["count"]:
            kw["columns"] = cols
        # a distinctive metadata document / assembly name: a level that is re-derived instead of copied loses them
        cooler.create_cooler(self.uri, self.bins, self.pix, symmetric_upper=symm, ordered=True,
                             metadata={"source": f"{name}/{mname}/{Base._n}"}, assembly=f"asm{Base._n}", **kw)
        self._model = {}
        self._direct = {}
        self.B = B

    def describe(self):
        return dict(table=self.name, bins=self.spec, matrix=self.mname, symmetric_upper=self.symm, resolution=self.res,
                    pixels=[[_py(x) for x in r] for r in self.pix.itertuples(index=False)])

    def model(self, f, cols=("count",)):
        key = (f, tuple(cols))
        if key not in self._model:
            if f == 1:
                cmap, cb = list(range(len(self.bins))), [tuple(r) for r in self.bins[["chrom", "start", "end"]].itertuples(index=False)]
            else:
                cmap, cb = model_bins(self.spec, f)
            self._model[key] = (cb, model_pixels(self.pix, cmap, cols))
        return self._model[key]

    def direct(self, f):
        """the library's own direct coarsening of this base by f (cached)"""
        if f not in self._direct:
            out = self.B.path(f"direct-{id(self)}-{f}.cool")
            cooler.coarsen_cooler(self.uri, out, f, chunksize=10 ** 6)
            self._direct[f] = read_cool(out)
            os.remove(out)
        return self._direct[f]


def make_derived_base(B, base, f, scale=1):
    """an independent second base at resolution base.res*f whose content is the MODEL coarsening of `base` (x scale)"""
    cb, rows = base.model(f)
    spec = {}
    for c, s, e in cb:
        spec.setdefault(c, [s])
        spec[c].append(e)
    pix = pd.DataFrame(rows, columns=["bin1_id", "bin2_id", "count"]).astype(
        {"bin1_id": np.int64, "bin2_id": np.int64, "count": np.int32})
    return Base(B, f"{base.name}-x{f}" + (f"-scaled{scale}" if scale != 1 else ""), spec, base.mname, pix, base.symm, scale=scale)


_CLI = {}


def cli_ls(path):
    """`cooler ls FILE` in-process -> (exit code, listed URIs with the file path replaced by FILE)"""
    if not _CLI:
        from click.testing import CliRunner
        from cooler.cli import cli
        _CLI.update(runner=CliRunner(), cli=cli)
    res = invoke(_CLI["runner"], _CLI["cli"], ["ls", path])
    return res.exit_code, [ln.replace(path, "FILE") for ln in (res.output or "").split()]


def check_zoom(B, bases, targets, out, case, kind, cols=("count",), nontrivial=True):
    """all file-level contracts on a zoomified file"""
    base_by_res = {b.res: b for b in bases}
    expected_levels = sorted(set(base_by_res) | set(int(t) for t in targets))
    exp_paths = [f"/resolutions/{r}" for r in expected_levels]

    def listing():
        with h5py.File(out, "r") as h:
            root = sorted(h.keys())
            grp = sorted(h["resolutions"].keys(), key=int) if "resolutions" in h else None
            attrs = {k: _py(v) for k, v in h.attrs.items()}
        return root, grp, list_coolers(out), attrs
    r = B.guarded("levels==bases-U-targets-exactly-once", case, listing,
                  signature=f"levels==bases-U-targets-exactly-once:exception:{kind}")
    if r is None:
        return
    root, grp, listed, attrs = r
    ok = root == ["resolutions"] and grp == [str(x) for x in expected_levels] and listed == exp_paths
    B.check("levels==bases-U-targets-exactly-once", ok, case, dict(root=root, groups=grp, list_coolers=listed),
            dict(root=["resolutions"], list_coolers=exp_paths), nontrivial,
            signature=f"levels==bases-U-targets-exactly-once:{kind}")
    ls = B.guarded("cli-ls==levels", case, lambda: cli_ls(out), signature=f"cli-ls==levels:exception:{kind}")
    if ls is not None:
        want = ["FILE::" + p_ for p_ in exp_paths]
        B.check("cli-ls==levels", ls[0] == 0 and ls[1] == want, case, dict(exit_code=ls[0], listed=ls[1]), want, nontrivial,
                signature=f"cli-ls==levels:{kind}")
    mr = B.guarded("recognised-as-multires", case, lambda: (is_multires_file(out), is_multires_file(out, min_version=2)),
                   signature=f"recognised-as-multires:exception:{kind}")
    if mr is not None:
        B.check("recognised-as-multires", mr == (True, True) and attrs.get("format") == "HDF5::MCOOL"
                and isinstance(attrs.get("format-version"), int) and attrs.get("format-version") >= 2,
                case, dict(is_multires_file=mr, root_attrs=attrs), "True; format=HDF5::MCOOL, format-version>=2", nontrivial,
                signature=f"recognised-as-multires:{kind}")
    for res in expected_levels:
        if grp is None or str(res) not in grp:
            continue  # already reported by the level-set contract
        lcase = dict(case, level=res)
        got = B.guarded("level-readable", lcase, lambda: read_cool(f"{out}::/resolutions/{res}", cols),
                        signature=f"level-readable:{kind}")
        if got is None:
            continue
        if res in base_by_res:
            b = base_by_res[res]
            src = read_cool(b.uri, cols)
            # the time stamp is the one attribute a faithful copy may renew; everything else must be the source's
            for d_ in (got, src):
                d_["attrs"].pop("creation-date", None)
            same = all(got[k] == src[k] for k in ("chroms", "bins", "bins_extra", "pixels", "indexes", "attrs"))
            B.check("base-level==copy-of-its-source", same, lcase,
                    {k: got[k] for k in ("bins", "pixels", "attrs", "bins_extra", "indexes")},
                    {k: src[k] for k in ("bins", "pixels", "attrs", "bins_extra", "indexes")}, nontrivial and b.nnz > 0,
                    signature=f"base-level==copy-of-its-source:{kind}")
        else:
            cands = [b for b in bases if res % b.res == 0]
            # the level must equal the block aggregation of A base that divides it (all such bases agree when the
            # supplied bases are consistent with each other)
            good = False
            for b in cands:
                cb, rows = b.model(res // b.res, [c for c in cols if c in got["value_columns"]])
                if got["bins"] == cb and rows_close(got["pixels"], rows):
                    good = True
            cb, rows = cands[0].model(res // cands[0].res, [c for c in cols if c in got["value_columns"]])
            B.check("derived-level==block-aggregate-of-base", good, lcase, dict(bins=got["bins"], pixels=got["pixels"]),
                    dict(bins=cb, pixels=rows), nontrivial and cands[0].nnz > 0,
                    signature=f"derived-level==block-aggregate-of-base:{kind}")
            if "count" in got["value_columns"]:
                # totals are preserved by exact block sums: the level's `sum` is the base's total
                sa = got["attrs"].get("sum")
                B.check("derived-level-sum-preserved", sa is not None and any(rows_close([[sa]], [[b.total]]) for b in cands), lcase,
                        sa, cands[0].total, nontrivial and cands[0].nnz > 0, signature=f"derived-level-sum-preserved:{kind}")
                # ... and they need a value type that can hold them: the base's kind of number, at least as wide
                dt = got["value_dtypes"]["count"]
                B.check("derived-level-value-type-holds-sums",
                        any(dt.kind == b.count_dtype.kind and dt.itemsize >= b.count_dtype.itemsize for b in cands), lcase, str(dt),
                        f"{cands[0].count_dtype} or wider", nontrivial, signature=f"derived-level-value-type-holds-sums:{kind}")
            if list(cols) != ["count"]:
                B.check("derived-level-has-requested-columns", got["value_columns"] == list(cols), lcase, got["pixel_columns"],
                        ["bin1_id", "bin2_id"] + list(cols), signature=f"derived-level-has-requested-columns:{kind}")
            else:
                ds = B.guarded("derived-level==coarsen_cooler-of-base", lcase, lambda: [b.direct(res // b.res) for b in cands],
                               signature=f"derived-level==coarsen_cooler-of-base:exception:{kind}")
                if ds is not None:
                    d = ds[0]
                    B.check("derived-level==coarsen_cooler-of-base",
                            any(got["bins"] == d_["bins"] and got["pixels"] == d_["pixels"] and got["indexes"] == d_["indexes"] for d_ in ds),
                            lcase, dict(bins=got["bins"], pixels=got["pixels"], indexes=got["indexes"]),
                            dict(bins=d["bins"], pixels=d["pixels"], indexes=d["indexes"]), nontrivial and cands[0].nnz > 0,
                            signature=f"derived-level==coarsen_cooler-of-base:{kind}")


def run_zoom(B, bases, targets, cs, nproc, tag, kind=None, cols=None, uris=None, nontrivial=True, extra_case=None, zkw=None):
    kind = kind or ("single-base" if len(bases) == 1 else "multi-base")
    if len(bases) == 1 and bases[0].nnz == 0:
        kind = "empty-cooler"
    out = B.path(f"zoom-{tag}.mcool")
    case = dict(bases=[b.describe() for b in bases], targets=[int(t) for t in targets], chunksize=cs, nproc=nproc)
    if cols:
        case["columns"] = list(cols)
    if extra_case:
        case.update(extra_case)
    uris = uris if uris is not None else [b.uri for b in bases]
    kw = dict(columns=list(cols)) if cols else {}
    for k, v in (zkw or {}).items():
        kw[k] = dict(v) if isinstance(v, dict) else v  # a fresh dict per call: the library fills it in
    r = B.guarded("zoomify_cooler-runs", case,
                  lambda: with_timeout(lambda: (cooler.zoomify_cooler(uris, out, list(targets), cs, nproc=nproc, **kw), True)[1]),
                  signature=f"zoomify_cooler-runs:{kind}")
    if r:
        B.ok("zoomify_cooler-runs", case, nontrivial)
        check_zoom(B, bases, targets, out, case, kind, cols or ("count",), nontrivial)
    if os.path.exists(out):
        os.remove(out)


def order_of(ts, how, rng):
    ts = sorted(ts)
    if how == "sorted":
        return ts
    if how == "reversed":
        return ts[::-1]
    ts = list(ts)
    rng.shuffle(ts)
    return ts


def multiplier_contract(B, targets, bases, label):
    """get_multiplier_sequence against the statement: which sets are refused, and what an accepted plan looks like"""
    bset = set(bases) if bases is not None else {min(targets)}
    case = dict(resolutions=list(targets), bases=sorted(bases) if bases is not None else None)
    derivable = all(any(t % b == 0 for b in bset) for t in targets)
    try:
        resn, pred, mult = get_multiplier_sequence(list(targets), None if bases is None else list(bases))
        raised = None
    except ValueError as e:
        raised = e
    except Exception as e:  # any other exception type is a failure either way
        B.fail("multiplier-plan", case, f"{type(e).__name__}: {e}", "plan or ValueError", "multiplier-plan:exception:" + label)
        return
    nt = len(set(targets) | bset) > 1
    if not derivable:
        B.check("non-derivable-resolution-refused", raised is not None, case, "accepted" if raised is None else "ValueError",
                "ValueError", nt, signature="non-derivable-resolution-refused:plan:" + label)
        return
    if raised is not None:
        B.fail("multiplier-plan", case, f"ValueError: {raised}", "a plan (every target is a multiple of a base)",
               "multiplier-plan:derivable-set-refused:" + label)
        return
    resn, pred, mult = [int(x) for x in resn], [int(x) for x in pred], [int(x) for x in mult]
    ok = resn == sorted(bset | set(targets)) and len(pred) == len(resn) == len(mult)
    if ok:
        for i, r in enumerate(resn):
            if pred[i] == -1:
                ok &= r in bset
            else:
                ok &= 0 <= pred[i] < i and mult[i] >= 2 and resn[pred[i]] * mult[i] == r
    B.check("multiplier-plan", ok, case, dict(resn=resn, pred=pred, mult=mult),
            "resn=sorted(bases U targets); pred=-1 only for bases; else pred<i, mult>=2, resn[pred]*mult=resn", nt,
            signature="multiplier-plan:" + label)
    if ok and len(bset) > 1:
        # "every base level is a faithful copy of its source": a base must be copied (pred -1), never re-derived
        B.check("multiplier-plan.base-is-copied-not-rederived", all(pred[i] == -1 for i, r in enumerate(resn) if r in bset), case,
                dict(resn=resn, pred=pred), "pred == -1 for every base", True,
                signature="multiplier-plan.base-is-copied-not-rederived:several-bases")


def main():
    B = PerSignature("C09", "bounded/C09.py")
    B.max_violations = 40
    atexit.register(shutil.rmtree, B.tmp, ignore_errors=True)  # nothing stays under /tmp even if the runner itself crashes
    T = B.thorough
    rng = B.rng
    MULT = [1, 2, 3, 4, 6, 8, 12]
    B.bound = ("plan level: get_multiplier_sequence on ALL subsets of {1,2,3,4,5,6,8,9,12} x (bases = every non-empty subset of {1,2,3,4} or None) "
               "and all orders of subsets of size<=3; file level: base coolers {fixed 15/7/5 bins, variable, one-bin chromosomes, with weight column, "
               "nested group, empty, square} x target sets = "
               + ("ALL subsets of {1,2,3,4,6,8,12}*base in sorted/reversed/shuffled order on 2 fixed bases and (2 orders) a variable base, all orders of all subsets of size<=3 of {1,2,3,4,6,12}*base, "
                  if T else
                  "all subsets of size<=2 of {1,2,3,4,6,8,12}*base + 15 seeded subsets of size 3 + the full set + 6 seeded larger subsets on a fixed base (orders rotate sorted/reversed/shuffled), all subsets of size<=2 on a variable base, all orders of {2,3,6} and {1,2,4}, ")
               + "chunksize in {2,7,10^6} rotating, nproc in {1,2}; 1-2 base URIs (consistent and inconsistent second base, either order); "
               "non-multiples / below-base targets; extra value column; float64-fractional and int64-beyond-2^31 counts x 8 ways of leaving the dtype unspecified (API: omitted/None/{}/other-column-only/agg-only; CLI: no --field/--field count/--field count:agg=sum) with levels derived from derived levels; histories on the output path (sample A with T1, then a different sample B with T2 into the SAME file: overlapping/disjoint/same/subset/empty T2 x same bins/other bins/other resolution/same sample x API/CLI order); `cooler ls` on every file; `cooler zoomify` CLI in-process"
               + ("; plus seeded random bases/target sets/orders/chunksizes" if T else ""))
    B.rule = ("case = (base cooler(s) with pixel lists, target list in the given order, chunksize, nproc[, level]); non-trivial when the "
              "base has pixels and the level set has more than one member; distinct by case")
    B.exhaustive = not T

    # ---------------------------------------------------------------- 1. the plan: get_multiplier_sequence
    U = [1, 2, 3, 4, 5, 6, 8, 9, 12]
    base_sets = [None] + [list(c) for k in range(1, 5) for c in itertools.combinations([1, 2, 3, 4], k)]
    for k in range(0, len(U) + 1):
        for ts in itertools.combinations(U, k):
            for bs in base_sets:
                if bs is None and not ts:
                    continue
                label = "no-bases-given" if bs is None else ("one-base" if len(bs) == 1 else "several-bases")
                multiplier_contract(B, list(ts), bs, label)
                if 2 <= k <= 3 and bs is not None and len(bs) <= 2:
                    for perm in itertools.permutations(ts):
                        if list(perm) != list(ts):
                            multiplier_contract(B, list(perm), bs[::-1], label)

    # ---------------------------------------------------------------- 2. base coolers
    big = t_fixed({"chr1": 95, "chr2": 42}, 10)          # 10 + 5 bins, short last bins
    mid = t_fixed({"chr1": 31, "chr2": 9, "chr3": 20}, 10)  # 4 + 1 + 2 bins
    small = t_fixed({"chr1": 25, "chr2": 17}, 10)
    exact7 = t_fixed({"a": 84, "b": 28}, 7)
    var = {"chr1": [0, 3, 10, 12, 30, 31, 40, 47], "chr2": [0, 8, 9]}
    onebin = {"a": [0, 7], "b": [0, 7], "c": [0, 5]}

    def mat(spec, which, symm=True):
        n = sum(len(e) - 1 for e in spec.values())
        return pixels_from_dense(dict(matrices(n, rng, 5))[which], symm)

    b_big = Base(B, "fixed10-10+5bins", big, "dense", mat(big, "dense"))
    b_var = Base(B, "variable-7+2bins", var, "dense", mat(var, "dense"))
    b_mid = Base(B, "fixed10-3chrom", mid, "sparse-empty-row", mat(mid, "sparse-empty-row"), weight=True)
    b_small_sq = Base(B, "fixed10-short-last", small, "dense", mat(small, "dense", False), symm=False)
    b_one = Base(B, "one-bin-chroms", onebin, "dense", mat(onebin, "dense"))
    b_nested = Base(B, "fixed7-exact", exact7, "diagonal", mat(exact7, "diagonal"), group="/a/b")
    b_empty = Base(B, "fixed10-3chrom", mid, "empty", mat(mid, "empty"))
    b_e7 = Base(B, "fixed7-exact-12+4bins", exact7, "dense", mat(exact7, "dense"))
    CS = [2, 7, 10 ** 6]
    HOW = ["sorted", "reversed", "shuffled"]
    idx = 0

    # ---------------------------------------------------------------- 3. target sets from one base
    def sweep(base, subsets, hows, nproc=1, tag=""):
        nonlocal idx
        for ts in subsets:
            for how in hows:
                idx += 1
                h = how if how != "rotate" else HOW[idx % 3]
                targets = order_of([m * base.res for m in ts], h, rng)
                run_zoom(B, [base], targets, CS[idx % 3], nproc, f"{tag}{idx}",
                         nontrivial=base.nnz > 0 and len(set(targets) | {base.res}) > 1)

    allsub = [c for k in range(0, 8) for c in itertools.combinations(MULT, k)]
    if not T:
        upto2 = [c for c in allsub if len(c) <= 2]
        three = [c for c in allsub if len(c) == 3]
        larger = [c for c in allsub if 3 < len(c) < 7]
        sweep(b_big, upto2 + rng.sample(three, 15) + [tuple(MULT)] + rng.sample(larger, 6), ["rotate"])
        sweep(b_var, [c for c in allsub if len(c) <= 2], ["rotate"])
    else:
        sweep(b_big, allsub, HOW)
        sweep(b_mid, allsub, HOW)
        sweep(b_var, allsub, ["reversed", "shuffled"])
    # all orders
    if not T:
        perm_sets = [(2, 3, 6), (1, 2, 4)]
    else:
        perm_sets = [c for k in (2, 3) for c in itertools.combinations([1, 2, 3, 4, 6, 12], k)]
    for ts in perm_sets:
        for perm in itertools.permutations(ts):
            idx += 1
            run_zoom(B, [b_mid if T else b_big], [m * 10 for m in perm], CS[idx % 3], 1, f"perm{idx}")
    # duplicates in the target list, base_uris given as a plain string
    run_zoom(B, [b_big], [20, 40, 20, 10, 40], 7, 1, "dup", extra_case=dict(note="duplicate targets"))
    run_zoom(B, [b_big], [30, 60], 7, 1, "str", uris=b_big.uri, extra_case=dict(base_uris="str"))
    # other kinds of base
    for base, sets in ((b_mid, [(2, 3, 6), (4, 8), (12, 2), ()]), (b_small_sq, [(2, 3, 6), (1, 4), (5,)]),
                       (b_one, [(2, 3), (1,)]), (b_nested, [(2, 4, 12), (3, 1)]), (b_empty, [(2, 4), (3,)])):
        sweep(base, sets, ["rotate"])
    # worker processes
    np_sets = [(2, 4, 8), (2, 3, 6), (12,), (1, 2)] if not T else [c for c in allsub if 1 <= len(c) <= 2] + [(2, 4, 8), (2, 3, 6, 12), tuple(MULT)]
    sweep(b_big, np_sets, ["rotate"], nproc=2, tag="np")
    if T:
        sweep(b_var, [(2, 3, 6), (4, 8)], ["rotate"], nproc=3, tag="np3")

    # ---------------------------------------------------------------- 4. refused targets
    for base, bad in ((b_big, [[15], [5], [20, 25], [7, 10], [20, 30, 45, 60], [1]]), (b_nested, [[10], [14, 15], [3]])):
        for targets in bad:
            for cs in (7,):
                case = dict(bases=[base.describe()], targets=targets, chunksize=cs, nproc=1)
                out = B.path("refused.mcool")
                try:
                    cooler.zoomify_cooler(base.uri, out, targets, cs)
                    B.fail("non-derivable-resolution-refused", case, "accepted", "ValueError", "non-derivable-resolution-refused:single-base")
                except ValueError:
                    B.ok("non-derivable-resolution-refused", case)
                except Exception as e:
                    B.fail("non-derivable-resolution-refused", case, f"{type(e).__name__}: {e}", "ValueError",
                           "non-derivable-resolution-refused:other-exception:single-base")
                if os.path.exists(out):
                    os.remove(out)

    # ---------------------------------------------------------------- 5. several bases
    multi = []
    for base in ([b_big, b_e7] if T else [b_big]):
        for f, tsets in ((2, [(4, 8), (2, 6), (1, 2, 12)]), (3, [(6, 12), (2, 9)]), (8, [(2, 16), (24,)])):
            second = make_derived_base(B, base, f)                    # consistent with the first base
            for ts in (tsets if T else tsets[:2]):
                multi.append(([base, second], [m * base.res for m in ts], "consistent"))
                multi.append(([second, base], [m * base.res for m in ts], "consistent"))
        for f in (2, 8):
            second = make_derived_base(B, base, f, scale=2)           # counts doubled: a re-derived level differs from its source
            multi.append(([base, second], [base.res * f * 2], "inconsistent"))
            multi.append(([second, base], [base.res * f * 3, base.res * 3], "inconsistent"))
    for bases, targets, how in multi:
        idx += 1
        run_zoom(B, bases, order_of(targets, HOW[idx % 3], rng), CS[idx % 3], 1, f"multi{idx}", extra_case=dict(second_base=how))
    # a refused target with two bases (15 is a multiple of neither 10 nor 20)
    second = make_derived_base(B, b_big, 2)
    for targets in ([30, 50], [40, 15]):
        case = dict(bases=[b_big.describe(), second.describe()], targets=targets)
        out = B.path("refused2.mcool")
        derivable = all(any(t % r == 0 for r in (10, 20)) for t in targets)
        if not derivable:
            try:
                cooler.zoomify_cooler([b_big.uri, second.uri], out, targets, 7)
                B.fail("non-derivable-resolution-refused", case, "accepted", "ValueError", "non-derivable-resolution-refused:multi-base")
            except ValueError:
                B.ok("non-derivable-resolution-refused", case)
            except Exception as e:
                B.fail("non-derivable-resolution-refused", case, f"{type(e).__name__}: {e}", "ValueError",
                       "non-derivable-resolution-refused:other-exception:multi-base")
        else:
            run_zoom(B, [b_big, second], targets, 7, 1, "multi-ok")
        if os.path.exists(out):
            os.remove(out)

    # ---------------------------------------------------------------- 6. an extra value column
    dense_mid = mat(mid, "dense")
    dense_mid["w"] = [0.25 * (i % 7) for i in range(len(dense_mid))]
    b_w = Base(B, "fixed10-3chrom", mid, "dense+w", dense_mid)
    run_zoom(B, [b_w], [20, 40], 7, 1, "w1", kind="extra-value-column", cols=["count", "w"])   # 40 is derived from a derived level
    run_zoom(B, [b_w], [30], 7, 1, "w3", kind="extra-value-column", cols=["count", "w"])       # 30 is derived from the base itself
    run_zoom(B, [b_w], [30], 2, 1, "w2", kind="single-base", cols=["count"])

    # ---------------------------------------------------------------- 6b. value type left unspecified by the caller
    # block sums must be exact at EVERY derived level (also levels derived from derived levels) when the base's count column
    # is not int32 and the caller names no dtype for it, in any of the ways the API and the CLI allow
    from click.testing import CliRunner as _CliRunner
    from cooler.cli import cli as _cli
    _runner = _CliRunner()
    vt_tabs = [("fixed10-3chrom", mid), ("variable-7+2bins", var)] + ([("fixed10-10+5bins", big), ("fixed7-exact-12+4bins", exact7)] if T else [])
    vt_n = 0
    for tname, spec in vt_tabs:
        for symm in ((True, False) if T else (True,)):
            basepix = mat(spec, "dense", symm)
            n_ = len(basepix)
            sources = {
                "float64-fractional": np.array([0.5 + 1.25 * i + (5.75 if i % 3 == 0 else 0.0) for i in range(n_)], dtype=np.float64),
                "int64-beyond-int32": np.array([1_200_000_000 + 700_000_001 * i for i in range(n_)], dtype=np.int64),
            }
            for sname, counts in sources.items():
                px = basepix[["bin1_id", "bin2_id"]].copy()
                px["count"] = counts
                px["w"] = np.array([0.25 * (i % 5) for i in range(n_)], dtype=np.float64)
                bv = Base(B, tname, spec, f"dense-{sname}+w", px, symm)
                forms = {
                    "dtypes-omitted": dict(api={}),
                    "dtypes-None": dict(api=dict(dtypes=None)),
                    "dtypes-empty-dict": dict(api=dict(dtypes={})),
                    "dtypes-other-column-only": dict(api=dict(dtypes={"w": np.float64}), cols=["count", "w"]),
                    "agg-sum-explicit": dict(api=dict(agg={"count": "sum"}, dtypes={})),
                    "cli-no-field": dict(cli=[]),
                    "cli-field-count": dict(cli=["--field", "count"]),
                    "cli-field-count-agg-sum": dict(cli=["--field", "count:agg=sum"]),
                }
                tsets = [(2, 4), (3, 6), (4, 8)] if not T else [(2, 4), (3, 6, 2), (2, 4, 8), (12, 6, 3), (4, 2, 1, 8)]
                for form, how in forms.items():
                    for rep_ in range(1):
                        vt_n += 1
                        targets = [m * bv.res for m in tsets[vt_n % len(tsets)]]   # each has a level derived from a derived level
                        cs = (2, 7, 10 ** 6)[vt_n % 3]
                        npc = 2 if vt_n % 8 == 0 else 1
                        kind = f"valuetype:{sname}:{form}"
                        if "api" in how:
                            run_zoom(B, [bv], targets, cs, npc, f"vt{vt_n}", kind=kind, cols=how.get("cols"), zkw=how["api"],
                                     extra_case=dict(form=form, call={k: (str(v) if v else v) for k, v in how["api"].items()}))
                        else:
                            out = B.path(f"vt{vt_n}.mcool")
                            args = ["zoomify", "-r", ",".join(str(t) for t in targets), "-c", str(cs), "-n", str(npc)] + how["cli"] + ["-o", out, bv.uri]
                            case = dict(bases=[bv.describe()], form=form, argv=args[:-3] + ["-o", "OUT", "BASE"])
                            res = invoke(_runner, _cli, args)
                            if B.check("cli.zoomify-exit-0", res.exit_code == 0 and res.exception is None, case, repr(res.exception), "exit 0",
                                       signature=f"cli.zoomify-exit-0:{kind}"):
                                check_zoom(B, [bv], targets, out, case, kind)
                            if os.path.exists(out):
                                os.remove(out)
                os.remove(parse_cooler_uri(bv.uri)[0])

    # ---------------------------------------------------------------- 6c. histories on the output path
    # the property speaks about "a zoomified file" as the result of ONE zoomify run: whatever the output path held before
    # (here: the result of zoomifying a DIFFERENT sample with a different target set) must leave no trace - exactly the
    # levels bases(B) U T2, every level computed from B, `cooler ls` in agreement
    from click.testing import CliRunner as _CR
    from cooler.cli import cli as _cli2
    _r2 = _CR()
    hA = Base(B, "fixed10-3chrom", mid, "dense", mat(mid, "dense"))
    hB_same_bins = Base(B, "fixed10-3chrom", mid, "corners", mat(mid, "corners"), weight=True)
    hB_other_bins = Base(B, "fixed10-short-last", small, "dense", mat(small, "dense"))
    hB_other_res = Base(B, "fixed7-exact-12+4bins", exact7, "sparse-empty-row", mat(exact7, "sparse-empty-row"))
    pairs_ = [("overlapping", (2, 4, 8), (6, 2)), ("disjoint", (2, 4), (3,)), ("same-set", (2, 4), (2, 4)),
              ("subset", (2, 4, 8), (4,)), ("only-base-left", (2,), ())]
    seconds = [("same-bins", hB_same_bins), ("other-bins", hB_other_bins), ("other-resolution", hB_other_res), ("same-sample", hA)]
    vias = [("api", "api"), ("cli", "cli"), ("api", "cli"), ("cli", "api")]
    hn = 0

    def zoom_via(via, base, targets, out, cs):
        """-> None when it ran, else a description of what went wrong"""
        if via == "api":
            try:
                with_timeout(lambda: cooler.zoomify_cooler(base.uri, out, list(targets), cs))
                return None
            except Exception as e:
                return f"{type(e).__name__}: {e}"
        if not targets:
            args = ["zoomify", "-r", str(base.res), "-c", str(cs), "-o", out, base.uri]   # the CLI cannot say "no targets": name the base
        else:
            args = ["zoomify", "-r", ",".join(str(t) for t in targets), "-c", str(cs), "-o", out, base.uri]
        res = invoke(_r2, _cli2, args)
        return None if (res.exit_code == 0 and res.exception is None) else f"exit {res.exit_code}: {res.exception!r}"

    for pi_, (pname, m1, m2) in enumerate(pairs_):
        for si_, (sname, second) in enumerate(seconds):
            for vi_, (v1, v2) in enumerate(vias):
                hn += 1
                if not T and not (vi_ == (pi_ + si_) % 4 or (pname == "overlapping" and sname == "same-bins")):
                    continue   # quick: every (target pair, second sample) once with a rotating API/CLI order, the first one with all four; thorough: all
                t1 = order_of([m * hA.res for m in m1], HOW[hn % 3], rng)
                t2 = order_of([m * second.res for m in m2], HOW[(hn + 1) % 3], rng)
                cs = CS[hn % 3]
                kind = f"history:{pname}:{sname}"
                out = B.path(f"hist{hn}.mcool")
                case = dict(first=dict(base=hA.describe(), targets=t1, via=v1), bases=[second.describe()], targets=t2, via=v2, chunksize=cs)
                err = zoom_via(v1, hA, t1, out, cs)
                if err is None:
                    err = zoom_via(v2, second, t2, out, cs)
                if B.check("zoomify-over-earlier-output-runs", err is None, case, err, "both runs succeed",
                           signature=f"zoomify-over-earlier-output-runs:{kind}"):
                    check_zoom(B, [second], t2, out, case, kind)
                if os.path.exists(out):
                    os.remove(out)

    # ---------------------------------------------------------------- 7. CLI
    from click.testing import CliRunner
    from cooler.cli import cli
    runner = CliRunner()
    second = make_derived_base(B, b_big, 2)
    cli_cases = [
        (b_big, ["-r", "20,40,120"], [20, 40, 120], []),
        (b_big, ["-r", "60,10,30", "-c", "3"], [60, 10, 30], []),
        (b_big, ["-r", "20,80", "-n", "2", "-c", "5"], [20, 80], []),
        (b_var, ["-r", "2,3,6", "-c", "4"], [2, 3, 6], []),
        (b_nested, ["-r", "14,28", "--field", "count"], [14, 28], []),
        (b_big, ["-r", "40,60", "-c", "6"], [40, 60], [second]),
    ]
    if T:
        cli_cases += [(b_mid, ["-r", ",".join(str(10 * m) for m in c), "-c", "3"], [10 * m for m in c], [])
                      for c in itertools.combinations([2, 3, 4, 6, 12], 2)]
    for n, (base, opts, targets, more) in enumerate(cli_cases):
        out = B.path(f"cli{n}.mcool")
        args = ["zoomify"] + opts + [x for b in more for x in ("-i", b.uri)] + ["-o", out, base.uri]
        kind = "cli-" + ("single-base" if not more else "multi-base")
        case = dict(bases=[b.describe() for b in [base] + more], argv=["zoomify"] + opts + ["-i BASE2"] * len(more) + ["-o", "OUT", "BASE"])
        res = invoke(runner, cli, args)
        if B.check("cli.zoomify-exit-0", res.exit_code == 0 and res.exception is None, case, repr(res.exception), "exit 0",
                   signature=f"cli.zoomify-exit-0:{kind}"):
            check_zoom(B, [base] + more, targets, out, case, kind)
        if os.path.exists(out):
            os.remove(out)
    # default output name, explicit single resolution
    import shutil as _sh
    src = B.path("named.cool")
    _sh.copy(parse_cooler_uri(b_big.uri)[0], src)
    res = invoke(runner, cli, ["zoomify", "-r", "20", src])
    case = dict(bases=[b_big.describe()], argv=["zoomify", "-r", "20", "named.cool"])
    if B.check("cli.zoomify-exit-0", res.exit_code == 0 and os.path.exists(B.path("named.mcool")), case, repr(res.exception),
               "exit 0 and named.mcool written", signature="cli.zoomify-exit-0:cli-default-output"):
        check_zoom(B, [b_big], [20], B.path("named.mcool"), case, "cli-single-base")
    # a refused resolution must not exit 0
    out = B.path("cli-bad.mcool")
    res = invoke(runner, cli, ["zoomify", "-r", "20,25", "-o", out, b_big.uri])
    B.check("non-derivable-resolution-refused", res.exit_code != 0 and isinstance(res.exception, ValueError),
            dict(bases=[b_big.describe()], argv=["zoomify", "-r", "20,25", "-o", "OUT", "BASE"]), repr(res.exception), "ValueError / non-zero exit",
            signature="non-derivable-resolution-refused:cli")

    # ---------------------------------------------------------------- 8. seeded random sampling
    if T:
        for i in range(100):
            nch = rng.randrange(1, 4)
            fixedw = rng.random() < 0.6
            w = rng.randrange(2, 9)
            spec = {}
            for c in range(nch):
                nb = rng.randrange(1, 10)
                if fixedw:
                    ln = w * (nb - 1) + rng.randrange(1, w + 1)
                    spec[f"c{c}"] = list(range(0, ln, w)) + [ln]
                else:
                    ed = [0]
                    for _ in range(nb):
                        ed.append(ed[-1] + rng.randrange(1, 12))
                    spec[f"c{c}"] = ed
            n = sum(len(e) - 1 for e in spec.values())
            symm = rng.random() < 0.7
            A = np.zeros((n, n), dtype=np.int64)
            dens = rng.choice([0.1, 0.4, 0.8])
            for a in range(n):
                for b in range(n):
                    if rng.random() < dens:
                        A[a, b] = rng.randrange(1, 3)
            base = Base(B, f"rand{i}", spec, f"rand012-{i}", pixels_from_dense(A, symm), symm)
            ts = rng.sample(range(1, 17), rng.randrange(1, 6))
            targets = [t * base.res for t in ts]
            run_zoom(B, [base], targets, rng.choice([1, 3, 10, 10 ** 6]), 2 if i % 10 == 0 else 1, f"rand{i}",
                     extra_case=dict(sample=i), nontrivial=base.nnz > 0 and len(set(targets) | {base.res}) > 1)
            os.remove(parse_cooler_uri(base.uri)[0])
    return B.finish()


if __name__ == "__main__":
    sys.exit(main())
