"""C08 bounded stand-in: the real coarsening code (CoolerCoarsener, coarsen_cooler,
`cooler coarsen`) against a plain-python block-aggregation model.

Model (derived from the property statement, independent of the library):
  * new bin g of chromosome c = union of old bins [g*k, min((g+1)*k, n_c)) of c
    -> cmap(old bin) = coarse bin; new table lists them chromosome by chromosome;
  * new pixel (g1, g2) = agg of the old pixel values with cmap(b1)=g1, cmap(b2)=g2,
    listed once each in (g1, g2) order; the total of a summed column is preserved;
  * nothing depends on chunksize (>=1) or on the number of workers;
  * a work partition (spans of old pixel rows) only cuts at old-pixel offsets where a
    coarse row starts, covers [0, nnz) once, so no coarse row is split or duplicated;
  * k1 then k2 == k1*k2; coarsen(merge(a, b)) == merge(coarsen(a), coarsen(b)).
"""
import sys, os, signal, atexit, shutil
sys.path.insert(0, os.path.dirname(os.path.dirname(os.path.abspath(__file__))))
import numpy as np
import h5py
import cooler
import cooler._reduce as R
from cooler._reduce import CoolerCoarsener
from cooler.util import parse_cooler_uri
from bounded.common import *

INT32_MAX = 2 ** 31 - 1

# ---------------------------------------------------------------- observation hook
# Records the un-pruned edge list that the REAL CoolerCoarsener.__init__ hands to the REAL
# _greedy_prune_partition, so that the real pruning function can then be evaluated for
# every chunk size 1..nnz+1 without paying the constructor (15 ms) each time.
_REC = {}
_real_prune = R._greedy_prune_partition


def _recording_prune(edges, maxlen):
    _REC["edges"] = [int(x) for x in edges]
    return _real_prune(edges, maxlen)


R._greedy_prune_partition = _recording_prune


# ---------------------------------------------------------------- scope helpers
def t_fixed(sizes, b):
    return {c: list(range(0, ln, b)) + [ln] for c, ln in sizes.items()}


def spec_of(bins):
    """bin table -> {chrom: [edge0, edge1, ...]} (tables in scope are contiguous per chromosome)"""
    spec = {}
    for c, s, e in zip(bins["chrom"], bins["start"], bins["end"]):
        spec.setdefault(c, [int(s)])
        assert spec[c][-1] == int(s)
        spec[c].append(int(e))
    return spec


def bins_of(spec):
    rows = [(c, s, e) for c, ed in spec.items() for s, e in zip(ed[:-1], ed[1:])]
    return pd.DataFrame(rows, columns=["chrom", "start", "end"])


def scope_tables(thorough):
    out = [(name, spec_of(b)) for name, b in bin_tables(small=not thorough)]
    # coarsened by 2 this is [0,20),[20,60) | [0,9): every non-last width equals 20 but a last bin is longer
    out.append(("variable-coarse-last-longer", {"chr1": [0, 10, 20, 40, 60], "chr2": [0, 8, 9]}))
    # FIRST multi-bin chromosome uniform, a LATER chromosome variable, no last bin longer than the width: neither these
    # tables nor their coarsenings by 2, 3, 4 are fixed-width (except uniform-then-variable-6bins by 2, which truly is 20)
    out.append(("uniform-then-variable-6bins", {"chr1": [0, 10, 20, 25], "chr2": [0, 7, 20, 22]}))
    out.append(("uniform-then-variable-10bins", {"chr1": [0, 10, 20, 30, 40, 45], "chr2": [0, 7, 20, 22, 31, 36]}))
    out.append(("onebin-uniform-variable", {"a": [0, 4], "b": [0, 5, 10, 15, 20], "c": [0, 5, 9, 14, 16]}))
    if not thorough:
        out.append(("fixed-3chrom", t_fixed({"chr1": 31, "chr2": 9, "chr3": 20}, 10)))
    else:
        out.append(("fixed-2chrom-10+5", t_fixed({"chr1": 95, "chr2": 42}, 10)))
        out.append(("variable-3chrom", {"x": [0, 2, 5, 6, 11, 13], "y": [0, 4], "z": [0, 1, 2, 9]}))
    return out


def is_fixed(spec):
    """truly fixed width: one width w, every non-last bin of every chromosome == w, every last bin <= w"""
    ws = {e - s for ed in spec.values() for s, e in zip(ed[:-2], ed[1:-1])}
    if len(ws) != 1:
        return False
    w = next(iter(ws))
    return all(ed[-1] - ed[-2] <= w for ed in spec.values())


UNIFORM_THEN_VARIABLE = ("uniform-then-variable-6bins", "uniform-then-variable-10bins", "onebin-uniform-variable")


def true_binsize(cb):
    """what a truthful bin-size statement about the table cb [(chrom,start,end)] is: w when every bin that is not the
    last of its chromosome has width w and every last bin is <= w; None (variable) when the non-last widths differ or
    a last bin is longer; "degenerate" when no chromosome has a non-last bin (nothing to be truthful about)"""
    per = {}
    for c, s, e in cb:
        per.setdefault(c, []).append(e - s)
    ws = {w for v in per.values() for w in v[:-1]}
    if not ws:
        return "degenerate"
    if len(ws) > 1:
        return None
    w = next(iter(ws))
    return w if all(v[-1] <= w for v in per.values()) else None


def looks_fixed_but_is_not(cb):
    """coarse table (list of (chrom,start,end)): all non-last widths equal w, yet some last bin is longer"""
    per = {}
    for c, s, e in cb:
        per.setdefault(c, []).append(e - s)
    ws = {w for v in per.values() for w in v[:-1]}
    if len(ws) != 1:
        return False
    w = next(iter(ws))
    return any(v[-1] > w for v in per.values())


# ---------------------------------------------------------------- the model
def model_bins(spec, f):
    """-> cmap (old bin -> coarse bin), coarse bins [(chrom,start,end)], firsts (old bin ids that start a coarse row)"""
    cmap, cb, firsts = [], [], []
    off = 0
    for c, ed in spec.items():
        n = len(ed) - 1
        for g in range(0, n, f):
            hi = min(g + f, n)
            cb.append((c, ed[g], ed[hi]))
            firsts.append(off + g)
            cmap.extend([len(cb) - 1] * (hi - g))
        off += n
    return cmap, cb, firsts


AGG = {"sum": sum, "max": max, "min": min, "mean": lambda v: sum(v) / len(v), "first": lambda v: v[0]}


def model_pixels(pix, cmap, aggs):
    """pix: DataFrame; aggs {col: aggname}; -> sorted [(g1, g2, {col: value})]"""
    groups = {}
    cols = list(aggs)
    for rec in pix[["bin1_id", "bin2_id"] + cols].itertuples(index=False):
        groups.setdefault((cmap[rec[0]], cmap[rec[1]]), []).append(rec[2:])
    out = []
    for key in sorted(groups):
        vals = groups[key]
        out.append((key[0], key[1], {c: AGG[aggs[c]]([_py(v[i]) for v in vals]) for i, c in enumerate(cols)}))
    return out


def _py(x):
    return x.item() if hasattr(x, "item") else x


def model_merge(pixs, cols=("count",)):
    acc = {}
    for p in pixs:
        for rec in p[["bin1_id", "bin2_id"] + list(cols)].itertuples(index=False):
            k = (int(rec[0]), int(rec[1]))
            acc[k] = [a + _py(b) for a, b in zip(acc.get(k, [0] * len(cols)), rec[2:])]
    rows = [(k[0], k[1]) + tuple(acc[k]) for k in sorted(acc)]
    return pd.DataFrame(rows, columns=["bin1_id", "bin2_id"] + list(cols)) if rows else \
        pd.DataFrame({c: np.array([], dtype=np.int64) for c in ["bin1_id", "bin2_id"] + list(cols)})


def rows_of(exp, cols):
    return [[g1, g2] + [v[c] for c in cols] for g1, g2, v in exp]


def same_value(g, e):
    if isinstance(e, int):  # integer expectations are exact, whatever type the stored value has
        return g == e
    return abs(g - e) <= 1e-9 * max(1.0, abs(e))


def pixels_equal(got, exp, cols):
    """got {col: array}; exp model list; exact order, exact multiplicity"""
    n = len(exp)
    if any(len(got[c]) != n for c in ["bin1_id", "bin2_id"] + list(cols)):
        return False
    if [int(x) for x in got["bin1_id"]] != [e[0] for e in exp] or [int(x) for x in got["bin2_id"]] != [e[1] for e in exp]:
        return False
    for c in cols:
        if not all(same_value(_py(g), e[2][c]) for g, e in zip(got[c], exp)):
            return False
    return True


def got_rows(got, cols):
    k = ["bin1_id", "bin2_id"] + list(cols)
    n = max(len(got[c]) for c in k)
    return [[_py(got[c][i]) if i < len(got[c]) else None for c in k] for i in range(n)]


# ---------------------------------------------------------------- raw readers
def read_cool(uri, cols=("count",)):
    path, grp = parse_cooler_uri(uri)
    with h5py.File(path, "r") as h:
        g = h[grp]
        names = [x.decode() if isinstance(x, bytes) else str(x) for x in g["chroms/name"][:]]
        bins = list(zip([names[i] for i in g["bins/chrom"][:]], g["bins/start"][:].tolist(), g["bins/end"][:].tolist()))
        stored = sorted(g["pixels"].keys())
        px = {c: g["pixels/" + c][:] for c in ["bin1_id", "bin2_id"] + [c for c in cols if c in stored]}
        attrs = {k: _py(v) for k, v in g.attrs.items()}
        dts = {c: g["pixels/" + c].dtype for c in stored}
    return dict(bins=bins, pixels=px, attrs=attrs, stored_columns=stored, dtypes=dts)


class Timeout(Exception):
    pass


def _alarm(signum, frame):
    raise Timeout("no result within the time limit (worker pool / lock never returned)")


_TIMEOUTS = [0]


def with_timeout(fn, seconds=30):
    """a call that never returns (e.g. a lock that is not released) becomes an exception; after two such calls the
    remaining guarded calls fail at once instead of waiting again (the library's global lock stays held)"""
    if _TIMEOUTS[0] >= 2:
        raise Timeout("not run: two earlier calls already hit the time limit")
    old = signal.signal(signal.SIGALRM, _alarm)
    signal.setitimer(signal.ITIMER_REAL, seconds)
    try:
        return fn()
    except Timeout:
        _TIMEOUTS[0] += 1
        raise
    finally:
        signal.setitimer(signal.ITIMER_REAL, 0)
        signal.signal(signal.SIGALRM, old)


class _NoResult:
    """stands in for a click result when the invocation did not return in time"""
    exit_code = None
    output = ""

    def __init__(self, e):
        self.exception = e


def invoke(runner, cli, args):
    try:
        res = with_timeout(lambda: runner.invoke(cli, args))
    except Timeout as e:
        return _NoResult(e)
    if isinstance(res.exception, Timeout):  # click caught it
        _TIMEOUTS[0] += 1
    return res


# ---------------------------------------------------------------- the runner
class PerSignature(Bounded):
    """records at most `per_sig` violations per signature, so that one known failure class cannot
    use up the violation list and hide another one (all failures are still counted as evaluations)"""
    per_sig = 2

    def fail(self, contract, case, observed, expected, signature=None):
        sig = signature or contract
        seen = self.__dict__.setdefault("sig_seen", {})
        seen[sig] = seen.get(sig, 0) + 1
        if seen[sig] > self.per_sig:
            self.evaluations += 1
            self.contracts[contract] = self.contracts.get(contract, 0) + 1
            return
        super().fail(contract, case, observed, expected, signature)


class Scope:
    """one source cooler of the scope together with everything the model needs"""

    def __init__(self, B, tname, spec, mname, pix, symm, tag=""):
        self.tname, self.spec, self.mname, self.pix, self.symm = tname, spec, mname, pix, symm
        self.bins = bins_of(spec)
        self.n = len(self.bins)
        self.nnz = len(pix)
        self.uri = make_cooler(B.path(f"src-{tname}-{mname}-{int(symm)}{tag}.cool"), self.bins,
                               pix, symm, **self.create_kw())
        b1 = pix["bin1_id"].tolist()
        self.O = [sum(1 for x in b1 if x < i) for i in range(self.n + 1)]  # independent bin1 offsets

    def create_kw(self):
        extra = [c for c in self.pix.columns if c not in ("bin1_id", "bin2_id")]
        kw = {}
        if extra != ["count"]:
            kw["columns"] = extra
        kw["dtypes"] = {c: self.pix[c].dtype for c in extra}
        return kw

    def case(self, **kw):
        d = dict(table=self.tname, bins=self.spec, matrix=self.mname, symmetric_upper=self.symm,
                 pixels=[[_py(x) for x in r] for r in self.pix.itertuples(index=False)])
        d.update(kw)
        return d

    def kind(self, f, aggs=None):
        """kind of input, for failure signatures (never the full case)"""
        cmap, cb, _ = model_bins(self.spec, f)
        if self.nnz == 0:
            return "empty-cooler"
        tags = []
        if looks_fixed_but_is_not(cb):
            tags.append("coarse-table-last-bin-longer")
        aggs = aggs or {"count": "sum"}
        for c, a in aggs.items():
            if a == "sum" and self.pix[c].dtype == np.int32 and self.nnz:
                exp = model_pixels(self.pix, cmap, {c: "sum"})
                if max(abs(e[2][c]) for e in exp) > INT32_MAX:
                    tags.append("int32-overflow")
        return "+".join(tags) or "regular"


def check_file(B, S, f, out_uri, case, prefix="", aggs=None, nontrivial=None, kind=None):
    """file-level contracts on a coarsened cooler"""
    aggs = aggs or {"count": "sum"}
    cols = list(aggs)
    kind = kind or S.kind(f, aggs)
    cmap, cb, _ = model_bins(S.spec, f)
    exp = model_pixels(S.pix, cmap, aggs)
    nt = S.nnz > 0 if nontrivial is None else nontrivial
    got = B.guarded(prefix + "output-readable", case, lambda: read_cool(out_uri, cols),
                    signature=f"{prefix}output-readable:{kind}")
    if got is None:
        return False, None
    ok1 = B.check(prefix + "bins==union-of-k-old-bins", got["bins"] == cb, case, got["bins"], cb, nt,
                  signature=f"{prefix}bins==union-of-k-old-bins:{kind}")
    if cols != ["count"]:
        # every requested value column must exist in the result ("or requested aggregate" is about those columns)
        B.check(prefix + "requested-value-columns-written", all(c in got["stored_columns"] for c in cols), case,
                got["stored_columns"], ["bin1_id", "bin2_id"] + cols, nt,
                signature=f"{prefix}requested-value-columns-written:" + ("extra-columns" if "count" in cols else "columns-without-count"))
        cols = [c for c in cols if c in got["stored_columns"]]  # the values of the columns that were written are still compared
    ok2 = B.check(prefix + "pixels==block-aggregate", pixels_equal(got["pixels"], exp, cols), case,
                  got_rows(got["pixels"], cols), rows_of(exp, cols), nt,
                  signature=f"{prefix}pixels==block-aggregate:{kind}")
    # what the result says about its own bin width must be true (the fixed-width fast paths of every reader rely on it)
    truth = true_binsize(cb)
    said = B.guarded(prefix + "binsize-truthful", case, lambda: (cooler.Cooler(out_uri).binsize,),
                     signature=f"{prefix}binsize-truthful:exception:{kind}")
    if said is not None:
        bs, btype, bsize = _py(said[0]), got["attrs"].get("bin-type"), got["attrs"].get("bin-size")
        if truth == "degenerate":
            widest = max(e - s_ for _, s_, e in cb)
            good = (bs is None and btype == "variable") or (bs is not None and bs >= widest and btype == "fixed" and bsize == bs)
        elif truth is None:
            good = bs is None and btype == "variable" and bsize in ("null", None)
        else:
            good = bs == truth and btype == "fixed" and bsize == truth
        B.check(prefix + "binsize-truthful", good, case, dict(binsize=bs, bin_type=btype, bin_size_attr=bsize),
                dict(true_binsize=truth), nt, signature=f"{prefix}binsize-truthful:{kind}")
    ok3 = True
    for c, a in aggs.items():
        if a != "sum" or c not in cols:
            continue
        tot_in = sum(_py(v) for v in S.pix[c])
        tot_out = sum(_py(v) for v in got["pixels"][c])
        cond = same_value(tot_out, tot_in)
        if c == "count":  # the stored 'sum' attribute describes the count column
            cond = cond and "sum" in got["attrs"] and same_value(got["attrs"]["sum"], tot_in)
        ok3 &= B.check(prefix + "total-preserved", cond, dict(case, column=c),
                       dict(pixel_total=tot_out, sum_attr=got["attrs"].get("sum")), tot_in, nt,
                       signature=f"{prefix}total-preserved:{kind}")
    return (ok1 and ok2 and ok3), got


def run_stream(uri, f, cs, cols, agg, batchsize=1):
    it = CoolerCoarsener(uri, f, cs, columns=cols, agg=agg, batchsize=batchsize)
    keys = ["bin1_id", "bin2_id"] + list(cols)
    chunks = list(it)
    px = {k: np.concatenate([c[k] for c in chunks]) if chunks else np.array([], dtype=np.int64) for k in keys}
    nb = it.new_bins
    nbins = list(zip([str(x) for x in nb["chrom"]], nb["start"].tolist(), nb["end"].tolist()))
    return dict(pixels=px, bins=nbins, edges=[int(x) for x in it.edges], nchunks=len(chunks))


def sweep(B, S, f, combo_idx, all_chunksizes, file_level=1):
    """partition contract for every chunksize 1..nnz+1 (+2 large ones); stream-level equality for every distinct
    partition (quick) or every chunksize (thorough); file-level for `file_level` chunksizes"""
    kind = S.kind(f)
    cmap, cb, firsts = model_bins(S.spec, f)
    exp = model_pixels(S.pix, cmap, {"count": "sum"})
    valid = {S.O[i] for i in firsts} | {S.nnz}
    case0 = S.case(factor=f)
    _REC.clear()
    probe = B.guarded("partition-respects-coarse-rows", dict(case0, chunksize=1),
                      lambda: CoolerCoarsener(S.uri, f, 1, columns=["count"], agg=None, batchsize=1),
                      signature=f"partition-respects-coarse-rows:exception:{kind}")
    if probe is None or "edges" not in _REC:
        return
    raw = list(_REC["edges"])
    reps = {}
    sizes = list(range(1, S.nnz + 2)) + [S.nnz + 7, 10 ** 7]
    for cs in sizes:
        case = dict(case0, chunksize=cs)
        P = B.guarded("partition-respects-coarse-rows", case, lambda: [int(x) for x in _real_prune(raw, cs)],
                      signature=f"partition-respects-coarse-rows:exception:{kind}")
        if P is None:
            continue
        if S.nnz == 0:
            good = all(x == 0 for x in P) and len(P) >= 1
        else:
            good = (len(P) >= 2 and P[0] == 0 and P[-1] == S.nnz and all(a <= b for a, b in zip(P[:-1], P[1:]))
                    and all(x in valid for x in P))
        B.check("partition-respects-coarse-rows", good, case, P, dict(allowed_cut_points=sorted(valid)),
                nontrivial=S.nnz > 0 and len(valid) > 2, signature=f"partition-respects-coarse-rows:{kind}")
        reps.setdefault(tuple(P), cs)
    stream_sizes = sizes[:-2] if all_chunksizes else sorted(reps.values())
    for cs in stream_sizes:
        case = dict(case0, chunksize=cs, level="stream")
        got = B.guarded("stream-pixels==block-aggregate", case, lambda: run_stream(S.uri, f, cs, ["count"], None),
                        signature=f"stream-pixels==block-aggregate:exception:{kind}")
        if got is None:
            continue
        B.check("stream-pixels==block-aggregate", pixels_equal(got["pixels"], exp, ["count"]), case,
                dict(rows=got_rows(got["pixels"], ["count"]), spans=got["edges"]), rows_of(exp, ["count"]),
                nontrivial=S.nnz > 0, signature=f"stream-pixels==block-aggregate:{kind}")
        if cs == stream_sizes[0]:
            B.check("bins==union-of-k-old-bins", got["bins"] == cb, dict(case0, level="stream"), got["bins"], cb,
                    signature=f"bins==union-of-k-old-bins:{kind}")
    rl = sorted(reps.values())
    chosen = [rl[(combo_idx + j * max(1, len(rl) // file_level)) % len(rl)] for j in range(file_level)]
    for cs in sorted(set(chosen)):
        case = dict(case0, chunksize=cs, nproc=1, level="file")
        out = B.path(f"out-{combo_idx}-{f}-{cs}.cool")
        r = B.guarded("coarsen_cooler-runs", case, lambda: (cooler.coarsen_cooler(S.uri, out, f, chunksize=cs), True)[1],
                      signature=f"coarsen_cooler-runs:{kind}")
        if r:
            B.ok("coarsen_cooler-runs", case)
            check_file(B, S, f, out, case)
        if os.path.exists(out):
            os.remove(out)


def nproc_cases(B, S, f, nprocs, chunksizes, same_file):
    kind = S.kind(f)
    for npc in nprocs:
        for cs in chunksizes:
            case = S.case(factor=f, chunksize=cs, nproc=npc, same_file=same_file)
            if same_file:
                # output group inside the source file: reads and writes are serialised by the library's lock
                path = B.path(f"same-{S.tname}-{S.mname}-{f}-{cs}-{npc}.cool")
                make_cooler(path, S.bins, S.pix, S.symm, **S.create_kw())
                src, out = path + "::/", path + "::/coarse"
            else:
                src, out = S.uri, B.path(f"np-{S.tname}-{S.mname}-{f}-{cs}-{npc}.cool")
            r = B.guarded("workers.coarsen_cooler-runs", case,
                          lambda: with_timeout(lambda: (cooler.coarsen_cooler(src, out, f, chunksize=cs, nproc=npc), True)[1]),
                          signature=f"workers.coarsen_cooler-runs:{kind}")
            if r:
                B.ok("workers.coarsen_cooler-runs", case)
                check_file(B, S, f, out, case, prefix="workers.")
            p = parse_cooler_uri(out)[0]
            if os.path.exists(p):
                os.remove(p)


def with_extra_columns(pix, rng):
    p = pix.copy()
    p["w"] = [0.25 * rng.randrange(-8, 9) for _ in range(len(p))]
    p["m"] = np.array([rng.randrange(0, 5) for _ in range(len(p))], dtype=np.int64)
    p = p.astype({"w": np.float64})
    return p


def main():
    B = PerSignature("C08", "bounded/C08.py")
    B.max_violations = 40
    atexit.register(shutil.rmtree, B.tmp, ignore_errors=True)  # nothing stays under /tmp even if the runner itself crashes
    T = B.thorough
    factors = [2, 3, 4, 5, 6] if T else [2, 3, 4, 5]
    tabs = scope_tables(T)
    B.bound = (f"{len(tabs)} bin tables (<=3 chromosomes, <=15 bins; fixed short/exact last bin, variable, one-bin chromosomes, first chromosome uniform + later chromosome variable, "
               f"coarse table with a longer last bin) x matrices " + ("{empty,diagonal,dense,sparse,corners} x upper/square" if T else "{empty,dense,sparse} upper + dense square") + " x "
               f"k in {factors} (incl. k > bins of a chromosome); partition contract for EVERY chunksize 1..nnz+1 (+2 large); "
               + ("stream equality for EVERY chunksize 1..nnz+1 when nnz<=30 and k<=4, else one per distinct partition; " if T else
                  "stream equality for one chunksize per DISTINCT work partition reachable by chunksizes 1..nnz+1; ")
               + "file-level coarsen_cooler on rotating chunksizes; nproc in {1,2" + (",3" if T else "") + "} incl. output in the source file; "
               "aggregations sum/max/min/mean/first on extra columns, count dtypes int32/int64/float64; float64-fractional and int64-beyond-2^31 counts x 8 ways of leaving the dtype unspecified (API: None/omitted/{}/other-column-only/agg-only; CLI: no --field/--field count/--field count:agg=sum); chains k1 then k2 vs k1*k2; "
               "coarsen(merge) vs merge(coarsen) and coarsen(merge(coarsen)); `cooler coarsen` CLI in-process"
               + ("; plus seeded random tables/0-1-2 matrices/k/chunksize" if T else ""))
    B.rule = ("case = (bin table, pixel list, storage mode, k, chunksize, nproc, level/agg); non-trivial when the source has "
              "at least one pixel (partition contract: and more than one admissible cut point); distinct by case")
    B.exhaustive = not T

    # ---------------------------------------------------------------- 1. main sweep
    quick_m = {"upper": ["empty", "dense", "sparse-empty-row"], "square": ["dense"]}
    combo = 0
    scopes = {}
    for tname, spec in tabs:
        n = sum(len(e) - 1 for e in spec.values())
        for mname, A in matrices(n, B.rng, 5):
            for symm in (True, False):
                if not T and mname not in quick_m["upper" if symm else "square"]:
                    continue
                if T and not symm and mname in ("empty", "corners"):
                    continue
                if T and n > 12 and mname == "dense" and not symm:
                    continue
                if not T and tname in UNIFORM_THEN_VARIABLE and (not symm or mname == "empty"):
                    continue
                if T and tname == "uniform-then-variable-10bins" and not symm:
                    continue
                pix = pixels_from_dense(A, symm)
                S = Scope(B, tname, spec, mname, pix, symm)
                scopes[(tname, mname, symm)] = S
                for f in factors:
                    if tname in UNIFORM_THEN_VARIABLE and f > 4:
                        continue
                    combo += 1
                    sweep(B, S, f, combo, all_chunksizes=T and S.nnz <= 30 and f <= 4, file_level=2 if T else 1)

    # ---------------------------------------------------------------- 2. worker processes
    for tname, spec in tabs:
        S = scopes[(tname, "dense", True)]
        fs = factors if T else [2, 3]
        for f in fs:
            nproc_cases(B, S, f, [2], [1, 4] if T else [1], same_file=False)
            if T:
                nproc_cases(B, S, f, [3], [2], same_file=False)
        for f in ([2, 3] if T else [2]):
            nproc_cases(B, S, f, [2], [1], same_file=True)
        if T:
            S2 = scopes.get((tname, "dense", False)) or scopes.get((tname, "sparse-empty-row", False))
            if S2 is not None:
                nproc_cases(B, S2, 2, [2], [1, 3], same_file=False)

    # ---------------------------------------------------------------- 3. value columns, aggregations, dtypes
    agg_tabs = tabs if T else [t for t in tabs if t[0] in ("fixed10-short-last", "variable", "fixed-3chrom")]
    for tname, spec in agg_tabs:
        base = scopes[(tname, "dense", True)]
        pixx = with_extra_columns(base.pix, B.rng)
        S = Scope(B, tname, spec, "dense+w+m", pixx, True, tag="x")
        for f in ([2, 3, 4] if T else [2, 3]):
            for aggs in ({"count": "sum", "w": "max"}, {"count": "sum", "w": "min", "m": "sum"}, {"w": "mean", "m": "max"},
                         {"count": "max", "w": "sum"}, {"count": "first"}):
                for cs in ([1, 3] if T else [2]):
                    case = S.case(factor=f, chunksize=cs, agg=aggs)
                    out = B.path("agg.cool")
                    cols = list(aggs)
                    agg_arg = {c: a for c, a in aggs.items() if a != "sum"} or None
                    kind = S.kind(f, aggs)
                    cmap, _, _ = model_bins(spec, f)
                    exp = model_pixels(S.pix, cmap, aggs)
                    got = B.guarded("agg.stream-pixels==block-aggregate", dict(case, level="stream"),
                                    lambda: run_stream(S.uri, f, cs, cols, agg_arg),
                                    signature=f"agg.stream-pixels==block-aggregate:exception:{kind}")
                    if got is not None:
                        B.check("agg.stream-pixels==block-aggregate", pixels_equal(got["pixels"], exp, cols), dict(case, level="stream"),
                                got_rows(got["pixels"], cols), rows_of(exp, cols), signature=f"agg.stream-pixels==block-aggregate:{kind}")
                    r = B.guarded("agg.coarsen_cooler-runs", case,
                                  lambda: (cooler.coarsen_cooler(S.uri, out, f, chunksize=cs, columns=cols, agg=agg_arg), True)[1],
                                  signature="agg.coarsen_cooler-runs:" + (kind if "count" in cols else "columns-without-count"))
                    if r:
                        B.ok("agg.coarsen_cooler-runs", case)
                        check_file(B, S, f, out, case, prefix="agg.", aggs=aggs)
                    if os.path.exists(out):
                        os.remove(out)
        for dt in (np.int64, np.float64):
            pd_ = base.pix.astype({"count": dt})
            Sd = Scope(B, tname, spec, f"dense-{np.dtype(dt).name}", pd_, True, tag="d")
            for f in (2, 3):
                case = Sd.case(factor=f, chunksize=3, count_dtype=np.dtype(dt).name)
                out = B.path("dt.cool")
                r = B.guarded("dtype.coarsen_cooler-runs", case,
                              lambda: (cooler.coarsen_cooler(Sd.uri, out, f, chunksize=3), True)[1],
                              signature=f"dtype.coarsen_cooler-runs:{Sd.kind(f)}")
                if r:
                    B.ok("dtype.coarsen_cooler-runs", case)
                    ok = check_file(B, Sd, f, out, case, prefix="dtype.")
                    got_dt = cooler.Cooler(out).pixels().dtypes["count"]
                    # the property's "sum of exactly the old pixels" needs the value type to be carried over
                    B.check("dtype.value-type-carried-over", got_dt == np.dtype(dt), case, str(got_dt), np.dtype(dt).name,
                            signature="dtype.value-type-carried-over")
                if os.path.exists(out):
                    os.remove(out)
    # ---------------------------------------------------------------- 3b. value type left unspecified by the caller
    # "each new pixel is the sum of exactly the old pixels": when the source's count column is not int32 (float64 with
    # fractional values; int64 with block sums beyond 2^31) and the caller names no dtype for it - in any of the ways the
    # API and the CLI allow - the stored sums must still be exact (no truncation, no clipping) and `sum` preserved.
    from click.testing import CliRunner as _CliRunner
    from cooler.cli import cli as _cli
    _runner = _CliRunner()
    vt_tabs = [t for t in tabs if t[0] in (("fixed-3chrom", "variable") if not T else
                                           ("fixed-3chrom", "variable", "fixed10-short-last", "one-bin-chroms", "fixed-2chrom-10+5"))]
    for tname, spec in vt_tabs:
        for symm in ((True, False) if T else (True,)):
            basepix = scopes[(tname, "dense", symm)].pix if (tname, "dense", symm) in scopes else \
                pixels_from_dense(dict(matrices(sum(len(e) - 1 for e in spec.values()), B.rng, 5))["dense"], symm)
            n_ = len(basepix)
            sources = {
                "float64-fractional": np.array([0.5 + 1.25 * i + (5.75 if i % 3 == 0 else 0.0) for i in range(n_)], dtype=np.float64),
                "int64-beyond-int32": np.array([1_200_000_000 + 700_000_001 * i for i in range(n_)], dtype=np.int64),
            }
            for sname, counts in sources.items():
                px = basepix[["bin1_id", "bin2_id"]].copy()
                px["count"] = counts
                px["w"] = np.array([0.25 * (i % 5) for i in range(n_)], dtype=np.float64)
                Sv = Scope(B, tname, spec, f"dense-{sname}+w", px, symm, tag="vt")
                src_dt = px["count"].dtype
                forms = {
                    "dtypes-None": dict(api=dict(dtypes=None)),
                    "dtypes-omitted": dict(api=dict()),
                    "dtypes-empty-dict": dict(api=dict(dtypes={})),
                    "dtypes-other-column-only": dict(api=dict(dtypes={"w": np.float64}, columns=["count", "w"]), aggs={"count": "sum", "w": "sum"}),
                    "agg-sum-explicit": dict(api=dict(agg={"count": "sum"}, dtypes={})),
                    "cli-no-field": dict(cli=[]),
                    "cli-field-count": dict(cli=["--field", "count"]),
                    "cli-field-count-agg-sum": dict(cli=["--field", "count:agg=sum"]),
                }
                for fi, f in enumerate([2, 3, 4] if T else [2, 3]):
                    for form, how in forms.items():
                        cs = (1, 3, 10 ** 6)[(fi + len(form)) % 3]
                        npc = 2 if (form in ("dtypes-empty-dict", "cli-no-field") and f == 2) else 1
                        kind = f"{sname}:{form}"
                        out = B.path("vt.cool")
                        aggs = how.get("aggs", {"count": "sum"})
                        if "api" in how:
                            kw = {k: (dict(v) if isinstance(v, dict) else v) for k, v in how["api"].items()}  # fresh dicts: the library fills them in
                            case = Sv.case(factor=f, chunksize=cs, nproc=npc, form=form,
                                           call={k: (str(v) if k == "dtypes" and v else v) for k, v in how["api"].items()})
                            ran = B.guarded("valuetype.coarsen-runs", case,
                                            lambda: with_timeout(lambda: (cooler.coarsen_cooler(Sv.uri, out, f, chunksize=cs, nproc=npc, **kw), True)[1]),
                                            signature=f"valuetype.coarsen-runs:{kind}")
                        else:
                            args = ["coarsen", "-k", str(f), "-c", str(cs), "-n", str(npc)] + how["cli"] + ["-o", out, Sv.uri]
                            case = Sv.case(form=form, argv=args[:-3] + ["-o", "OUT", "IN"])
                            res = invoke(_runner, _cli, args)
                            ran = res.exit_code == 0 and res.exception is None
                            if not ran:
                                B.fail("valuetype.coarsen-runs", case, repr(res.exception), "exit 0", f"valuetype.coarsen-runs:{kind}")
                        if ran:
                            B.ok("valuetype.coarsen-runs", case)
                            _, got = check_file(B, Sv, f, out, case, prefix="valuetype.", aggs=aggs, kind=kind)
                            if got is not None and "count" in got["dtypes"]:
                                dt = got["dtypes"]["count"]
                                # a type that can hold the exact sums of this source: same kind, at least as wide
                                B.check("valuetype.stored-type-holds-exact-sums", dt.kind == src_dt.kind and dt.itemsize >= src_dt.itemsize,
                                        case, str(dt), f"{src_dt.kind}{src_dt.itemsize} or wider", signature=f"valuetype.stored-type-holds-exact-sums:{kind}")
                        if os.path.exists(out):
                            os.remove(out)
                os.remove(Sv.uri)
    # a block sum beyond int32 in an int32 column (the default count type)
    spec = t_fixed({"chr1": 40}, 10)
    big = pd.DataFrame({"bin1_id": [0, 0, 1, 2], "bin2_id": [0, 1, 1, 3], "count": [1_500_000_000, 1_500_000_000, 7, 2]}).astype(
        {"bin1_id": np.int64, "bin2_id": np.int64, "count": np.int32})
    Sb = Scope(B, "fixed10-1chrom", spec, "two-1.5e9-counts-in-one-block", big, True)
    case = Sb.case(factor=2, chunksize=10)
    out = B.path("big.cool")
    # an aggregate that does not fit the value type must never be stored silently wrong: either the
    # exact block sums are stored, or the operation refuses with an error (C07's clause; C08 demands exact sums)
    try:
        cooler.coarsen_cooler(Sb.uri, out, 2, chunksize=10)
        r = True
    except ValueError as e:
        r = False
        B.ok("block-sum-beyond-int32==exact-or-error", dict(case, outcome=f"ValueError: {e}"[:120]))
    except Exception as e:  # any other exception is a failure
        r = False
        B.fail("block-sum-beyond-int32==exact-or-error", case, f"{type(e).__name__}: {e}", "exact sums or ValueError",
               signature=f"coarsen_cooler-runs:{Sb.kind(2)}")
    if r:
        B.ok("coarsen_cooler-runs", case)
        check_file(B, Sb, 2, out, case)

    # ---------------------------------------------------------------- 4. chains: k1 then k2 == k1*k2
    chain_tabs = [("fixed-2chrom-10+5", t_fixed({"chr1": 95, "chr2": 42}, 10)), ("fixed10-short-last", dict(tabs)["fixed10-short-last"]),
                  ("fixed-3chrom", t_fixed({"chr1": 31, "chr2": 9, "chr3": 20}, 10))]
    if T:
        chain_tabs += [("fixed7-exact", t_fixed({"a": 84, "b": 7, "c": 28}, 7)),
                       # variable width: not demanded as such by the statement, but follows from exactness of each step
                       ("variable-3chrom", {"x": [0, 2, 5, 6, 11, 13, 20, 21], "y": [0, 4], "z": [0, 1, 2, 9]})]
    pairs = [(2, 2), (2, 3), (3, 2)] + ([(2, 4), (4, 2), (3, 3), (2, 5), (5, 2)] if T else [])
    for tname, spec in chain_tabs:
        n = sum(len(e) - 1 for e in spec.values())
        for mname, A in matrices(n, B.rng, 5):
            if mname in ("empty", "diagonal", "corners") and not T:
                continue
            if mname in ("empty", "diagonal") and T and tname != "fixed10-short-last":
                continue
            for symm in ((True, False) if T else (True,)):
                S = Scope(B, tname, spec, mname, pixels_from_dense(A, symm), symm, tag="c")
                contract = "compose.k1-then-k2==k1k2" if is_fixed(spec) else "compose-variable-width.k1-then-k2==k1k2"
                for pi, (k1, k2) in enumerate(pairs):
                    for cs in ([(1, 5, 2)[pi % 3]] if T else [3]):
                        case = S.case(k1=k1, k2=k2, chunksize=cs)
                        o1, o2, od = B.path("ch1.cool"), B.path("ch2.cool"), B.path("chd.cool")
                        kind = S.kind(k1 * k2)

                        def chain():
                            cooler.coarsen_cooler(S.uri, o1, k1, chunksize=cs)
                            cooler.coarsen_cooler(o1, o2, k2, chunksize=cs)
                            cooler.coarsen_cooler(S.uri, od, k1 * k2, chunksize=cs)
                            return read_cool(o2), read_cool(od)
                        r = B.guarded(contract, case, chain, signature=f"{contract}:exception:{kind}")
                        if r is not None:
                            a, d = r
                            same = a["bins"] == d["bins"] and all(
                                np.array_equal(a["pixels"][c], d["pixels"][c]) for c in ("bin1_id", "bin2_id", "count"))
                            B.check(contract, same, case, dict(bins=a["bins"], pixels=got_rows(a["pixels"], ["count"])),
                                    dict(bins=d["bins"], pixels=got_rows(d["pixels"], ["count"])), S.nnz > 0,
                                    signature=f"{contract}:{kind}")
                            check_file(B, S, k1 * k2, o2, case, prefix="compose.")
                        for o in (o1, o2, od):
                            if os.path.exists(o):
                                os.remove(o)

    # ---------------------------------------------------------------- 5. coarsen(merge(a,b)) == merge(coarsen(a), coarsen(b))
    merge_tabs = [t for t in tabs if t[0] in ("fixed10-short-last", "variable", "fixed-3chrom", "one-bin-chroms")] if not T else tabs
    for tname, spec in merge_tabs:
        n = sum(len(e) - 1 for e in spec.values())
        ms = dict(matrices(n, B.rng, 5))
        for symm in ((True, False) if T else (True,)):
            for (ma, mb) in ([("dense", "sparse-empty-row"), ("diagonal", "corners")] + ([("corners", "sparse-empty-row")] if T else [])):
                pa, pb = pixels_from_dense(ms[ma], symm), pixels_from_dense(ms[mb], symm)
                Sa = Scope(B, tname, spec, ma, pa, symm, tag="ma")
                Sb_ = Scope(B, tname, spec, mb, pb, symm, tag="mb")
                pm = model_merge([pa, pb]).astype({"count": np.int32})
                Sm = Scope(B, tname, spec, f"{ma}+{mb}", pm, symm, tag="mm")  # model of the merged cooler (also a file, unused by lhs/rhs)
                for f in ([2, 3, 4] if T else [2, 3]):
                    for cs in ([(1, 4)[f % 2]] if T else [2]):
                        case = dict(table=tname, bins=spec, symmetric_upper=symm, a=ma, b=mb, factor=f, chunksize=cs,
                                    pixels_a=pa.values.tolist(), pixels_b=pb.values.tolist())
                        kind = Sm.kind(f)
                        contract = "commute.coarsen-of-merge==merge-of-coarsen"
                        paths = [B.path(x) for x in ("m.cool", "cm.cool", "ca.cool", "cb.cool", "mc.cool")]

                        def both():
                            m, cm, ca, cb_, mc = paths
                            cooler.merge_coolers(m, [Sa.uri, Sb_.uri], mergebuf=10 ** 6)
                            cooler.coarsen_cooler(m, cm, f, chunksize=cs)
                            cooler.coarsen_cooler(Sa.uri, ca, f, chunksize=cs)
                            cooler.coarsen_cooler(Sb_.uri, cb_, f, chunksize=cs)
                            cooler.merge_coolers(mc, [ca, cb_], mergebuf=10 ** 6)
                            return read_cool(cm), read_cool(mc)
                        r = B.guarded(contract, case, both, signature=f"{contract}:exception:{kind}")
                        if r is not None:
                            lhs, rhs = r
                            same = lhs["bins"] == rhs["bins"] and all(
                                np.array_equal(lhs["pixels"][c], rhs["pixels"][c]) for c in ("bin1_id", "bin2_id", "count"))
                            B.check(contract, same, case, dict(bins=lhs["bins"], pixels=got_rows(lhs["pixels"], ["count"])),
                                    dict(bins=rhs["bins"], pixels=got_rows(rhs["pixels"], ["count"])), Sm.nnz > 0,
                                    signature=f"{contract}:{kind}")
                            check_file(B, Sm, f, paths[4], case, prefix="commute.")
                            if is_fixed(spec) and f == 2:
                                # a longer interleaving: coarsen(merge(coarsen(a,2), coarsen(b,2)), 2) is the block aggregation by 4 of merge(a,b)
                                il = B.path("il.cool")
                                icase = dict(case, then_factor=2)
                                r2 = B.guarded("interleave.coarsen-merge-coarsen==k1k2-of-merge", icase,
                                               lambda: (cooler.coarsen_cooler(paths[4], il, 2, chunksize=cs), True)[1],
                                               signature=f"interleave.coarsen-merge-coarsen==k1k2-of-merge:exception:{Sm.kind(4)}")
                                if r2:
                                    check_file(B, Sm, 4, il, icase, prefix="interleave.")
                                if os.path.exists(il):
                                    os.remove(il)
                        for o in paths:
                            if os.path.exists(o):
                                os.remove(o)

    # ---------------------------------------------------------------- 6. CLI
    from click.testing import CliRunner
    from cooler.cli import cli
    runner = CliRunner()
    cli_tabs = tabs if T else [t for t in tabs if t[0] in ("fixed10-short-last", "variable", "one-bin-chroms")]
    for tname, spec in cli_tabs:
        S = scopes[(tname, "dense", True)]
        Sx = Scope(B, tname, spec, "dense+w+m", with_extra_columns(S.pix, B.rng), True, tag="cli")
        for f in ([2, 3, 5] if T else [2, 3]):
            for cs in ([1, S.nnz + 1] if T else [2]):
                for npc in ((1, 2) if (T or f == 2) else (1,)):
                    out = B.path("cli.cool")
                    args = ["coarsen", "-k", str(f), "-c", str(cs), "-n", str(npc), "-o", out, S.uri]
                    case = S.case(argv=args[:-3] + ["-o", "OUT", "IN"])
                    res = invoke(runner, cli, args)
                    if B.check("cli.coarsen-exit-0", res.exit_code == 0 and res.exception is None, case,
                               repr(res.exception), "exit 0", signature=f"cli.coarsen-exit-0:{S.kind(f)}"):
                        check_file(B, S, f, out, case, prefix="cli.")
                    if os.path.exists(out):
                        os.remove(out)
            # --field with dtype / agg properties
            out = B.path("cli.cool")
            args = ["coarsen", "-k", str(f), "-c", "3", "--field", "count", "--field", "w:agg=max", "--field", "m:dtype=int64",
                    "-o", out, Sx.uri]
            aggs = {"count": "sum", "w": "max", "m": "sum"}
            case = Sx.case(argv=args[:-3] + ["-o", "OUT", "IN"])
            res = invoke(runner, cli, args)
            if B.check("cli.coarsen-exit-0", res.exit_code == 0 and res.exception is None, case, repr(res.exception), "exit 0",
                       signature=f"cli.coarsen-exit-0:{Sx.kind(f, aggs)}"):
                check_file(B, Sx, f, out, case, prefix="cli.", aggs=aggs)
            if os.path.exists(out):
                os.remove(out)
        # default factor is 2; --append keeps what is already in the output file
        out = B.path("cli-app.cool")
        make_cooler(out, S.bins, S.pix, True)
        args = ["coarsen", "-c", "2", "--append", "-o", out + "::/k2", S.uri]
        case = S.case(argv=["coarsen", "-c", "2", "--append", "-o", "OUT::/k2", "IN"])
        res = invoke(runner, cli, args)
        if B.check("cli.coarsen-exit-0", res.exit_code == 0 and res.exception is None, case, repr(res.exception), "exit 0",
                   signature=f"cli.coarsen-exit-0:{S.kind(2)}"):
            check_file(B, S, 2, out + "::/k2", case, prefix="cli.")
            keep = B.guarded("cli.append-keeps-existing", case, lambda: read_cool(out + "::/"))
            if keep is not None:
                src = read_cool(S.uri)
                B.check("cli.append-keeps-existing", keep["bins"] == src["bins"] and np.array_equal(keep["pixels"]["count"], src["pixels"]["count"]),
                        case, got_rows(keep["pixels"], ["count"]), got_rows(src["pixels"], ["count"]))
        os.remove(out)

    # ---------------------------------------------------------------- 7. seeded random sampling beyond the enumerated scope
    if T:
        nsamples = 400
        for i in range(nsamples):
            rng = B.rng
            nch = rng.randrange(1, 4)
            spec = {}
            fixedw = rng.random() < 0.4
            w = rng.randrange(2, 9)
            for c in range(nch):
                nb = rng.randrange(1, 7)
                if fixedw:
                    ln = w * (nb - 1) + rng.randrange(1, w + 1)
                    spec[f"c{c}"] = list(range(0, ln, w)) + [ln]
                else:
                    ed = [0]
                    for _ in range(nb):
                        ed.append(ed[-1] + rng.randrange(1, 12))
                    spec[f"c{c}"] = ed
            n = sum(len(e) - 1 for e in spec.values())
            symm = rng.random() < 0.6
            A = np.zeros((n, n), dtype=np.int64)
            dens = rng.choice([0.15, 0.4, 0.8])
            for a in range(n):
                for b in range(n):
                    if rng.random() < dens:
                        A[a, b] = rng.randrange(1, 3)
            pix = pixels_from_dense(A, symm)
            S = Scope(B, f"rand{i}", spec, f"rand012-{i}", pix, symm, tag="r")
            f = rng.randrange(2, 8)
            cs = rng.randrange(1, S.nnz + 2)
            kind = S.kind(f)
            cmap, cb, firsts = model_bins(spec, f)
            exp = model_pixels(pix, cmap, {"count": "sum"})
            case = S.case(factor=f, chunksize=cs, level="stream", sample=i)
            got = B.guarded("stream-pixels==block-aggregate", case, lambda: run_stream(S.uri, f, cs, ["count"], None),
                            signature=f"stream-pixels==block-aggregate:exception:{kind}")
            if got is not None:
                valid = {S.O[j] for j in firsts} | {S.nnz}
                P = got["edges"]
                good = (all(x == 0 for x in P) if S.nnz == 0 else
                        (P[0] == 0 and P[-1] == S.nnz and all(a <= b for a, b in zip(P[:-1], P[1:])) and all(x in valid for x in P)))
                B.check("partition-respects-coarse-rows", good, case, P, dict(allowed_cut_points=sorted(valid)),
                        nontrivial=S.nnz > 0 and len(valid) > 2, signature=f"partition-respects-coarse-rows:{kind}")
                B.check("stream-pixels==block-aggregate", pixels_equal(got["pixels"], exp, ["count"]), case,
                        dict(rows=got_rows(got["pixels"], ["count"]), spans=got["edges"]), rows_of(exp, ["count"]),
                        nontrivial=S.nnz > 0, signature=f"stream-pixels==block-aggregate:{kind}")
                B.check("bins==union-of-k-old-bins", got["bins"] == cb, dict(case, level="stream"), got["bins"], cb,
                        signature=f"bins==union-of-k-old-bins:{kind}")
            if i % 3 == 0:
                npc = 2 if i % 12 == 0 else 1
                case = S.case(factor=f, chunksize=cs, nproc=npc, level="file", sample=i)
                out = B.path("rand-out.cool")
                r = B.guarded("coarsen_cooler-runs", case,
                              lambda: with_timeout(lambda: (cooler.coarsen_cooler(S.uri, out, f, chunksize=cs, nproc=npc), True)[1]),
                              signature=f"coarsen_cooler-runs:{kind}")
                if r:
                    B.ok("coarsen_cooler-runs", case)
                    check_file(B, S, f, out, case, prefix="workers." if npc > 1 else "")
                if os.path.exists(out):
                    os.remove(out)
            os.remove(S.uri)
    return B.finish()


if __name__ == "__main__":
    sys.exit(main())
