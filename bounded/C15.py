"""C15 bounded stand-in: file-level operations preserve content and touch nothing else.

A small GHOST MODEL of two HDF5 files (groups with attributes, dataset digests, hard-link
aliasing, soft links, external links) predicts - from the PROPERTY STATEMENT, not from the
code - what every operation of the alphabet

    create(mode "a") / create(mode "w") at "/", "/a", "/a/b"
    cp / mv / ln (hard) / ln -s (soft in one file, external across files), +- overwrite,
    sources and destinations among "/", "/a", "/a/b", "/c" of files A and B,
    URIs with and without leading slash, through the Python API and through the CLI

must do to the files.  The state graph of the model is explored breadth first (every
operation from every distinct reachable state = all operation sequences up to the stated
length, modulo equal states); every operation is executed by the REAL library on real
files, after which
  * both files are read back with plain h5py (own walker: attributes, dataset digests,
    link kinds, object addresses) and compared with the prediction, split into
    destination / source-of-a-move / frame (everything else);
  * EVERY collection the model says exists (also through links) is opened through
    cooler.Cooler and must read as the tables it was created from;
  * list_coolers (API and `cooler ls`) must report exactly the model's collection paths;
  * is_cooler must be True exactly on those paths and False - never an exception - on
    absent paths, dangling links, plain groups (incl. a decoy group that has children
    named chroms/bins/pixels/indexes but no format attribute), datasets, non-HDF5 files.
Out of the quantifier (skipped by the model's preconditions, each with a comment below):
occupied destinations without overwrite, overwrite within one file, hard links across
files, operations that would create a link cycle, destinations whose parent is reached
through an external link.
"""
import sys, os
sys.path.insert(0, os.path.dirname(os.path.dirname(os.path.abspath(__file__))))
import copy
import hashlib
import math
import shutil
import traceback
import warnings
import numpy as np
import h5py
import cooler
from cooler import fileops
from click.testing import CliRunner
from cooler.cli import cli
from bounded.common import *

warnings.filterwarnings("ignore")
FILES = ["A.cool", "B.cool"]
CREATE_PATHS = ["/", "/a", "/a/b"]
PATHS = ["/", "/a", "/a/b", "/c"]
TABLES = ("chroms", "bins", "pixels", "indexes")
MAGIC = "HDF5::Cooler"
INFO_KEYS = {"bin-type", "bin-size", "storage-mode", "nchroms", "nbins", "sum", "nnz", "genome-assembly", "metadata",
             "creation-date", "generated-by", "format", "format-version", "format-url"}
PROBES = ["/", "/a", "/a/b", "/c", "/zz", "/a/zz", "/a/b/zz", "/misc", "/misc/bins", "/c/bins", "/a/pixels/count"]


def cap_failures(B, per_sig=2):
    """record at most per_sig violations per failure class; further ones are still counted"""
    orig, seen = B.fail, {}

    def fail(contract, case, observed, expected, signature=None):
        sig = signature or contract
        seen[sig] = seen.get(sig, 0) + 1
        if seen[sig] > per_sig:
            B.evaluations += 1
            B.contracts[contract] = B.contracts.get(contract, 0) + 1
            return
        orig(contract, case, observed, expected, signature)
    B.fail = fail


def canon(x):
    if isinstance(x, pd.DataFrame):
        return {str(c): canon(x[c].to_numpy()) for c in x.columns}
    if isinstance(x, pd.Series):
        return canon(x.to_numpy())
    if isinstance(x, np.ndarray):
        return [canon(v) for v in x.tolist()]
    if isinstance(x, (list, tuple)):
        return [canon(v) for v in x]
    if isinstance(x, dict):
        return {str(k): canon(v) for k, v in x.items()}
    if isinstance(x, bytes):
        return x.decode("latin1")
    if isinstance(x, (float, np.floating)):
        return "nan" if math.isnan(x) else float(x)
    if isinstance(x, np.integer):
        return int(x)
    if isinstance(x, np.bool_):
        return bool(x)
    return x


# ------------------------------------------------------------------ contents
def contents():
    """three collections with different bin tables AND different pixels (a mix-up always shows)"""
    T = dict(bin_tables())
    out = []
    for k, (tname, mname, symm) in enumerate([("fixed10-short-last", "dense", True), ("variable", "corners", False),
                                               ("one-bin-chroms", "diagonal", True)]):
        bins = T[tname]
        A = dict(matrices(len(bins), random.Random(k), 5))[mname] + k
        pix = pixels_from_dense(A, symm)
        names = list(dict.fromkeys(bins["chrom"]))
        out.append(dict(bins=bins, pix=pix, symm=symm, names=names,
                        sizes=[int(bins[bins.chrom == c]["end"].max()) for c in names],
                        F=canon(full_matrix(pix, len(bins), symm))))
    return out


CONTENTS = contents()


# ------------------------------------------------------------------ ghost model
class G:
    """group: attrs (canonical dict), kids name -> G | D | Soft | Ext ; ck = content key if a collection"""
    def __init__(self, attrs=None, kids=None, ck=None):
        self.attrs, self.kids, self.ck = dict(attrs or {}), dict(kids or {}), ck

    def is_cooler(self):
        return self.attrs.get("format") == MAGIC

    def __deepcopy__(self, memo):
        # structure-preserving copy (hard-link aliasing survives through memo); attribute values and the
        # leaf objects D / Soft / Ext are never mutated, so they are shared
        g = G.__new__(G)
        memo[id(self)] = g
        g.attrs, g.ck = dict(self.attrs), self.ck
        g.kids = {n: (copy.deepcopy(e, memo) if isinstance(e, G) else e) for n, e in self.kids.items()}
        return g


class D:
    def __init__(self, digest):
        self.digest = digest


class Soft:
    def __init__(self, path):
        self.path = path


class Ext:
    def __init__(self, file, path):
        self.file, self.path = file, path


def parts(path):
    return [p for p in path.split("/") if p]


def lookup(model, file, path, follow_last=True, d=0):
    """(file the node lives in, node) or None (absent / dangling).  Soft links are absolute paths in the file
    that contains the link; external links name (file, path)."""
    if d > 12:
        return None
    node = model.get(file)
    if node is None:
        return None
    cur = file
    ps = parts(path)
    for i, part in enumerate(ps):
        if not isinstance(node, G):
            return None
        e = node.kids.get(part)
        if e is None:
            return None
        last = i == len(ps) - 1
        if isinstance(e, (Soft, Ext)) and (follow_last or not last):
            r = lookup(model, cur if isinstance(e, Soft) else e.file, e.path, True, d + 1)
            if r is None:
                return None
            cur, node = r
        else:
            node = e
    return cur, node


def parent_of(model, file, path, create):
    """(file, parent group, name) of a non-root path; missing intermediate groups are created when `create`.
    None if some intermediate component is dangling or not a group (the library call would raise)."""
    ps = parts(path)
    cur, node = file, model.get(file)
    if node is None:
        return None
    via = set()
    for part in ps[:-1]:
        e = node.kids.get(part)
        if e is None:
            if not create:
                return None
            e = G()
            node.kids[part] = e
        if isinstance(e, (Soft, Ext)):
            via.add("soft" if isinstance(e, Soft) else "ext")
            r = lookup(model, cur if isinstance(e, Soft) else e.file, e.path)
            if r is None:
                return None
            cur, e = r
        if not isinstance(e, G):
            return None
        node = e
    return cur, node, ps[-1], via


def reachable(model, file, node, acc=None, d=0):
    """ids of all groups reachable from node (through children and links)"""
    acc = acc if acc is not None else set()
    if not isinstance(node, G) or id(node) in acc or d > 40:
        return acc
    acc.add(id(node))
    for e in node.kids.values():
        if isinstance(e, G):
            reachable(model, file, e, acc, d + 1)
        elif isinstance(e, (Soft, Ext)):
            r = lookup(model, file if isinstance(e, Soft) else e.file, e.path)
            if r is not None:
                reachable(model, r[0], r[1], acc, d + 1)
    return acc


def files_reached(model, file, node):
    """files in which some group reachable from node (through children and links) lives"""
    out, seen = set(), set()

    def rec(cur, n, d):
        if not isinstance(n, G) or id(n) in seen or d > 40:
            return
        seen.add(id(n))
        out.add(cur)
        for e in n.kids.values():
            if isinstance(e, G):
                rec(cur, e, d + 1)
            elif isinstance(e, (Soft, Ext)):
                r = lookup(model, cur if isinstance(e, Soft) else e.file, e.path)
                if isinstance(e, Ext):
                    out.add(e.file)
                if r is not None:
                    rec(r[0], r[1], d + 1)
    rec(file, node, 0)
    return out


def has_cycle(model):
    def rec(file, node, stack, d):
        if not isinstance(node, G):
            return False
        if id(node) in stack or d > 40:
            return True
        stack.add(id(node))
        for e in node.kids.values():
            if isinstance(e, G):
                if rec(file, e, stack, d + 1):
                    return True
            elif isinstance(e, (Soft, Ext)):
                r = lookup(model, file if isinstance(e, Soft) else e.file, e.path)
                if r is not None and rec(r[0], r[1], stack, d + 1):
                    return True
        stack.discard(id(node))
        return False
    return any(rec(f, model[f], set(), 0) for f in FILES if model.get(f) is not None)


def collections(model, file):
    """{path: (content key, node)} of all collections the file HOLDS = every path (also through links) that
    resolves to a group carrying the cooler format attribute"""
    out = {}

    def rec(curfile, node, path, d):
        if not isinstance(node, G) or d > 8:
            return
        if node.is_cooler():
            out[path or "/"] = node
        for name, e in sorted(node.kids.items()):
            if isinstance(e, G):
                rec(curfile, e, path + "/" + name, d + 1)
            elif isinstance(e, (Soft, Ext)):
                r = lookup(model, curfile if isinstance(e, Soft) else e.file, e.path)
                if r is not None:
                    rec(r[0], r[1], path + "/" + name, d + 1)
    if model.get(file) is not None:
        rec(file, model[file], "", 0)
    return out


def file_flags(model, file):
    """kinds of links present in the file (for failure signatures)"""
    fl = set()

    def rec(cur, node, d):
        if not isinstance(node, G) or d > 8:
            return
        for e in node.kids.values():
            if isinstance(e, G):
                rec(cur, e, d + 1)
            elif isinstance(e, (Soft, Ext)):
                r = lookup(model, cur if isinstance(e, Soft) else e.file, e.path)
                if r is None:
                    fl.add("dangling-link")
                else:
                    fl.add("external-link" if isinstance(e, Ext) else "soft-link")
                    rec(r[0], r[1], d + 1)   # what the walk of this file sees through the link
    if model.get(file) is not None:
        rec(file, model[file], 0)
    return fl


def canon_model(root):
    if root is None:
        return None
    seen = {}

    def rec(g, p):
        seen[id(g)] = p or "/"
        out = {"attrs": g.attrs, "kids": {}}
        for name in sorted(g.kids):
            e = g.kids[name]
            q = p + "/" + name
            if isinstance(e, Soft):
                out["kids"][name] = {"soft": e.path}
            elif isinstance(e, Ext):
                out["kids"][name] = {"ext": [e.file, e.path]}
            elif isinstance(e, D):
                out["kids"][name] = {"data": e.digest}
            elif id(e) in seen:
                out["kids"][name] = {"alias": seen[id(e)]}
            else:
                out["kids"][name] = {"group": rec(e, q)}
        return out
    return rec(root, "")


def from_canon(c, ck=None):
    g = G(c["attrs"], ck=ck)
    for name, e in c["kids"].items():
        if "group" in e:
            g.kids[name] = from_canon(e["group"])
        elif "data" in e:
            g.kids[name] = D(e["data"])
        elif "soft" in e:
            g.kids[name] = Soft(e["soft"])
        elif "ext" in e:
            g.kids[name] = Ext(*e["ext"])
        else:
            raise ValueError("alias inside a freshly created collection")
    return g


def state_key(model):
    """structure of the state without volatile attribute values (creation dates)"""
    def strip(c):
        if c is None:
            return None
        return {"a": sorted(k for k in c["attrs"] if k not in INFO_KEYS) + [c["attrs"].get("format"), c["attrs"].get("nnz"),
                                                                           c["attrs"].get("nbins"), c["attrs"].get("sum")],
                "k": {n: ({"group": strip(e["group"])} if "group" in e else e) for n, e in c["kids"].items()}}
    return hashlib.md5(json.dumps([strip(canon_model(model.get(f))) for f in FILES], sort_keys=True).encode()).hexdigest()


def norm(path):
    return "/" + "/".join(parts(path))


# ------------------------------------------------------------------ operations on the model
def candidate_ops(model, depth):
    ops = []
    ck = depth % len(CONTENTS)
    for f in FILES:
        for p in CREATE_PATHS:
            ops.append(dict(op="create", mode="a", file=f, path=p, ck=ck))
            if model.get(f) is not None:   # on an absent file mode "w" and "a" coincide
                ops.append(dict(op="create", mode="w", file=f, path=p, ck=ck))
    srcs = [(f, p) for f in FILES for p in PATHS if (lambda r: r is not None and isinstance(r[1], G) and r[1].is_cooler())(lookup(model, f, p))]
    for kind in ("cp", "mv", "ln", "lns"):
        for s in srcs:
            for df in FILES:
                for dp in PATHS:
                    for ow in (False, True):
                        ops.append(dict(op=kind, src=list(s), dst=[df, dp], ow=ow))
    return ops


def apply_op(model, op):
    """Mutate the model as the PROPERTY says the operation must; return None if the operation is outside the
    property's quantifier on this state (precondition), else a dict of bookkeeping for the checks."""
    if op["op"] == "create":
        f, p = op["file"], op["path"]
        if op["mode"] == "w" or model.get(f) is None:
            model[f] = G()                                   # write mode / new file: the file is replaced
        root = model[f]
        if p == "/":
            for t in TABLES:                                 # re-creating at the root replaces the collection's tables,
                root.kids.pop(t, None)                       # everything else in the file stays (append frame)
            root.ck = op["ck"]
            return dict(adopt=(f, "/"), dst=(f, "/"))
        r = parent_of(model, f, p, create=True)
        if r is None:
            return None                                      # parent dangling / not a group: the call cannot succeed
        cur, par, name, _ = r
        if cur != f:
            return None                                      # parent reached through an external link: out of scope
        par.kids.pop(name, None)                             # occupied path: that collection (or link) is replaced completely
        par.kids[name] = G(ck=op["ck"])
        return dict(adopt=(f, p), dst=(f, p))
    (sf, sp), (df, dp), ow, kind = op["src"], op["dst"], op["ow"], op["op"]
    same = sf == df
    r = lookup(model, sf, sp)
    if r is None or not isinstance(r[1], G) or not r[1].is_cooler():
        return None                                          # sources are collections
    scur, snode = r
    if same and ow:
        return None                                          # overwrite = replace the destination FILE, which holds the source: undefined
    if kind == "ln" and not same:
        return None                                          # HDF5 has no hard links across files (the library refuses: checked separately)
    if not same and scur == df:
        return None                                          # source reached through an external link INTO the destination file
    if same and norm(sp) == norm(dp):
        return None
    if kind == "ln" and scur != sf:
        return None                                          # source reached through an external link: the object lives in
                                                             # another file, same impossibility as a cross-file hard link
    copies = kind == "cp" or (kind == "mv" and not same)
    tags = []
    if scur != sf:
        tags.append("source-via-external-link")
    if not same and ow and df in files_reached(model, scur, snode):
        return None                                          # the source (through a link inside it) depends on the very file
                                                             # that overwrite replaces: undefined
    snap = copy.deepcopy(snode) if copies else None          # the copy is of the source AS IT WAS (links inside stay links,
                                                             # internal aliasing kept), taken before any intermediate group exists
    if not same and (ow or model.get(df) is None):
        model[df] = G()                                      # overwrite / new file: destination file replaced
    droot = model[df]
    if dp == "/":
        if same or kind != "cp" and kind != "mv":
            return None                                      # the root always exists: occupied destination
        if any(n in droot.kids for n in snode.kids):
            return None                                      # occupied
        # The root cannot be replaced by a copy of the source group, so "reads identically" means: the source's
        # attributes and members appear at the root.  The property does not say whether a member that is a LINK
        # arrives as a link or as a copy of its target, nor whether hard-link sharing BETWEEN members survives;
        # the model follows HDF5 (member-by-member copy by name: links dereferenced, members independent).
        for n, e in snode.kids.items():
            if isinstance(e, (Soft, Ext)):
                t = lookup(model, scur if isinstance(e, Soft) else e.file, e.path)
                if t is None:
                    tags.append("source-has-dangling-link-member")
                    droot.kids[n] = e
                else:
                    droot.kids[n] = copy.deepcopy(t[1])
            else:
                droot.kids[n] = copy.deepcopy(e)
        droot.attrs.update(snode.attrs)
        droot.ck = snode.ck
    else:
        r = parent_of(model, df, dp, create=True)
        if r is None:
            return None
        cur, par, name, via = r
        if cur != df:
            return None                                      # parent reached through an external link: out of scope
        if copies and "soft" in via:
            tags.append("destination-parent-via-soft-link")  # (HDF5's H5Ocopy cannot do this: own failure class)
        if name in par.kids:
            return None                                      # occupied destination (no overwrite of a single path exists)
        if (kind == "ln" or (kind == "mv" and same)) and id(par) in reachable(model, scur, snode):
            return None                                      # hard-linking / renaming a group into itself: cycle
        # (cp into the source's own subtree is allowed: the copy is of the source as it was)
        if kind == "ln" or (kind == "mv" and same):
            par.kids[name] = snode                           # alias
        elif kind == "lns":
            par.kids[name] = Soft(norm(sp)) if same else Ext(sf, norm(sp))
        else:
            par.kids[name] = snap
    keep = None
    if kind == "mv":                                         # "source gone only for move" - also across files
        if norm(sp) == "/":
            return None
        keep = copy.deepcopy(model)                          # the same prediction with the source still present
        r = parent_of(model, sf, sp, create=False)
        if r is None:
            return None
        r[1].kids.pop(r[2], None)
    if has_cycle(model) or (keep is not None and has_cycle(keep)):
        return None                                          # the set of collections "held" would be infinite
    return dict(adopt=None, dst=(df, dp), src=(sf, sp), keep=keep, tags=tags)


# ------------------------------------------------------------------ the real files
def addr(o):
    return h5py.h5o.get_info(o.id).addr


def digest(ds):
    h = hashlib.md5()
    enum = h5py.check_dtype(enum=ds.dtype)
    h.update(repr((ds.dtype.str, ds.shape, sorted(enum.items()) if enum else None, canon(dict(ds.attrs)))).encode())
    h.update(np.ascontiguousarray(ds[()]).tobytes())
    return h.hexdigest()[:12]


def walk_real(path):
    """canonical tree of a real file by plain h5py; links are reported, not followed; hard links as aliases"""
    if not os.path.exists(path):
        return None
    with h5py.File(path, "r") as f:
        seen = {}

        def rec(g, p):
            seen[addr(g)] = p or "/"
            out = {"attrs": canon(dict(g.attrs)), "kids": {}}
            for name in sorted(g.keys()):
                l = g.get(name, getlink=True)
                q = p + "/" + name
                if isinstance(l, h5py.SoftLink):
                    out["kids"][name] = {"soft": l.path}
                elif isinstance(l, h5py.ExternalLink):
                    out["kids"][name] = {"ext": [l.filename, l.path]}
                else:
                    o = g[name]
                    if isinstance(o, h5py.Group):
                        a = addr(o)
                        out["kids"][name] = {"alias": seen[a]} if a in seen else {"group": rec(o, q)}
                    else:
                        out["kids"][name] = {"data": digest(o)}
            return out
        return rec(f, "")


def diff(a, b, p=""):
    """paths at which two canonical trees differ"""
    if a is None or b is None:
        return [] if a is b else [p or "/"]
    out = []
    if a["attrs"] != b["attrs"]:
        out.append((p or "/") + "@attrs")
    for n in sorted(set(a["kids"]) | set(b["kids"])):
        x, y = a["kids"].get(n), b["kids"].get(n)
        q = p + "/" + n
        if x is None or y is None:
            out.append(q)
        elif "group" in x and "group" in y:
            out.extend(diff(x["group"], y["group"], q))
        elif x != y:
            out.append(q)
    return out


def sub(c, path):
    for part in parts(path):
        if c is None:
            return None
        e = c["kids"].get(part)
        c = e.get("group") if e else None
    return c


def make_junk(path):
    """an HDF5 file with an unrelated root attribute and an unrelated group that LOOKS like a collection by its
    children (chroms, bins, pixels, indexes) but carries no format attribute"""
    with h5py.File(path, "w") as f:
        f.attrs["note"] = "keep me"
        g = f.create_group("misc")
        g.attrs["tag"] = 7
        for i, t in enumerate(TABLES):
            g.create_dataset(t, data=np.arange(3) + i)


def uri(file, path, variant):
    if norm(path) == "/":
        return [file, file + "::/", file + "::"][variant % 3]
    return file + "::" + (norm(path) if variant % 2 == 0 else norm(path)[1:])


def read_collection(u):
    clr = cooler.Cooler(u)
    b = clr.bins()[:]
    return dict(names=list(clr.chromnames), sizes=canon(clr.chromsizes.to_numpy()),
                bins=[[str(x) for x in b["chrom"]], b["start"].tolist(), b["end"].tolist()],
                pixels=canon(clr.pixels()[:]), matrix=canon(clr.matrix(balance=False)[:]),
                created=clr.info.get("creation-date"), mode=clr.storage_mode)


def expected_read(node):
    c = CONTENTS[node.ck]
    return dict(names=c["names"], sizes=c["sizes"],
                bins=[c["bins"]["chrom"].tolist(), c["bins"]["start"].tolist(), c["bins"]["end"].tolist()],
                pixels=canon(c["pix"]), matrix=c["F"], created=node.attrs.get("creation-date"),
                mode="symmetric-upper" if c["symm"] else "square")


# ------------------------------------------------------------------ execution of one operation + checks
class Rec:
    """collects check records in a worker; replayed into the Bounded object by the main process"""
    def __init__(self):
        self.r = []

    def check(self, contract, cond, case, observed=None, expected=None, nontrivial=True, signature=None):
        self.r.append((contract, bool(cond), case, None if cond else observed, None if cond else expected, nontrivial, signature))
        return bool(cond)


def run_real(op, variant, via):
    """execute the operation with the real library in the current directory; returns None or the exception text"""
    runner = CliRunner()
    try:
        if op["op"] == "create":
            c = CONTENTS[op["ck"]]
            cooler.create_cooler(uri(op["file"], op["path"], variant), c["bins"], c["pix"], symmetric_upper=c["symm"],
                                 ordered=True, mode=op["mode"])
            return None
        s, d = uri(*op["src"], variant), uri(*op["dst"], variant // 2)
        if via == "cli":
            args = {"cp": ["cp"], "mv": ["mv"], "ln": ["ln"], "lns": ["ln", "-s"]}[op["op"]] + (["-w"] if op["ow"] else []) + [s, d]
            res = runner.invoke(cli, args)
            if res.exception is not None and not isinstance(res.exception, SystemExit):
                raise res.exception
            if res.exit_code != 0:
                return f"exit code {res.exit_code}: {res.output[:200]}"
        elif op["op"] == "cp":
            fileops.cp(s, d, overwrite=op["ow"])
        elif op["op"] == "mv":
            fileops.mv(s, d, overwrite=op["ow"])
        else:
            fileops.ln(s, d, soft=op["op"] == "lns", overwrite=op["ow"])
        return None
    except Exception as e:
        return f"{type(e).__name__}: {str(e)[:300]}"


def opname(op):
    if op["op"] == "create":
        return f"create({op['mode']})"
    same = op["src"][0] == op["dst"][0]
    return {"cp": "cp", "mv": "mv", "ln": "ln-hard", "lns": "ln-soft" if same else "ln-external"}[op["op"]]


def opkind(op):
    if op["op"] == "create":
        return "root" if op["path"] == "/" else "nested"
    same = op["src"][0] == op["dst"][0]
    return ("same-file" if same else "cross-file") + (":root-destination" if op["dst"][1] == "/" else "") + \
        (":overwrite" if op["ow"] else "")


def short_op(op):
    if op["op"] == "create":
        return f"create[{op['mode']}] {op['file'][0]}:{op['path']} <- content{op['ck']}"
    return f"{opname(op)}{' -w' if op['ow'] else ''} {op['src'][0][0]}:{op['src'][1]} -> {op['dst'][0][0]}:{op['dst'][1]}"


def check_state(rec, model, case, nt, light=False):
    """every collection reads as the model says; listing; recognition"""
    for f in FILES:
        cols = collections(model, f)
        flags = file_flags(model, f)
        fkind = "file-with-dangling-link" if "dangling-link" in flags else \
            "file-with-external-link" if "external-link" in flags else "plain-file"
        for p, node in cols.items():
            c = dict(case, read=[f, p])
            try:
                got = read_collection(f + "::" + p)
                exp = expected_read(node)
                bad = [k for k in exp if got.get(k) != exp[k]]
                rec.check("every-collection-reads-as-created", not bad, c, {k: got.get(k) for k in bad}, {k: exp[k] for k in bad},
                          nt, "every-collection-reads-as-created")
            except Exception as e:
                rec.check("every-collection-reads-as-created", False, c, f"{type(e).__name__}: {str(e)[:200]}", "readable", nt,
                          "every-collection-reads-as-created:exception")
        if model.get(f) is None:
            rec.check("absent-file-stays-absent", not os.path.exists(f), dict(case, file=f), "exists", "absent", False)
            continue
        exp = sorted(cols)
        for via in ("api",) if light else ("api", "cli"):
            c = dict(case, file=f, via=via)
            try:
                if via == "api":
                    got = fileops.list_coolers(f)
                else:
                    res = CliRunner().invoke(cli, ["ls", f])
                    if res.exception is not None and not isinstance(res.exception, SystemExit):
                        raise res.exception
                    got = [l.split("::", 1)[1] for l in res.output.splitlines() if "::" in l]
                rec.check("listing==collections-held", sorted(got) == exp and len(got) == len(set(got)), c, sorted(got), exp,
                          nt, f"listing==collections-held:{fkind}")
            except Exception as e:
                rec.check("listing==collections-held", False, c, f"{type(e).__name__}: {str(e)[:200]}", exp, nt,
                          f"listing==collections-held:exception:{fkind}")
        for k, p in enumerate(PROBES):
            r = lookup(model, f, p)
            want = r is not None and isinstance(r[1], G) and r[1].is_cooler()
            e0 = lookup(model, f, p, follow_last=False)
            pkind = "collection" if want else "absent-path" if e0 is None else \
                "dangling-link" if r is None else "dataset" if isinstance(r[1], D) else "plain-group"
            if light and pkind in ("dataset", "plain-group") and k % 2:
                continue
            c = dict(case, probe=[f, p], path_is=pkind)
            u = uri(f, p, k)
            try:
                got = fileops.is_cooler(u)
                rec.check("is_cooler==membership", got is want, c, got, want, nt, f"is_cooler==membership:{pkind}")
            except Exception as e:
                rec.check("is_cooler==membership", False, c, f"{type(e).__name__}: {str(e)[:160]}", want, nt,
                          f"is_cooler==membership:exception:{pkind}")


def execute(model0, op, workdir, srcdir, case, variant, via, light=False):
    """-> (records, new model or None), or None if the operation is outside the quantifier on this state.
    Never lets an exception escape: whatever a broken operation leaves behind becomes a recorded failure."""
    rec = Rec()
    try:
        return _execute(rec, model0, op, workdir, srcdir, case, variant, via, light)
    except Exception as e:
        rec.check("files-examined-after-operation", False, dict(case, op=short_op(op), via=via, uri_variant=variant),
                  f"{type(e).__name__}: {str(e)[:300]}\n{traceback.format_exc(limit=5)}", "no exception", True,
                  f"files-examined-after-operation:exception:{opname(op)}")
        return rec.r, None


def _execute(rec, model0, op, workdir, srcdir, case, variant, via, light=False):
    model = copy.deepcopy(model0)
    info = apply_op(model, op)
    if info is None:
        return None
    os.makedirs(workdir)
    for f in FILES:
        if os.path.exists(os.path.join(srcdir, f)):
            shutil.copyfile(os.path.join(srcdir, f), os.path.join(workdir, f))
    os.chdir(workdir)
    name, kind = opname(op), opkind(op)
    for t in info.get("tags", []):
        kind += ":" + t
    case = dict(case, op=short_op(op), via=via, uri_variant=variant)
    err = run_real(op, variant, via)
    if not rec.check(f"{name}:succeeds", err is None, case, err, "no exception", True, f"{name}:succeeds:{kind}"):
        return rec.r, None
    real = {f: walk_real(f) for f in FILES}
    ok = True
    # ---- adoption of a freshly created collection: its tables and info attributes come from the real file,
    #      after the collection has been read through the API against the INPUT tables (check_state below)
    if info["adopt"]:
        f, p = info["adopt"]
        rsub = sub(real[f], p)
        good = rsub is not None and rsub["attrs"].get("format") == MAGIC and all(t in rsub["kids"] for t in TABLES)
        rec.check(f"{name}:collection-created-at-path", good, case, None if rsub is None else sorted(rsub["kids"]), list(TABLES),
                  True, f"{name}:collection-created-at-path:{kind}")
        if not good:
            return rec.r, None
        if p == "/":
            root = model[f]
            old = dict(root.attrs)
            for t in TABLES:
                e = rsub["kids"][t]
                root.kids[t] = from_canon(e["group"]) if "group" in e else D("?")
            # unrelated attributes of the root stay; the collection's own info attributes are (re)written
            keep = {k: v for k, v in old.items() if k not in INFO_KEYS}
            root.attrs = dict({k: v for k, v in rsub["attrs"].items() if k in INFO_KEYS}, **keep)
        else:
            r = parent_of(model, f, p, create=False)
            new = from_canon(dict(rsub, kids={t: rsub["kids"][t] for t in TABLES if "group" in rsub["kids"][t]}), ck=op["ck"])
            new.attrs = {k: v for k, v in rsub["attrs"].items() if k in INFO_KEYS}
            r[1].kids[r[2]] = new
    # ---- raw comparison, classified
    exp = {f: canon_model(model.get(f)) for f in FILES}
    if info.get("keep") is not None and real != exp:
        expk = {f: canon_model(info["keep"].get(f)) for f in FILES}
        if real == expk:
            # everything is as predicted except that the source of the move is still there
            rec.check(f"{name}:destination==source", True, case)
            rec.check("mv:source-gone", False, case, "source still present", "source path removed", True,
                      "mv:source-gone:" + kind.split(":")[0])
            rec.check(f"{name}:frame-nothing-else-touched", True, case)
            return rec.r, None
    dfile, dpath = info["dst"]
    dpre = norm(dpath)
    d_dst, d_src, d_frame = [], [], []
    for f in FILES:
        for q in diff(real[f], exp[f]):
            qq = q.split("@")[0]
            if "src" in info and f == info["src"][0] and op["op"] == "mv" and (qq == norm(info["src"][1]) or qq.startswith(norm(info["src"][1]) + "/")):
                d_src.append(f + ":" + q)
            elif f == dfile and (dpre == "/" or qq == dpre or qq.startswith(dpre + "/")) and \
                    not (op["op"] == "create" and dpre == "/" and not (q == "/@attrs" or qq.strip("/").split("/")[0] in TABLES)):
                d_dst.append(f + ":" + q)
            else:
                d_frame.append(f + ":" + q)
    dst_contract = {"create": f"{name}:collection-replaced-completely" if lookup(model0, dfile, dpath, False) is not None and dpre != "/"
                    else f"{name}:collection-as-given"}.get(op["op"], f"{name}:destination==source")
    ok &= rec.check(dst_contract, not d_dst, case, d_dst, "destination subtree as predicted", True, f"{dst_contract}:{kind}")
    if op["op"] == "mv":
        ok &= rec.check("mv:source-gone", not d_src, case, d_src, "source path removed", True, "mv:source-gone:" + kind.split(":")[0])
    frame_contract = "create(w):file-replaced" if op["op"] == "create" and op["mode"] == "w" else \
        "overwrite:destination-file-replaced" if op.get("ow") else f"{name}:frame-nothing-else-touched"
    ok &= rec.check(frame_contract, not d_frame, case, d_frame, "every other object and attribute of both files unchanged",
                    True, f"{frame_contract}:{kind}")
    if not ok:
        return rec.r, None   # the files have left the model: this branch ends here
    check_state(rec, model, case, True, light)
    return rec.r, model


# ------------------------------------------------------------------ exploration
def expand_task(task):
    """worker: all / selected valid operations from one state"""
    sid, model, sdir, depth, hist, tmp, select, keep, light = task
    out = []
    ops = candidate_ops(model, depth)
    j = 0
    for k, op in enumerate(ops):
        if select is not None and k not in select:
            continue
        j += 1
        wd = os.path.join(tmp, f"{sid}_{k}")
        case = dict(history=hist)
        variant = (k + depth + len(hist)) % 6
        via = "cli" if (k + depth) % 3 == 0 and op["op"] != "create" else "api"
        try:
            r = execute(model, op, wd, sdir, case, variant, via, light)
        except Exception as e:   # (execute() catches everything itself; belt and braces for the pool)
            r = ([("files-examined-after-operation", False, dict(case, op=short_op(op)), f"{type(e).__name__}: {e}",
                   "no exception", True, "files-examined-after-operation:exception:worker")], None)
        finally:
            os.chdir(tmp)
        if r is None:
            continue
        recs, m2 = r
        child = None
        if m2 is not None and keep:
            child = (f"{sid}_{k}", m2, wd, depth + 1, hist + [short_op(op)])
        else:
            shutil.rmtree(wd, ignore_errors=True)
        out.append((recs, child))
    return out


def walk_task(task):
    """worker: a random walk of `steps` valid operations from a state"""
    (sid, model, sdir, depth, hist), tmp, wid, seed, steps = task
    rng = random.Random(seed)
    recs = []
    made = []
    try:
        for step in range(steps if steps > 0 else 0):
            ops = candidate_ops(model, depth)
            val = valid_indices(model, depth)
            if not val:
                break
            k = rng.choice(val)
            wd = os.path.join(tmp, f"{wid}_{step}")
            made.append(wd)
            r = execute(model, ops[k], wd, sdir, dict(history=hist), rng.randrange(6),
                        "cli" if rng.random() < 0.3 and ops[k]["op"] != "create" else "api", light=True)
            os.chdir(tmp)
            if r is None:
                break
            recs.extend(r[0])
            if r[1] is None:
                break
            model, sdir, depth, hist = r[1], wd, depth + 1, hist + [short_op(ops[k])]
    except Exception as e:
        recs.append(("files-examined-after-operation", False, dict(history=hist), f"{type(e).__name__}: {e}", "no exception", True,
                     "files-examined-after-operation:exception:worker"))
    finally:
        os.chdir(tmp)
        for wd in made:
            shutil.rmtree(wd, ignore_errors=True)
    return recs


def valid_indices(model, depth):
    out = []
    for k, op in enumerate(candidate_ops(model, depth)):
        if apply_op(copy.deepcopy(model), op) is not None:
            out.append(k)
    return out


def main():
    B = Bounded("C15", "bounded/C15.py")
    B.max_violations = 60
    cap_failures(B)
    full_depth = 3 if B.thorough else 2
    n_walks = 3000 if B.thorough else 100   # random walks from the length-2 states to length 4
    B.bound = (f"files A (pre-existing HDF5 file with an unrelated root attribute and a decoy group) and B (absent); ALL operation "
               f"sequences of length <= {full_depth} (every valid operation from every distinct reachable model state) over "
               "{create mode a / mode w at /, /a, /a/b; cp, mv, ln, ln -s (soft / external) with sources and destinations in "
               "{/, /a, /a/b, /c} x {A, B}, +- overwrite}, 3 different contents, URI spellings with/without leading slash "
               "and bare path / '::/' / '::' for the root, API and CLI alternating"
               + f"; plus {n_walks} seeded random walks continuing length-2 states to length 4; after every operation both files are diffed raw against the ghost model, every "
               "collection is read through Cooler, list_coolers/`cooler ls` and is_cooler on 11 probe paths per file")
    B.rule = ("case = (history of operations, operation, URI variant, API/CLI, checked object [collection read / file listed / "
              "probe path]); every evaluation follows a real operation on real files and is non-trivial; distinct by case")
    B.exhaustive = True
    try:
        body(B, full_depth, n_walks)
    except Exception as e:  # the runner must ALWAYS end with the JSON line
        B.fail("runner-completed", dict(stage="main"), f"{type(e).__name__}: {str(e)[:300]}\n{traceback.format_exc(limit=6)}",
               "no exception", "runner-completed:exception")
    finally:
        os.chdir(ROOT)
    return B.finish()


def body(B, full_depth, n_walks):
    tmp = B.tmp
    # recognition of things that are not HDF5 files / not collections (no state needed)
    os.chdir(tmp)
    open("text.txt", "w").write("not hdf5")
    for u, what in (("nofile.cool", "absent-file"), ("nofile.cool::/a", "absent-file"), ("text.txt", "non-hdf5-file"),
                    ("text.txt::/a", "non-hdf5-file")):
        try:
            got = fileops.is_cooler(u)
            B.check("is_cooler==membership", got is False, dict(uri=u), got, False, True, f"is_cooler==membership:{what}")
        except Exception as e:
            B.check("is_cooler==membership", False, dict(uri=u), f"{type(e).__name__}: {e}", False, True,
                    f"is_cooler==membership:exception:{what}")
    # initial state
    d0 = os.path.join(tmp, "s")
    os.makedirs(d0)
    make_junk(os.path.join(d0, "A.cool"))
    model0 = {"A.cool": from_canon(walk_real(os.path.join(d0, "A.cool"))), "B.cool": None}
    r0 = Rec()
    os.chdir(d0)
    check_state(r0, model0, dict(history=[]), True)
    os.chdir(tmp)
    replay(B, r0.r)
    # hard links across files are impossible in HDF5: the library must refuse (OSError) and leave the source file alone
    dh = os.path.join(tmp, "hard")
    os.makedirs(dh)
    os.chdir(dh)
    c = CONTENTS[0]
    try:
        cooler.create_cooler("A.cool::/a", c["bins"], c["pix"], symmetric_upper=c["symm"], ordered=True)
        before = walk_real("A.cool")
        dsts = ("B.cool::/x", "B.cool")
    except Exception as e:
        B.check("ln-hard:cross-file-refused", False, dict(op="prepare source"), f"{type(e).__name__}: {e}", "source created", True,
                "ln-hard:cross-file-refused:exception")
        dsts = ()
    for dst in dsts:
        case = dict(op=f"ln-hard A:/a -> {dst}")
        try:
            fileops.ln("A.cool::/a", dst)
            B.check("ln-hard:cross-file-refused", False, case, "no exception", "OSError", True)
        except OSError:
            try:
                same = walk_real("A.cool") == before
            except Exception:
                same = False
            B.check("ln-hard:cross-file-refused", same, case, "source file changed / unreadable", "unchanged", True)
        except Exception as e:
            B.check("ln-hard:cross-file-refused", False, case, f"{type(e).__name__}: {e}", "OSError", True)
    os.chdir(tmp)
    frontier = [("s", model0, d0, 0, [])]
    seen = {state_key(model0)}
    pool = None
    if B.thorough:
        import multiprocessing as mp
        pool = mp.get_context("fork").Pool(8)
    nstates = {0: 1}
    for depth in range(full_depth):
        keep = depth < 2   # states of length 3 are checked but not kept (only the random walks go deeper)
        tasks = [(sid, m, sd, dp, h, tmp, None, keep, False) for (sid, m, sd, dp, h) in frontier]
        results = pool.map(expand_task, tasks, chunksize=1) if pool else map(expand_task, tasks)
        nxt = []
        for (sid, m, sd, dp, h), res in zip(frontier, results):
            for recs, child in res:
                replay(B, recs)
                if child is not None:
                    key = state_key(child[1])
                    if key in seen:
                        shutil.rmtree(child[2], ignore_errors=True)
                    else:
                        seen.add(key)
                        nxt.append(child)
            if depth != 2:
                shutil.rmtree(sd, ignore_errors=True)
        nstates[depth + 1] = len(nxt) if keep else "not deduplicated"
        if keep:
            frontier = nxt
    # seeded random walks from the deepest kept states up to length 4 (every step executed and checked)
    if n_walks and frontier:
        B.exhaustive = not B.thorough   # quick: the stated exhaustive part (length <= 2) is complete; the walks are extra
        tasks = []
        for w in range(n_walks):
            st = frontier[B.rng.randrange(len(frontier))]
            tasks.append((st, tmp, f"w{w}", B.rng.randrange(1 << 30), 4 - st[3]))
        results = pool.map(walk_task, tasks, chunksize=4) if pool else map(walk_task, tasks)
        for recs in results:
            replay(B, recs)
    if pool:
        pool.close()
        pool.join()
    B.bound += f"; distinct model states per length: {nstates}"


def replay(B, recs):
    for contract, cond, case, observed, expected, nt, sig in recs:
        B.check(contract, cond, case, observed, expected, nt, sig)


if __name__ == "__main__":
    sys.exit(main())
