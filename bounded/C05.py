"""C05 bounded stand-in: every valid input record is counted once, in the pixel
that contains it.

The REAL sanitizers / aggregators / text loaders / tabix loader are run on
exhaustively enumerated small record multisets and compared with an independent
per-record recount (linear scan of the bin table, plain python):

  * python API  sanitize_records (+aggregate_records, +create_cooler): every
    ordered pair of ALL positions of every chromosome of every bin table, both
    triangle orientations, zero/one-based, reflect/drop/None/raise, sided extra
    fields, string and pre-enumerated chromosomes, unknown chromosomes;
    out-of-bounds positions (-1, clen, clen+1) on either side must be rejected;
  * python API  sanitize_pixels: every (bin1, bin2) in [0,n)^2;
  * `cooler load -f bg2|coo`, `cooler cload pairs` (column permutations of a
    6-column file), `cooler cload tabix` (pysam builds the index) in-process.

Nothing here is derived from what the library does: `expect()` below is the
property statement, record by record.
"""
import sys, os
sys.path.insert(0, os.path.dirname(os.path.dirname(os.path.abspath(__file__))))
import collections
import itertools
import logging
import warnings

warnings.simplefilter("ignore")
import numpy as np
import h5py
import cooler
from cooler.create import (BadInputError, aggregate_records, create_cooler, sanitize_pixels, sanitize_records)
from bounded.common import *

Counter = collections.Counter


# ------------------------------------------------------------------ plumbing
def quiet_logging():
    """the CLI switches the library logger to INFO on a stream captured by the
    first CliRunner call; pin the context and drop the handlers instead"""
    from cooler._logging import set_logging_context
    set_logging_context("cli")
    lg = logging.getLogger("cooler")
    for h in lg.handlers[:]:
        lg.removeHandler(h)
    lg.addHandler(logging.NullHandler())
    pw = logging.getLogger("py.warnings")
    pw.addHandler(logging.NullHandler())
    pw.propagate = False
    logging.raiseExceptions = False


def limit_failures(B, per_sig=1):
    """record at most `per_sig` violations per signature (further ones are still
    counted as evaluations) so that one failure class cannot crowd out another"""
    orig = B.fail
    seen = Counter()

    def fail(contract, case, observed, expected, signature=None):
        sig = signature or contract
        seen[sig] += 1
        if seen[sig] > per_sig:
            B.evaluations += 1
            B.contracts[contract] = B.contracts.get(contract, 0) + 1
            return
        orig(contract, case, observed, expected, sig)
    B.fail = fail
    B.max_violations = 10 ** 6
    B.sig_seen = seen


def guarded(B, contract, case, fn, kind=""):
    """B.guarded with a signature that names the exception class and input kind"""
    try:
        return fn()
    except Exception as e:  # noqa: BLE001
        B.fail(contract, case, f"{type(e).__name__}: {str(e)[:300]}", "no exception",
               f"{contract}:{kind + ':' if kind else ''}exception:{exc_class(e)}")
        return None


def exc_class(e):
    s = str(e)
    if "No objects to concatenate" in s:
        return "No-objects-to-concatenate"
    return type(e).__name__


# ------------------------------------------------------------------ scope: bin tables
def _var(spec):
    rows = []
    for c, edges in spec.items():
        for s, e in zip(edges[:-1], edges[1:]):
            rows.append((c, s, e))
    return pd.DataFrame(rows, columns=["chrom", "start", "end"])


class Table:
    """a bin table with an independent (linear-scan) position -> bin map"""

    def __init__(self, name, bins):
        self.name = name
        self.bins = bins.reset_index(drop=True)
        self.rows = [(str(c), int(s), int(e)) for c, s, e in zip(bins["chrom"], bins["start"], bins["end"])]
        self.chroms = list(dict.fromkeys(r[0] for r in self.rows))
        self.cid = {c: i for i, c in enumerate(self.chroms)}
        self.clen = {c: max(e for cc, s, e in self.rows if cc == c) for c in self.chroms}
        self.n = len(self.rows)
        self._binof = {}
        for k, (c, s, e) in enumerate(self.rows):
            for q in range(s, e):
                assert (c, q) not in self._binof
                self._binof[(c, q)] = k
        # kind of table (own analysis, used only in failure signatures)
        widths = {}
        long_last = False
        inner = set()
        for c in self.chroms:
            w = [e - s for cc, s, e in self.rows if cc == c]
            widths[c] = w
            inner.update(w[:-1])
        if len(inner) == 1:
            w0 = next(iter(inner))
            long_last = any(w[-1] > w0 for w in widths.values())
            self.kind = "fixed-width-but-a-last-bin-is-longer" if long_last else "fixed-width"
        else:
            self.kind = "variable-width"

    def binof(self, c, q):
        return self._binof[(c, q)]

    def edge_positions(self, c):
        """bin starts, last position of each bin, one interior position of wide bins"""
        out = set()
        for cc, s, e in self.rows:
            if cc == c:
                out.update({s, e - 1})
                if e - s > 2:
                    out.add(s + (e - s) // 2)
        return sorted(out)

    def all_positions(self, c):
        return list(range(self.clen[c]))


def tables(B):
    out = [Table(n, b) for n, b in bin_tables(small=False)]
    # variable-width tables on which a whole-table "bin size" is NOT truthful:
    out.append(Table("fixed10+long-one-bin-chrom", _var({"chr1": [0, 10, 20, 30], "chrM": [0, 25]})))
    out.append(Table("long-one-bin-chrom-first", _var({"chrA": [0, 25], "chr1": [0, 10, 20, 28]})))
    if B.thorough:
        out.append(Table("width1-bins", _var({"u": [0, 1, 2, 3], "v": [0, 1]})))
        out.append(Table("four-chroms-mixed", _var({"c1": [0, 4, 8, 11], "c2": [0, 5], "c3": [0, 4, 8], "c4": [0, 2, 9, 10]})))
        for i in range(10):
            spec = {}
            for c in range(B.rng.randint(1, 4)):
                if B.rng.random() < 0.5:
                    w = B.rng.randint(1, 9)
                    ln = B.rng.randint(1, 4 * w)
                    edges = list(range(0, ln, w)) + [ln]
                else:
                    edges = [0]
                    for _ in range(B.rng.randint(1, 5)):
                        edges.append(edges[-1] + B.rng.randint(1, 12))
                spec[f"r{c}"] = edges
            out.append(Table(f"random{i}", _var(spec)))
    return out


UNKNOWN = "chrUn"


# ------------------------------------------------------------------ the property, record by record
def expect(T, rec, z, tril):
    """rec = (name1, p1, name2, p2) as written in the input; z = 1 for one-based.
    -> ("dropped-unknown",) | ("rejected", why) | ("dropped-lower",) | ("pixel", b1, b2, swapped)"""
    n1, p1, n2, p2 = rec
    if n1 not in T.cid or n2 not in T.cid:
        return ("dropped-unknown",)
    q1, q2 = p1 - z, p2 - z
    why = []
    for q, n in ((q1, n1), (q2, n2)):
        if q < 0:
            why.append("negative")
        elif q == T.clen[n]:
            why.append("eq-chromlen")
        elif q > T.clen[n]:
            why.append("gt-chromlen")
    if why:
        return ("rejected", why[0])
    lower = (T.cid[n1], q1) > (T.cid[n2], q2)
    if lower:
        if tril == "drop":
            return ("dropped-lower",)
        if tril == "raise":
            return ("rejected", "lower-triangle")
        if tril == "reflect":
            return ("pixel", T.binof(n2, q2), T.binof(n1, q1), True)
    return ("pixel", T.binof(n1, q1), T.binof(n2, q2), False)


def recount(T, recs, z, tril, values=None):
    """-> ("rejected", why) if the multiset must be rejected, else (Counter pixel -> total, retained)"""
    tot = Counter()
    retained = 0
    for i, r in enumerate(recs):
        e = expect(T, r, z, tril)
        if e[0] == "rejected":
            return ("rejected", e[1])
        if e[0] == "pixel":
            tot[(e[1], e[2])] += 1 if values is None else values[i]
            retained += 1
    return (tot, retained)


# ------------------------------------------------------------------ record multisets
def all_pairs(T, positions):
    pts = [(c, q) for c in T.chroms for q in positions(c)]
    return [(c1, q1, c2, q2) for (c1, q1) in pts for (c2, q2) in pts]


def unknown_records(T):
    """records on an unlisted chromosome (either side, both sides) incl. wild positions: dropped, never an error"""
    c, L = T.chroms[-1], T.clen[T.chroms[-1]]
    return [(UNKNOWN, 0, c, 0), (c, L - 1, UNKNOWN, 5), (UNKNOWN, 3, UNKNOWN, 4), (UNKNOWN, 10 ** 6, c, 0),
            (c, 0, UNKNOWN, 10 ** 6), (T.chroms[0], 0, UNKNOWN, 0)]


def shift(recs, z):
    return [(n1, q1 + z, n2, q2 + z) for n1, q1, n2, q2 in recs]


def frame(T, recs, schema, decode):
    a = "pos" if schema == "pairs" else "start"
    n = len(recs)
    cols = {"chrom1": [r[0] for r in recs], a + "1": np.array([r[1] for r in recs], dtype=np.int64),
            "chrom2": [r[2] for r in recs], a + "2": np.array([r[3] for r in recs], dtype=np.int64)}
    if not decode:
        cols["chrom1"] = np.array([T.cid.get(c, -1) for c in cols["chrom1"]], dtype=np.int64)
        cols["chrom2"] = np.array([T.cid.get(c, -1) for c in cols["chrom2"]], dtype=np.int64)
    if schema == "pairs":
        cols["tag1"] = np.arange(n) * 2 + 1          # sided passenger fields
        cols["tag2"] = -(np.arange(n) * 2 + 1)
        cols["w"] = np.arange(n) % 5 + 1             # unsided passenger field
    else:
        cols["end1"] = cols["start1"] + 3
        cols["end2"] = cols["start2"] + 7
        cols["count"] = np.arange(n) % 5 + 1
    return pd.DataFrame(cols)


_SAN = {}


def sanitizer(T, schema, z, tril, decode, sort=False):
    """the library's sanitizing function for these options (built once per option set: it is a stateless partial)"""
    key = (T.name, schema, z, tril, decode, sort)
    if key not in _SAN:
        kw = dict(schema=schema, is_one_based=bool(z), tril_action=tril, decode_chroms=decode, sort=sort)
        if schema == "pairs":
            kw["sided_fields"] = ("chrom", "pos", "tag")
        _SAN[key] = sanitize_records(T.bins, **kw)
    return _SAN[key]


# ------------------------------------------------------------------ API: sanitize_records, per record
def api_batch(B, T, schema, z, tril, recs, decode=True, batch="all position pairs + unknown chroms"):
    """one call on a big multiset of VALID records (sanitizing is element-wise), checked record by record"""
    base = dict(table=T.name, schema=schema, one_based=z, tril=tril, decode_chroms=decode)
    df = frame(T, recs, schema, decode)
    f = sanitizer(T, schema, z, tril, decode, sort=False)
    try:
        out = f(df.copy())
    except Exception as e:  # noqa: BLE001
        # valid records only: no exception is allowed.  Find a smallest input that still fails (a single record
        # if there is one) so that the recorded case is self-contained.
        small = None
        for r in recs:
            try:
                f(frame(T, [r], schema, decode))
            except Exception as e1:  # noqa: BLE001
                small, e = [r], e1
                break
        case = dict(base, records=[list(r) for r in small]) if small else dict(base, records=len(recs), batch=batch)
        B.fail("record-to-pixel.api", case, f"{type(e).__name__}: {str(e)[:300]}", [list(expect(T, r, z, tril)) for r in (small or [])] or "no exception",
               f"record-to-pixel.api:exception:{exc_class(e)}")
        return
    a = "pos" if schema == "pairs" else "start"
    sided = ["chrom", a, "tag"] if schema == "pairs" else ["chrom", "start", "end"]
    keep = "w" if schema == "pairs" else "count"
    idx = out.index.tolist()
    B.check("each-record-at-most-once.api", len(idx) == len(set(idx)), dict(base, records=len(recs)),
            "duplicated output rows", "every input row appears at most once", signature="each-record-at-most-once.api")
    got = {}
    colnames = list(out.columns)
    for i, row in zip(idx, out.itertuples(index=False, name=None)):
        got[i] = dict(zip(colnames, row))
    inp = df.to_dict("list")
    for i, r in enumerate(recs):
        e = expect(T, r, z, tril)
        case = dict(base, record=list(r))
        g = got.get(i)
        if e[0] == "dropped-unknown":
            B.check("unknown-chrom-dropped.api", g is None, case, g, "dropped", signature="unknown-chrom-dropped.api")
        elif e[0] == "dropped-lower":
            B.check("lower-triangle-dropped.api", g is None, case, g, "dropped", signature="lower-triangle-dropped.api")
        else:
            _, b1, b2, sw = e
            if g is None:
                B.fail("record-to-pixel.api", case, "record missing from output", [b1, b2], f"record-to-pixel.api:{T.kind}")
                continue
            if int(g["bin1_id"]) == b1 and int(g["bin2_id"]) == b2:
                B.ok("record-to-pixel.api", case)
            else:
                B.fail("record-to-pixel.api", case, [int(g["bin1_id"]), int(g["bin2_id"])], [b1, b2],
                       f"record-to-pixel.api:{T.kind}")
            # sided fields travel with their anchor, other fields stay
            s1, s2 = ("2", "1") if sw else ("1", "2")
            good = all(g[fld + "1"] == inp[fld + s1][i] and g[fld + "2"] == inp[fld + s2][i] for fld in sided) \
                and g[keep] == inp[keep][i]
            B.check("sided-fields-follow-anchor.api", good, case, {k: str(v) for k, v in g.items()},
                    "sided fields swapped iff the record was mirrored", nontrivial=sw,
                    signature="sided-fields-follow-anchor.api")
    # the aggregator on the sanitizer's own output: one row per distinct pixel, count = number of records
    agg = guarded(B, "aggregate==groupby-count", dict(base, records=len(recs)), lambda: aggregate_records()(out))
    if agg is not None:
        exp = Counter(zip(out["bin1_id"].astype(int).tolist(), out["bin2_id"].astype(int).tolist()))
        obs = {(int(a_), int(b_)): int(c_) for a_, b_, c_ in zip(agg["bin1_id"], agg["bin2_id"], agg["count"])}
        B.check("aggregate==groupby-count", obs == dict(exp) and len(agg) == len(exp) and sum(obs.values()) == len(out),
                dict(base, records=len(recs)), len(agg), len(exp), nontrivial=len(out) > 0)


def agg_passengers(B, T):
    """count = number of records of the pixel, whatever the value columns hold (missing values in a passenger column
    must not change the count); value columns are aggregated as asked"""
    recs = all_pairs(T, T.edge_positions)
    df = sanitizer(T, "pairs", 0, "reflect", True)(frame(T, recs, "pairs", True))
    df["w"] = [np.nan if i % 3 == 0 else float(i % 5) for i in range(len(df))]
    case = dict(table=T.name, records=len(recs), what="every third record has w = NaN; agg={'w': 'sum'}")
    for sort in (True, False):
        agg = guarded(B, "aggregate==groupby-count", dict(case, sort=sort), lambda: aggregate_records(sort=sort, agg={"w": "sum"})(df.copy()))
        if agg is None:
            continue
        exp, expw = Counter(), Counter()
        for a_, b_, w_ in zip(df["bin1_id"], df["bin2_id"], df["w"]):
            exp[(int(a_), int(b_))] += 1
            expw[(int(a_), int(b_))] += 0.0 if w_ != w_ else w_
        obs = {(int(a_), int(b_)): int(c_) for a_, b_, c_ in zip(agg["bin1_id"], agg["bin2_id"], agg["count"])}
        obsw = {(int(a_), int(b_)): float(c_) for a_, b_, c_ in zip(agg["bin1_id"], agg["bin2_id"], agg["w"])}
        B.check("aggregate==groupby-count", obs == dict(exp) and obsw == dict(expw) and len(agg) == len(exp), dict(case, sort=sort),
                _diff(obs, exp), "group sizes", signature="aggregate==groupby-count:nan-passenger")


def api_invalid(B, T, schema, z, tril, decode=True, full=True):
    """a record with a position outside its chromosome makes the call fail (never lands in a bin)"""
    base = dict(table=T.name, schema=schema, one_based=z, tril=tril, decode_chroms=decode)
    f = sanitizer(T, schema, z, tril, decode)
    first, last = T.chroms[0], T.chroms[-1]
    for c in T.chroms:
        L = T.clen[c]
        for why, q in (("negative", -1), ("eq-chromlen", L), ("gt-chromlen", L + 1)):
            for side in (1, 2):
                partners = sorted({(first, 0), (last, T.clen[last] - 1), (c, 0)}) if full else [(first, 0), (last, T.clen[last] - 1)][side - 1:side]
                for (pc, pq) in partners:
                    bad = (c, q, pc, pq) if side == 1 else (pc, pq, c, q)
                    for ctx in ("alone", "last-of-3") if full else ("alone",) if why == "negative" else ("last-of-3",):
                        recs = [bad] if ctx == "alone" else [(first, 0, first, 0), (first, 0, last, T.clen[last] - 1), bad]
                        recs_in = shift(recs, z)
                        case = dict(base, records=[list(r) for r in recs_in], invalid=why, side=side)
                        assert recount(T, recs_in, z, tril)[0] == "rejected"
                        try:
                            out = f(frame(T, recs_in, schema, decode))
                            B.fail("invalid-position-rejected.api", case,
                                   "accepted -> " + str(out[["bin1_id", "bin2_id"]].values.tolist()), "BadInputError",
                                   f"invalid-position-rejected.api:{why}")
                        except BadInputError:
                            B.ok("invalid-position-rejected.api", case)
                        except Exception as e:  # noqa: BLE001  (the validator let it through; something later broke)
                            B.fail("invalid-position-rejected.api", case, f"not rejected by validation; later {type(e).__name__}: {e}",
                                   "BadInputError", f"invalid-position-rejected.api:{why}")


def api_raise(B, T, z, recs):
    """tril_action='raise': a one-record call raises iff the record is lower-triangle"""
    f = sanitizer(T, "pairs", z, "raise", True)
    base = dict(table=T.name, schema="pairs", one_based=z, tril="raise")
    for r in recs:
        rin = shift([r], z)
        e = expect(T, rin[0], z, "raise")
        case = dict(base, records=[list(rin[0])])
        try:
            out = f(frame(T, rin, "pairs", True))
            ok = e[0] == "pixel" and [int(out["bin1_id"].iloc[0]), int(out["bin2_id"].iloc[0])] == [e[1], e[2]]
            B.check("tril-raise.api", ok, case, "returned " + str(out[["bin1_id", "bin2_id"]].values.tolist()), list(e),
                    nontrivial=False, signature=f"tril-raise.api:{T.kind}")
        except BadInputError:
            B.check("tril-raise.api", e[0] == "rejected", case, "BadInputError", list(e), signature="tril-raise.api")
        except Exception as ex:  # noqa: BLE001
            B.fail("tril-raise.api", case, f"{type(ex).__name__}: {ex}", list(e), "tril-raise.api:exception")


def api_order_chunking(B, T, z, tril, recs, orders, chunk_sizes, sorts=(False, True), multiset="edge-positions"):
    """the result does not depend on record order or chunking; = recount"""
    base = dict(table=T.name, schema="pairs", one_based=z, tril=tril)
    model, retained = recount(T, recs, z, tril)
    for oname, perm in orders:
        rr = [recs[i] for i in perm]
        for cs in chunk_sizes:
            case = dict(base, order=oname, chunksize=cs, records=len(rr) if len(rr) > 16 else [list(r) for r in rr], multiset=multiset, seed=B.seed)
            chunks = [rr[i:i + cs] for i in range(0, len(rr), cs)]
            for sort in sorts:
                f = sanitizer(T, "pairs", z, tril, True, sort=sort)
                agg = aggregate_records(sort=sort)

                def run():
                    tot = Counter()
                    for ch in chunks:
                        o = agg(f(frame(T, ch, "pairs", True)))
                        if sort:
                            keys = list(zip(o["bin1_id"], o["bin2_id"]))
                            assert keys == sorted(keys), "sort=True output not sorted"
                        for a_, b_, c_ in zip(o["bin1_id"], o["bin2_id"], o["count"]):
                            tot[(int(a_), int(b_))] += int(c_)
                    return tot
                tot = guarded(B, "order-and-chunking-independent.api", dict(case, sort=sort), run, T.kind)
                if tot is not None:
                    B.check("order-and-chunking-independent.api", dict(tot) == dict(model) and sum(tot.values()) == retained,
                            dict(case, sort=sort), _diff(tot, model), "recount", nontrivial=retained > 0,
                            signature=f"order-and-chunking-independent.api:{T.kind}")


def _diff(got, exp, n=6):
    got, exp = dict(got), dict(exp)
    d = []
    for k in sorted(set(got) | set(exp)):
        if got.get(k, 0) != exp.get(k, 0):
            d.append((list(k), got.get(k, 0), exp.get(k, 0)))
    return {"pixel,got,expected": d[:n], "differing": len(d), "sum_got": sum(got.values()), "sum_expected": sum(exp.values())}


def read_pixels(path, group="/", col="count"):
    with h5py.File(path, "r") as f:
        g = f[group]
        b1 = g["pixels/bin1_id"][:].tolist()
        b2 = g["pixels/bin2_id"][:].tolist()
        v = g["pixels/" + col][:].tolist()
    tot = Counter()
    for a_, b_, c_ in zip(b1, b2, v):
        tot[(int(a_), int(b_))] += c_
    tot = Counter({k: x for k, x in tot.items() if x != 0})
    return tot, len(set(zip(b1, b2))) != len(b1)


# ------------------------------------------------------------------ API: sanitize_pixels (COO records)
def expect_pixel(n, rec, z, tril):
    b1, b2 = rec[0] - z, rec[1] - z
    if b1 > b2:
        if tril == "drop":
            return ("dropped-lower",)
        if tril == "raise":
            return ("rejected", "lower-triangle")
        if tril == "reflect":
            return ("pixel", b2, b1, True)
    return ("pixel", b1, b2, False)


def api_pixels(B, T, z, tril):
    n = T.n
    recs = [(i + z, j + z) for i in range(n) for j in range(n)]
    base = dict(table=T.name, n_bins=n, one_based=z, tril=tril)
    df0 = pd.DataFrame({"bin1_id": [r[0] for r in recs], "bin2_id": [r[1] for r in recs],
                        "tag1": np.arange(len(recs)) + 1, "tag2": -np.arange(len(recs)) - 1, "count": np.arange(len(recs)) % 7 + 1})
    for sort in (False, True):
        f = sanitize_pixels(T.bins, is_one_based=bool(z), tril_action=tril, sided_fields=("tag",), sort=sort)
        if tril == "raise":
            if sort:
                continue
            for i, r in enumerate(recs):
                e = expect_pixel(n, r, z, tril)
                case = dict(base, record=list(r))
                try:
                    o = f(df0.iloc[[i]].copy())
                    B.check("pixel-record.api", e[0] == "pixel" and [int(o["bin1_id"].iloc[0]), int(o["bin2_id"].iloc[0])] == [e[1], e[2]],
                            case, o.values.tolist(), list(e), nontrivial=False)
                except BadInputError:
                    B.check("pixel-record.api", e[0] == "rejected", case, "BadInputError", list(e))
                except Exception as ex:  # noqa: BLE001
                    B.fail("pixel-record.api", case, f"{type(ex).__name__}: {ex}", list(e), "pixel-record.api:exception")
            continue
        out = guarded(B, "pixel-record.api", dict(base, sort=sort), lambda: f(df0.copy()))
        if out is None:
            continue
        if sort:
            keys = list(zip(out["bin1_id"], out["bin2_id"]))
            B.check("pixel-record.api", keys == sorted(keys), dict(base, sort=True), "unsorted", "sorted by (bin1, bin2)")
        got = {i: dict(zip(out.columns, row)) for i, row in zip(out.index, out.itertuples(index=False, name=None))}
        B.check("pixel-record.api", len(got) == len(out), dict(base, sort=sort, what="rows unique"), len(out), len(got))
        for i, r in enumerate(recs):
            e = expect_pixel(n, r, z, tril)
            case = dict(base, sort=sort, record=list(r))
            g = got.get(i)
            if e[0] == "dropped-lower":
                B.check("pixel-record.api", g is None, case, g, "dropped")
                continue
            _, b1, b2, sw = e
            t1, t2 = (df0["tag2"][i], df0["tag1"][i]) if sw else (df0["tag1"][i], df0["tag2"][i])
            ok = g is not None and (int(g["bin1_id"]), int(g["bin2_id"])) == (b1, b2) and g["tag1"] == t1 and g["tag2"] == t2 \
                and g["count"] == df0["count"][i]
            B.check("pixel-record.api", ok, case, None if g is None else {k: int(v) for k, v in g.items()}, [b1, b2, int(t1), int(t2)])


# ------------------------------------------------------------------ CLI helpers
_RUNNER = None


def run_cli(args):
    global _RUNNER
    from click.testing import CliRunner
    from cooler.cli import cli
    if _RUNNER is None:
        _RUNNER = CliRunner()
    r = _RUNNER.invoke(cli, [str(a) for a in args], catch_exceptions=True)
    err = None
    if r.exit_code != 0:
        err = f"exit {r.exit_code}: {type(r.exception).__name__}: {str(r.exception)[:200]}" if r.exception is not None and not isinstance(r.exception, SystemExit) \
            else f"exit {r.exit_code}: {r.output[-200:]}"
    return r.exit_code, err, r.exception


def write_bins(B, T):
    p = B.path(f"bins-{T.name}.bed")
    if not os.path.exists(p):
        T.bins.to_csv(p, sep="\t", header=False, index=False)
    return p


def write_rows(path, rows, header=None):
    with open(path, "w") as f:
        if header:
            f.write(header + "\n")
        for r in rows:
            f.write("\t".join(str(x) for x in r) + "\n")
    return path


def fresh(B, name):
    p = B.path(name)
    if os.path.exists(p):
        os.remove(p)
    return p


def cli_outcome(B, contract, case, args, out, model, kind, col="count", retained=None, sig_exc=True):
    """run a loader; compare the stored pixels with the recount, or demand a rejection"""
    code, err, exc = run_cli(args)
    case = dict(case, argv=[a if not str(a).startswith(B.tmp) else "<tmp>/" + os.path.basename(str(a)) for a in args])
    if model[0] == "rejected":
        name = contract.replace("record-to-pixel", "invalid-position-rejected")
        if code != 0:
            B.ok(name, case)
        else:
            tot, _ = read_pixels(out, col=col)
            B.fail(name, case, "accepted; stored pixels " + str(sorted((list(k), v) for k, v in tot.items())[:8]), "rejected (non-zero exit)",
                   f"{name}:{model[1]}")
        return
    tot_m, ret_m = model
    if code != 0:
        B.fail(contract, case, err, "cooler with the recounted pixels",
               f"{contract}:{kind}:exception:{exc_class(exc) if exc is not None else 'exit'}" if sig_exc else f"{contract}:{kind}")
        return
    try:
        tot, dup = read_pixels(out, col=col)
    except Exception as e:  # noqa: BLE001
        B.fail(contract, case, f"unreadable output: {e}", "cooler", f"{contract}:{kind}:unreadable")
        return
    ok = not dup and dict(tot) == dict(tot_m)
    if retained is not None:
        ok = ok and sum(tot.values()) == retained
    B.check(contract, ok, case, _diff(tot, tot_m), "recount", nontrivial=bool(tot_m), signature=f"{contract}:{kind}")


# ------------------------------------------------------------------ CLI: cooler load -f bg2 / coo
def pixel_records(T, mode, rng, positions="start"):
    """pre-binned records that are legal for the given copy status (no pixel twice within the input for `unique`)"""
    recs = []
    for i in range(T.n):
        for j in range(T.n):
            if mode == "unique":          # one orientation per unordered pair, chosen at random
                if j < i:
                    continue
                a, b = (i, j) if rng.random() < 0.5 else (j, i)
            else:
                a, b = i, j
            if rng.random() < 0.25 and mode != "duplex":
                continue                   # leave some pixels empty
            recs.append((a, b))
    return recs or [(0, 0)]        # never an empty input file (that is another property's business)


MODE_FLAGS = {"unique": [], "duplex": ["--input-copy-status", "duplex"], "square": ["-N"]}
MODE_TRIL = {"unique": "reflect", "duplex": "drop", "square": None}


def cli_load(B, T, chunk_sizes_of, coo=True):
    binsp = write_bins(B, T)
    for mode in ("unique", "duplex", "square"):
        tril = MODE_TRIL[mode]
        for z in (0, 1):
            binrecs = pixel_records(T, mode, B.rng)
            B.rng.shuffle(binrecs)
            vals = [k % 9 + 1 for k in range(len(binrecs))]
            # ---- bg2: anchor = start; take the bin start, or (every third record) a position inside the bin
            recs = []
            for k, (i, j) in enumerate(binrecs):
                (c1, s1, e1), (c2, s2, e2) = T.rows[i], T.rows[j]
                if k % 3 == 2:
                    s1, s2 = e1 - 1, s2 + (e2 - s2) // 2
                recs.append((c1, s1 + z, c2, s2 + z))
            recs += unknown_records(T)[:3]
            vals_bg2 = vals + [4, 5, 6]
            rows = [(n1, p1, p1 + 1, n2, p2, p2 + 1, v) for (n1, p1, n2, p2), v in zip(recs, vals_bg2)]
            model = recount(T, recs, z, tril, vals_bg2)
            for cs in chunk_sizes_of(len(rows), z):
                inp = write_rows(B.path("in.bg2"), rows)
                out = fresh(B, "load.cool")
                args = ["load", "-f", "bg2", binsp, inp, out, "--chunksize", cs, "--mergebuf", 10 ** 6] + MODE_FLAGS[mode] + (["--one-based"] if z else [])
                cli_outcome(B, "record-to-pixel.load-bg2", dict(table=T.name, mode=mode, one_based=z, chunksize=cs, rows=[list(r) for r in rows]),
                            args, out, model, T.kind)
            # ---- coo (depends on the table only through the number of bins)
            if not coo:
                continue
            rows = [(i + z, j + z, v) for (i, j), v in zip(binrecs, vals)]
            exp = Counter()
            for (i, j), v in zip(binrecs, vals):
                e = expect_pixel(T.n, (i, j), 0, tril)
                if e[0] == "pixel":
                    exp[(e[1], e[2])] += v
            for cs in chunk_sizes_of(len(rows), z):
                inp = write_rows(B.path("in.coo"), rows)
                out = fresh(B, "load.cool")
                args = ["load", "-f", "coo", binsp, inp, out, "--chunksize", cs, "--mergebuf", 10 ** 6] + MODE_FLAGS[mode] + (["--one-based"] if z else [])
                cli_outcome(B, "record-to-pixel.load-coo", dict(table=T.name, mode=mode, one_based=z, chunksize=cs, rows=[list(r) for r in rows]),
                            args, out, (exp, None), "coo")


def cli_load_accumulate(B, T):
    """the same pixel given in different chunks accumulates (pre-binned records are summed, each once)"""
    binsp = write_bins(B, T)
    (c1, s1, e1), (c2, s2, e2) = T.rows[0], T.rows[-1]
    recs = [(c1, s1, c2, s2), (c2, s2, c1, s1), (c1, s1, c1, s1), (c1, s1, c2, e2 - 1), (c2, s2, c2, s2), (c1, e1 - 1, c1, s1)]
    vals = [1, 2, 4, 8, 16, 32]
    rows = [(n1, p1, p1 + 1, n2, p2, p2 + 1, v) for (n1, p1, n2, p2), v in zip(recs, vals)]
    model = recount(T, recs, 0, "reflect", vals)
    inp = write_rows(B.path("acc.bg2"), rows)
    out = fresh(B, "acc.cool")
    cli_outcome(B, "record-to-pixel.load-bg2", dict(table=T.name, mode="unique", one_based=0, chunksize=1, rows=[list(r) for r in rows], what="same pixel in several chunks"),
                ["load", "-f", "bg2", binsp, inp, out, "--chunksize", 1, "--mergebuf", 10 ** 6], out, model, T.kind)


def invalid_combos(B, T, light):
    """(base, chrom, kind, 0-based position, side) of the out-of-bounds anchor.  thorough: the full product; quick: the
    boundary kind (== length) on both sides, the two others on one side each; `light`: zero-based only"""
    for z in (0,) if light else (0, 1):
        for c in T.chroms:
            L = T.clen[c]
            for why, q in (("negative", -1), ("eq-chromlen", L), ("gt-chromlen", L + 1)):
                for side in (1, 2):
                    if not B.thorough and ((why == "negative" and side == 2) or (why == "gt-chromlen" and side == 1)):
                        continue
                    yield z, c, why, q, side


def cli_load_invalid(B, T, light=False):
    """out-of-bounds start / bin id in a pre-binned file is rejected"""
    binsp = write_bins(B, T)
    first, last = T.chroms[0], T.chroms[-1]
    for z, c, why, q, side in invalid_combos(B, T, light):
        bad = (c, q + z, first, 0 + z) if side == 1 else (last, T.clen[last] - 1 + z, c, q + z)
        recs = [(first, 0 + z, last, T.clen[last] - 1 + z), bad]
        rows = [(n1, p1, p1 + 1, n2, p2, p2 + 1, 1) for (n1, p1, n2, p2) in recs]
        model = recount(T, recs, z, "reflect")
        assert model[0] == "rejected"
        inp = write_rows(B.path("bad.bg2"), rows)
        out = fresh(B, "bad.cool")
        cli_outcome(B, "record-to-pixel.load-bg2", dict(table=T.name, one_based=z, rows=[list(r) for r in rows], invalid=why, side=side),
                    ["load", "-f", "bg2", binsp, inp, out] + (["--one-based"] if z else []), out, model, T.kind)
    if light:
        return
    for z in (0, 1):
        for why, b in (("negative-id", -1), ("id-eq-nbins", T.n), ("id-gt-nbins", T.n + 1)):
            for side in (1, 2):
                rows = [(0 + z, T.n - 1 + z, 1), ((b + z, T.n - 1 + z, 1) if side == 1 else (0 + z, b + z, 1))]
                inp = write_rows(B.path("bad.coo"), rows)
                out = fresh(B, "bad.cool")
                cli_outcome(B, "record-to-pixel.load-coo", dict(table=T.name, one_based=z, rows=[list(r) for r in rows], invalid=why, side=side),
                            ["load", "-f", "coo", binsp, inp, out] + (["--one-based"] if z else []), out, ("rejected", why), "coo")


def cli_load_fields(B, T):
    """value columns selected by --field numbers land with their own record, for every placement of count / w"""
    binsp = write_bins(B, T)
    binrecs = [(i, j) for i in range(T.n) for j in range(i, T.n)]
    cnt = [k % 5 + 1 for k in range(len(binrecs))]
    w = [10 * (k % 7) + 10 for k in range(len(binrecs))]
    junk = [777] * len(binrecs)
    for perm in itertools.permutations([7, 8, 9]):
        c_col, w_col, j_col = perm
        rows = []
        for k, (i, j) in enumerate(binrecs):
            (c1, s1, e1), (c2, s2, e2) = T.rows[i], T.rows[j]
            extra = {c_col: cnt[k], w_col: w[k], j_col: junk[k]}
            rows.append((c1, s1, e1, c2, s2, e2, extra[7], extra[8], extra[9]))
        inp = write_rows(B.path("fields.bg2"), rows)
        for order in ("count-first", "w-first"):
            flds = ["--field", f"count={c_col}", "--field", f"w={w_col}:dtype=int"]
            if order == "w-first":
                flds = flds[2:] + flds[:2]
            listed = [c_col, w_col] if order == "count-first" else [w_col, c_col]
            kind = "ascending-field-numbers" if listed == sorted(listed) else "non-ascending-field-numbers"
            out = fresh(B, "fields.cool")
            case = dict(table=T.name, count_col=c_col, w_col=w_col, option_order=order, rows=[list(r) for r in rows])
            cli_outcome(B, "value-field-to-own-record.load-bg2", dict(case, column="count"), ["load", "-f", "bg2", binsp, inp, out] + flds, out,
                        (Counter(dict(zip(binrecs, cnt))), None), kind, col="count", sig_exc=False)
            if os.path.exists(out):     # the second value column of the same output
                try:
                    tot, dup = read_pixels(out, col="w")
                    B.check("value-field-to-own-record.load-bg2", not dup and dict(tot) == dict(zip(binrecs, w)), dict(case, column="w"),
                            _diff(tot, dict(zip(binrecs, w))), "w of the same record", signature=f"value-field-to-own-record.load-bg2:{kind}")
                except Exception as e:  # noqa: BLE001
                    B.fail("value-field-to-own-record.load-bg2", dict(case, column="w"), f"{type(e).__name__}: {e}", "w of the same record",
                           f"value-field-to-own-record.load-bg2:{kind}")


# ------------------------------------------------------------------ CLI: cooler cload pairs
def pairs_multiset(T, rng, extra_dups=8):
    recs = all_pairs(T, T.edge_positions)
    recs += [recs[rng.randrange(len(recs))] for _ in range(extra_dups)]   # multiplicities > 1
    recs += unknown_records(T)
    rng.shuffle(recs)
    return recs


def cli_cload_pairs(B, T, chunk_sizes_of, default_mergebuf=False):
    binsp = write_bins(B, T)
    for mode in ("unique", "duplex", "square"):
        tril = MODE_TRIL[mode]
        for z in (0, 1):
            recs = shift(pairs_multiset(T, B.rng), z)
            model = recount(T, recs, z, tril)
            inp = write_rows(B.path("in.pairs"), recs, header="## pairs format v1.0\n#columns: chrom1 pos1 chrom2 pos2")
            for cs in chunk_sizes_of(len(recs), z):
                out = fresh(B, "cload.cool")
                args = ["cload", "pairs", "-c1", 1, "-p1", 2, "-c2", 3, "-p2", 4, "--chunksize", cs] + \
                       ([] if default_mergebuf else ["--mergebuf", 10 ** 6]) + MODE_FLAGS[mode] + (["-0"] if not z else []) + [binsp, inp, out]
                cli_outcome(B, "record-to-pixel.cload-pairs",
                            dict(table=T.name, mode=mode, one_based=z, chunksize=cs, mergebuf="=chunksize" if default_mergebuf else "large",
                                 multiset="edge-position pairs + duplicates + unknown chroms", seed=B.seed, rows=[list(r) for r in recs]),
                            args, out, model, T.kind + (":mergebuf=chunksize" if default_mergebuf else ""), retained=model[1])


def cli_cload_invalid(B, T, light=False):
    binsp = write_bins(B, T)
    first, last = T.chroms[0], T.chroms[-1]
    for z, c, why, q, side in invalid_combos(B, T, light):
        bad = (c, q + z, first, 0 + z) if side == 1 else (last, T.clen[last] - 1 + z, c, q + z)
        recs = [(first, 0 + z, last, T.clen[last] - 1 + z), bad]
        model = recount(T, recs, z, "reflect")
        assert model[0] == "rejected"
        inp = write_rows(B.path("bad.pairs"), recs)
        out = fresh(B, "bad.cool")
        cli_outcome(B, "record-to-pixel.cload-pairs", dict(table=T.name, one_based=z, rows=[list(r) for r in recs], invalid=why, side=side),
                    ["cload", "pairs", "-c1", 1, "-p1", 2, "-c2", 3, "-p2", 4] + (["-0"] if not z else []) + [binsp, inp, out],
                    out, model, T.kind)


FIELDS6 = ["chrom1", "pos1", "chrom2", "pos2", "w", "junk"]


def cli_cload_permutations(B, T, perms):
    """a 6-column file; each logical field may live in any column; the loader is told where"""
    binsp = write_bins(B, T)
    recs = shift(pairs_multiset(T, B.rng, extra_dups=4), 1)
    wv = [k % 4 + 1 for k in range(len(recs))]
    for perm in perms:                       # perm[k] = column (1-based) of FIELDS6[k]
        col = dict(zip(FIELDS6, perm))
        rows = []
        for r, w in zip(recs, wv):
            vals = {"chrom1": r[0], "pos1": r[1], "chrom2": r[2], "pos2": r[3], "w": w, "junk": "x"}
            row = [None] * 6
            for k, fld in enumerate(FIELDS6):
                row[perm[k] - 1] = vals[fld]
            rows.append(row)
        inp = write_rows(B.path("perm.pairs"), rows)
        listed = [col["chrom1"], col["pos1"], col["chrom2"], col["pos2"], col["w"]]
        kind = "ascending-field-numbers" if listed == sorted(listed) else "non-ascending-field-numbers"
        for mode in ("square", "unique") if (B.thorough or perm[4:] != (5, 6) or perm[0] == 1) else ("square",):
            tril = MODE_TRIL[mode]
            base = ["cload", "pairs", "-c1", col["chrom1"], "-p1", col["pos1"], "-c2", col["chrom2"], "-p2", col["pos2"],
                    "--field", f"w={col['w']}"] + MODE_FLAGS[mode] + [binsp, inp]
            case = dict(table=T.name, mode=mode, columns=col, seed=B.seed, rows=[list(r) for r in rows])
            out = fresh(B, "perm.cool")
            cli_outcome(B, "record-to-pixel.cload-pairs-columns", dict(case, column="count"), base + [out], out,
                        recount(T, recs, 1, tril), kind, sig_exc=False)
            if os.path.exists(out):
                # the value field, summed per pixel, from the same output file
                model_w = recount(T, recs, 1, tril, wv)
                try:
                    tot, dup = read_pixels(out, col="w")
                    B.check("value-field-to-own-record.cload-pairs", not dup and dict(tot) == dict(model_w[0]), dict(case, column="w"),
                            _diff(tot, model_w[0]), "recount of w", signature=f"value-field-to-own-record.cload-pairs:{kind}")
                except Exception as e:  # noqa: BLE001
                    B.fail("value-field-to-own-record.cload-pairs", dict(case, column="w"), f"{type(e).__name__}: {e}", "recount of w",
                           f"value-field-to-own-record.cload-pairs:{kind}")


# ------------------------------------------------------------------ CLI: cooler cload tabix
def tabix_file(B, rows, zero_based):
    import pysam
    p = B.path("tbx.pairs")
    for q in (p, p + ".gz", p + ".gz.tbi"):
        if os.path.exists(q):
            os.remove(q)
    write_rows(p, rows)
    return pysam.tabix_index(p, seq_col=0, start_col=1, end_col=1, zerobased=bool(zero_based), force=True)


def cli_cload_tabix(B, T, splits=(1, 2, 3), layouts=("c1 p1 s1 c2 p2 s2",), invalid=True, light=False):
    """precondition of this loader (as produced by `cooler csort`): upper-triangle records sorted by (chrom1, pos1)"""
    binsp = write_bins(B, T)
    valid = [r for r in all_pairs(T, T.edge_positions) if (T.cid[r[0]], r[1]) <= (T.cid[r[2]], r[3])]
    valid += [valid[B.rng.randrange(len(valid))] for _ in range(6)]
    c0 = T.chroms[0]
    unk = [(c0, 0, UNKNOWN, 3), (T.chroms[-1], T.clen[T.chroms[-1]] - 1, UNKNOWN, 0), (UNKNOWN, 2, UNKNOWN, 9)]
    for z in (0, 1):
        recs = shift(valid + unk, z)
        recs.sort(key=lambda r: (T.cid.get(r[0], 99), r[1]))
        model = recount(T, recs, z, None)
        for layout in layouts:
            if layout == "c1 p1 s1 c2 p2 s2":
                rows = [(r[0], r[1], "+", r[2], r[3], "-") for r in recs]
                extra = []
            else:  # "c1 p1 c2 p2"
                rows = list(recs)
                extra = ["-c2", 3, "-p2", 4]
            gz = guarded(B, "record-to-pixel.cload-tabix", dict(table=T.name, step="pysam.tabix_index"), lambda: tabix_file(B, rows, not z))
            if gz is None:
                continue
            for s in splits:
                out = fresh(B, "tbx.cool")
                args = ["cload", "tabix", "-p", 1, "-s", s] + extra + (["-0"] if not z else []) + [binsp, gz, out]
                cli_outcome(B, "record-to-pixel.cload-tabix",
                            dict(table=T.name, one_based=z, layout=layout, max_split=s, seed=B.seed, rows=[list(r) for r in rows],
                                 multiset="upper-triangle edge-position pairs + duplicates + unknown chroms, sorted"),
                            args, out, model, T.kind, retained=model[1])
    if not invalid:
        return
    # out-of-bounds positions. The statement wants them rejected and never binned elsewhere: two contracts.
    first, last = T.chroms[0], T.chroms[-1]
    good = (first, 0, last, T.clen[last] - 1)
    for z in (0,) if light else (0, 1):
        cases = []
        for c in T.chroms:
            L = T.clen[c]
            for why, q in (("negative", -1), ("eq-chromlen", L), ("gt-chromlen", L + 1)):
                if T.cid[c] >= T.cid[first]:
                    cases.append((f"pos2-{why}", (first, 0, c, q)))
            for why, q in (("eq-chromlen", L), ("gt-chromlen", L + 1)):
                cases.append((f"pos1-{why}", (c, q, last, T.clen[last] - 1)))
        for why, bad in cases:
            recs = shift([good, bad], z)
            if min(recs[1][1], recs[1][3]) < 0:
                continue   # a negative number cannot be written in this file format's index column
            recs.sort(key=lambda r: (T.cid.get(r[0], 99), r[1]))
            rows = [(r[0], r[1], "+", r[2], r[3], "-") for r in recs]
            case = dict(table=T.name, one_based=z, rows=[list(r) for r in rows], invalid=why)
            try:
                gz = tabix_file(B, rows, not z)
            except Exception:  # noqa: BLE001  (the indexer itself refuses the file: rejected before the library sees it)
                continue
            out = fresh(B, "tbx.cool")
            args = ["cload", "tabix", "-p", 1] + (["-0"] if not z else []) + [binsp, gz, out]
            case["argv"] = [a if not str(a).startswith(B.tmp) else "<tmp>/" + os.path.basename(str(a)) for a in args]
            code, err, exc = run_cli(args)
            side = why.split("-")[0]   # one signature per anchor: this loader has no validator at all (one root cause per side)
            B.check("invalid-position-rejected.cload-tabix", code != 0, case, "accepted (exit 0)", "rejected (non-zero exit)",
                    signature=f"invalid-position-rejected.cload-tabix:{side}")
            if code == 0:
                tot, dup = read_pixels(out)
                only_good = recount(T, shift([good], z), z, None)[0]
                B.check("invalid-position-never-binned.cload-tabix", dict(tot) == dict(only_good), case, _diff(tot, only_good),
                        "the out-of-bounds record contributes to no pixel",
                        signature=f"invalid-position-never-binned.cload-tabix:{side}")


# ------------------------------------------------------------------ replay of one recorded case
def replay(B):
    rec = json.load(open(B.replay_file))
    case, contract = rec["case"], rec["contract"]
    print("replaying", contract, json.dumps(case)[:600])
    T = {t.name: t for t in tables(B)}.get(case.get("table"))
    if T is not None and ".api" in contract and ("record" in case or "records" in case) and "schema" in case:
        recs = [tuple(case["record"])] if "record" in case else [tuple(r) for r in case["records"]]
        z, tril, schema, dec = case["one_based"], case["tril"], case["schema"], case.get("decode_chroms", True)
        try:
            out = sanitizer(T, schema, z, tril, dec)(frame(T, recs, schema, dec))
            print("observed:", out.to_dict("records"))
        except Exception as e:  # noqa: BLE001
            print("observed:", type(e).__name__, e)
        print("expected:", [expect(T, r, z, tril) for r in recs])
    elif T is not None and "argv" in case and isinstance(case.get("rows"), list):
        args, out = [], None
        for a in case["argv"]:
            if isinstance(a, str) and a.startswith("<tmp>/"):
                base = a[len("<tmp>/"):]
                if base.startswith("bins-"):
                    a = write_bins(B, T)
                elif base.endswith(".cool"):
                    a = out = fresh(B, base)
                elif base.endswith(".gz"):
                    a = tabix_file(B, case["rows"], "-0" in case["argv"])
                else:
                    a = write_rows(B.path(base), case["rows"])
            args.append(a)
        code, err, exc = run_cli(args)
        print("argv:", args, "\nexit code:", code, err or "")
        if code == 0 and out and os.path.exists(out):
            with h5py.File(out, "r") as f:
                print("stored pixels:", {k: f["pixels"][k][:].tolist() for k in f["pixels"]})
        print("recorded observed:", rec["observed"], "\nrecorded expected:", rec["expected"])
    else:
        print("recorded observed:", rec["observed"], "\nrecorded expected:", rec["expected"])
        print(f"(bulk case: re-run `bounded/C05.py --tier {B.tier} --seed {case.get('seed', B.seed)}`)")
    shutil.rmtree(B.tmp, ignore_errors=True)
    return 0


# ------------------------------------------------------------------ main
def main():
    B = Bounded("C05", "bounded/C05.py")
    quiet_logging()
    limit_failures(B)
    if B.replay_file:
        return replay(B)
    TT = tables(B)
    q = not B.thorough
    B.bound = (f"{len(TT)} bin tables (fixed with short last bin, exact multiple, variable, one-bin chroms, single chrom, 3 chroms, long last bin, "
               f"long one-bin chrom{', width-1 bins, 4 chroms mixed, 10 seeded random tables' if B.thorough else ''}). ENUMERATED per table: "
               "sanitize_records on every ordered pair of ALL positions 0..clen-1 of all chroms (+6 unknown-chromosome records) "
               + ("zero-based, and of all bin-edge positions one-based, " if q else "x {zero,one}-based ")
               + "x {reflect,drop,None} x {pairs schema; bg2 schema, enumerated chrom ids, chunk without dropped records"
               + (": 2 (base,tril) combinations each" if q else "") + "}, sided passenger fields; out-of-bounds q in {-1,clen,clen+1} x chrom x side x "
               "tril incl. raise x {pairs,bg2,enumerated ids}" + (" (x 3 partners x 2 contexts on the first table)" if q else " x 3 partners x 2 contexts")
               + "; raise-mode one-record calls; sanitize_pixels on all (b1,b2) in [0,n)^2 x base x tril x sort; aggregate with NaN passenger; "
               "order x chunking on all bin-edge position pairs, ALL chunk sizes 1..len+1 on a 10-record multiset; create_cooler(unordered) end to end. "
               f"CLI in-process on {'4 tables (+1 for out-of-bounds inputs)' if q else 'all tables'}: load bg2/coo x "
               "{unique,duplex,square} x base x chunk sizes, same pixel across chunks, out-of-bounds starts/ids, --field placements (6 x 2); cload pairs x "
               f"modes x base x chunk sizes (+ default mergebuf), out-of-bounds, {'all 720' if B.thorough else 'the 24 positional + 6 ascending + 6 seeded'} "
               "column permutations of a 6-column file; cload tabix x base x max-split x 2 layouts, out-of-bounds pos1/pos2; MORE CHUNKS THAN max-merge "
               f"(two-pass merge): (max_merge, chunks) in {MANY_CHUNKS_QUICK + (MANY_CHUNKS_MORE if B.thorough else [])} x "
               "{create_cooler(ordered=False), create_from_unordered, cload pairs, load bg2, load coo} with modes/base rotating. SEEDED (representatives "
               "inside the scope): shuffles, duplicate picks, orientation/holes of pre-binned inputs" + ("; random tables" if B.thorough else ""))
    B.rule = ("case = (table, schema/loader, base, tril mode, record or record multiset, order, chunking, argv); "
              "non-trivial when at least one record is retained (per-record cases: the record lies on known chromosomes); distinct by case")
    B.exhaustive = not B.thorough   # thorough adds seeded random tables / multisets beyond the enumerated scope

    # ---------------- work units (one per bin table, plus the table-independent CLI sweeps); every unit draws from its
    # own rng seeded by (seed, unit name) so that the result does not depend on how units are scheduled
    cli_names = ("fixed10-short-last", "variable", "variable-long-last", "fixed10+long-one-bin-chrom")
    inv_names = ("fixed10-exact", "variable")
    units = []
    for k, T in enumerate(TT):
        named = not T.name.startswith("random")
        do_cli = True if B.thorough else T.name in cli_names
        do_inv = (named or k % 2 == 0) if B.thorough else T.name in inv_names
        units.append((f"table:{T.name}", unit_table, (T, k == 0, do_cli, do_inv, k < 1)))
    Tv = next(t for t in TT if t.name == "variable")
    Tf = next(t for t in TT if t.name == "fixed10-short-last")
    units.append(("globals", unit_globals, (Tv, Tf)))
    allL = ("api", "cload-pairs", "load-bg2", "load-coo")
    if B.thorough:
        for T in TT:
            if T.name.startswith("random") and T.n < 3:
                continue
            units.append((f"many-chunks:{T.name}", unit_many_chunks, (T, MANY_CHUNKS_QUICK + MANY_CHUNKS_MORE, allL)))
    else:
        units.append(("many-chunks:variable", unit_many_chunks, (Tv, MANY_CHUNKS_QUICK, allL)))
        units.append(("many-chunks:fixed", unit_many_chunks, (Tf, MANY_CHUNKS_QUICK[:4], ("api", "cload-pairs"))))
    allperms = list(itertools.permutations(range(1, 7)))
    if B.thorough:
        for c in range(0, 720, 90):
            units.append((f"perms:{c}", unit_perms, (Tv, allperms[c:c + 90], None)))
        units.append(("perms:sample", unit_perms, (Tf, None, 60)))
    else:
        perms = [q + (5, 6) for q in itertools.permutations(range(1, 5))]
        perms += [q for q in allperms if list(q[:5]) == sorted(q[:5])]
        units.append(("perms:quick", unit_perms, (Tv, list(dict.fromkeys(perms)), 6)))
    run_units(B, units, workers=8 if B.thorough else 1)
    for v in B.violations:
        v["count"] = B.sig_seen[v["signature"]]
    return B.finish()


TRILS = ("reflect", "drop", None)


def unit_table(B, T, first, do_cli, do_inv, first_three=True):
    trils = TRILS
    # ---------------- python API, per record over all positions
    for z in (0, 1):
        # quick: ALL positions zero-based; one-based input (a uniform shift) on the edge positions only
        pairs0 = all_pairs(T, T.all_positions if (B.thorough or z == 0) else T.edge_positions)
        recs0 = pairs0 + unknown_records(T)
        recs = shift(recs0, z)
        for tril in trils:
            api_batch(B, T, "pairs", z, tril, recs, decode=True)
            if B.thorough or (z, tril) in ((1, "reflect"), (0, None)):
                api_batch(B, T, "bg2", z, tril, recs, decode=True)
            if B.thorough or (z, tril) in ((0, "reflect"), (1, None)):
                # chromosomes given as an enumeration (negative = not requested)
                api_batch(B, T, "pairs", z, tril, recs, decode=False)
            if B.thorough or (z, tril) in ((1, "reflect"), (0, "drop")):
                # ... and a chunk from which no record is dropped
                api_batch(B, T, "pairs", z, tril, shift(pairs0, z), decode=False, batch="all position pairs")
        for tril in trils + ("raise",):
            api_invalid(B, T, "pairs", z, tril, full=B.thorough or (tril == "reflect" and first_three))
            if B.thorough or tril == "reflect":
                api_invalid(B, T, "bg2", z, tril, full=B.thorough and tril == "reflect")
                api_invalid(B, T, "pairs", z, tril, decode=False, full=B.thorough and tril == "reflect")
        if B.thorough or (first and z == 0):
            api_raise(B, T, z, all_pairs(T, T.edge_positions))
        else:
            api_raise(B, T, z, all_pairs(T, lambda c: sorted({0, T.clen[c] - 1}) if c in (T.chroms[0], T.chroms[-1]) else []))
    for z in (0, 1):
        for tril in trils + ("raise",):
            api_pixels(B, T, z, tril)
    agg_passengers(B, T)
    # ---------------- python API, order and chunking (+ through create_cooler)
    base = all_pairs(T, T.edge_positions)
    base = base + [base[B.rng.randrange(len(base))] for _ in range(10)] + unknown_records(T)
    n = len(base)
    ident = list(range(n))
    orders = [("given", ident), ("reversed", ident[::-1])]
    for s in range(2 if B.thorough else 1):
        p = ident[:]
        B.rng.shuffle(p)
        orders.append((f"shuffle{s}", p))
    light = not B.thorough and T.name in ("fixed-3chrom", "single-chrom-fixed", "fixed10-exact")   # close relatives of the first table
    for z in () if light else (0, 1):
        for tril in trils:
            rz = shift(base, z)
            if B.thorough:
                api_order_chunking(B, T, z, tril, rz, orders, sorted({n // 4 + 1, n // 2, n - 1, n, n + 1}))
            else:
                api_order_chunking(B, T, z, tril, rz, orders[:1] + orders[2:], [n], sorts=(False,))
                api_order_chunking(B, T, z, tril, rz, orders[1:2] if z else orders[2:], [n // 4 + 1], sorts=(True,))
    # a small multiset, ALL chunk sizes 1..len+1 (one record per chunk up to everything in one chunk)
    c0, c9 = T.chroms[0], T.chroms[-1]
    e0, e9 = T.edge_positions(c0), T.edge_positions(c9)
    mini = [(c0, e0[0], c9, e9[-1]), (c9, e9[-1], c0, e0[0]), (c0, e0[-1], c0, e0[0]), (c0, e0[0], c0, e0[-1]), (c9, e9[0], c9, e9[0]),
            (UNKNOWN, 1, c0, 0), (c0, e0[len(e0) // 2], c9, e9[len(e9) // 2]), (c0, e0[-1], c0, e0[0]), (c9, e9[-1], c9, e9[-1]),
            (c0, 0, UNKNOWN, 0)]
    for z, tril in (((1, "reflect"), (0, "drop"), (0, None))[len(T.name) % 3:][:1]) if not B.thorough else [(z, t) for z in (0, 1) for t in trils]:
        api_order_chunking(B, T, z, tril, shift(mini, z), [("given", list(range(len(mini))))], list(range(1, len(mini) + 2)),
                           sorts=(True,), multiset="mini")
    # end-to-end through the unordered ingest: fewer combinations (each builds real files)
    e2e_orders = orders[:1] + orders[-1:] if B.thorough else [] if light else orders[-1:]
    for z, tril in ((1, "reflect"), (0, None), (0, "drop"), (1, "reflect"))[len(T.name) % 3:][:2] if not B.thorough else [(z, t) for z in (0, 1) for t in trils]:
        model, retained = recount(T, shift(base, z), z, tril)
        for oname, perm in e2e_orders:
            rr = [shift(base, z)[i] for i in perm]
            for cs in ([n // 3 + 1] if not B.thorough else [n // 5 + 1, n]):
                _e2e(B, T, z, tril, rr, oname, cs, model, retained)
    # ---------------- text loaders and tabix loader
    if do_inv and not do_cli:      # (quick) a second table for the out-of-bounds inputs only, zero-based only
        cli_cload_tabix(B, T, splits=(), invalid=True, light=True)
        cli_load_invalid(B, T, light=True)
        cli_cload_invalid(B, T, light=True)
    if not do_cli:
        return
    if B.thorough:
        small_sizes = lambda n, z=1: sorted({n + 1, max(1, n), max(2, n // 2), max(2, n // 4), 7})  # noqa: E731
    else:
        small_sizes = lambda n, z=1: [n + 1, max(2, n // 3)] if z else [max(2, n // 2)]  # noqa: E731
    cli_load(B, T, small_sizes, coo=B.thorough or T.name in ("variable", "fixed10-short-last"))
    cli_load_accumulate(B, T)
    cli_cload_pairs(B, T, small_sizes)
    cli_cload_tabix(B, T, splits=(1, 2, 3) if B.thorough else (1, 2),
                    layouts=("c1 p1 s1 c2 p2 s2", "c1 p1 c2 p2") if (B.thorough or T.name == "variable") else ("c1 p1 s1 c2 p2 s2",),
                    invalid=do_inv)
    if do_inv:
        cli_load_invalid(B, T)
        cli_cload_invalid(B, T)


def unit_many_chunks(B, T, combos, loaders):
    many_chunks(B, T, combos, loaders)


def unit_globals(B, Tv, Tf):
    # chunking with the loader's own default merge buffer (= chunksize)
    cli_cload_pairs(B, Tf, (lambda n, z=1: [max(2, n // 4)]) if not B.thorough else (lambda n, z=1: [2, 5, max(2, n // 4)]), default_mergebuf=True)
    cli_load_fields(B, Tv)
    if B.thorough:
        cli_load_fields(B, Tf)


def unit_perms(B, T, perms, sample):
    """column permutations of a 6-column pairs file"""
    allperms = list(itertools.permutations(range(1, 7)))
    perms = list(perms or [])
    if sample:
        rest = [q for q in allperms if q not in set(perms)]
        perms += B.rng.sample(rest, sample)
    cli_cload_permutations(B, T, perms)


_G = {}


def _run_unit(k):
    B, units = _G["B"], _G["units"]
    name, fn, args = units[k]
    B.evaluations, B.nontrivial, B.samples, B.violations, B.contracts = 0, set(), [], [], {}
    B.sig_seen.clear()
    B.tmp = os.path.join(_G["tmp"], f"u{k}")
    os.makedirs(B.tmp, exist_ok=True)
    B.rng = random.Random(f"{B.seed}:{name}")
    try:
        fn(B, *args)
    except Exception as e:  # noqa: BLE001  (a crash of the runner itself must not go unnoticed)
        B.fail("runner", dict(unit=name), f"{type(e).__name__}: {e}\n{traceback.format_exc(limit=6)}", "unit completes", f"runner:crash:{name}")
    shutil.rmtree(B.tmp, ignore_errors=True)
    return dict(evaluations=B.evaluations, nontrivial={int(h[:16], 16) for h in B.nontrivial}, samples=B.samples, violations=B.violations,
                contracts=B.contracts, seen=dict(B.sig_seen))


def run_units(B, units, workers):
    _G.update(B=B, units=units, tmp=B.tmp)
    if workers > 1:
        import multiprocessing as mp
        with mp.get_context("fork").Pool(min(workers, len(units))) as pool:
            results = pool.map(_run_unit, range(len(units)), chunksize=1)
    else:
        results = [_run_unit(k) for k in range(len(units))]
    B.tmp = _G["tmp"]
    ev, nt, samples, viol, contracts, seen = 0, set(), [], [], {}, Counter()
    for r in results:                      # merged in unit order: deterministic
        ev += r["evaluations"]
        nt |= r["nontrivial"]
        samples += r["samples"][:2]
        for c, x in r["contracts"].items():
            contracts[c] = contracts.get(c, 0) + x
        for sgn, x in r["seen"].items():
            seen[sgn] += x
        for v in r["violations"]:
            if v["signature"] not in {w["signature"] for w in viol}:
                viol.append(v)
            elif os.path.exists(v["replay"]) and v["replay"] not in {w["replay"] for w in viol}:
                os.remove(v["replay"])      # one recorded case per signature: drop the other units' duplicates
    B.evaluations, B.nontrivial, B.samples, B.violations, B.contracts = ev, nt, samples, viol, contracts
    B.sig_seen.clear()
    B.sig_seen.update(seen)


def _e2e(B, T, z, tril, rr, oname, cs, model, retained, max_merge=None, entry="create_cooler"):
    case = dict(table=T.name, schema="pairs", one_based=z, tril=tril, order=oname, chunksize=cs,
                records=len(rr) if max_merge is None else [list(r) for r in rr],
                multiset="edge-position pairs + duplicates + unknown chroms", seed=B.seed)
    chunks = [rr[i:i + cs] for i in range(0, len(rr), cs)]
    kind = T.kind
    kw = {}
    if max_merge is not None:
        case.update(max_merge=max_merge, chunks=len(chunks), entry=entry)
        kind += ":chunks-exceed-max-merge" if len(chunks) > max_merge else ""
        kw["max_merge"] = max_merge
    f = sanitizer(T, "pairs", z, tril, True, sort=True)
    agg = aggregate_records(sort=False)
    p = fresh(B, "api-e2e.cool")

    def build():
        stream = (agg(f(frame(T, ch, "pairs", True))) for ch in chunks)
        if entry == "create_cooler":
            create_cooler(p, T.bins, stream, ordered=False, symmetric_upper=tril is not None, mergebuf=10 ** 6, **kw)
        else:
            from cooler.create import create_from_unordered
            create_from_unordered(p, T.bins, stream, symmetric_upper=tril is not None, mergebuf=10 ** 6, **kw)
        return read_pixels(p)
    res = guarded(B, "record-to-pixel.create_cooler", case, build, kind)
    if res is not None:
        tot, dup = res
        B.check("record-to-pixel.create_cooler", not dup and dict(tot) == dict(model) and sum(tot.values()) == retained,
                case, _diff(tot, model), "recount", nontrivial=retained > 0, signature=f"record-to-pixel.create_cooler:{kind}")


# (max_merge, number of chunks): more chunks than one merge pass takes (two-pass merge); chunk counts that are not
# multiples of max_merge, multiples as controls, and counts at / below max_merge (single pass) as controls
MANY_CHUNKS_QUICK = [(5, 7), (5, 11), (5, 10), (2, 3), (2, 5), (3, 7), (3, 4), (2, 4), (5, 6), (3, 3)]
MANY_CHUNKS_MORE = [(2, 7), (2, 9), (3, 5), (3, 8), (3, 10), (5, 8), (5, 9), (5, 13), (5, 15), (5, 16), (4, 9), (7, 11), (1, 3), (1, 4)]


def take_chunks(recs, k, cs):
    """a prefix of `recs` (cycled if short) that splits into exactly k chunks of size cs, the last one short"""
    n = cs * (k - 1) + max(1, cs // 2)
    out = [recs[i % len(recs)] for i in range(n)]
    assert -(-len(out) // cs) == k
    return out


def many_chunks(B, T, combos, loaders=("api", "cload-pairs", "load-bg2", "load-coo")):
    """no chunk is lost when the ingest needs the two-pass merge: chunks > --max-merge"""
    binsp = write_bins(B, T)
    cs = 6
    pool = pairs_multiset(T, B.rng, extra_dups=4)
    P = [(i, j) for i in range(T.n) for j in range(i, T.n)]
    for ci, (mm, k) in enumerate(combos):
        z = ci % 2
        mode = ("unique", "square", "duplex")[ci % 3]
        tril = MODE_TRIL[mode]
        sfx = ":chunks-exceed-max-merge" if k > mm else ""
        # ---- python API: sanitize + aggregate pipelines into create_cooler(ordered=False) / create_from_unordered
        if "api" in loaders:
            rr = shift(take_chunks(pool, k, cs), z)
            model, retained = recount(T, rr, z, tril)
            _e2e(B, T, z, tril, rr, "shuffled", cs, model, retained, max_merge=mm, entry=("create_cooler", "create_from_unordered")[ci % 2])
        # ---- cooler cload pairs
        if "cload-pairs" in loaders:
            recs = shift(take_chunks(pool, k, cs), z)
            model = recount(T, recs, z, tril)
            inp = write_rows(B.path("mm.pairs"), recs)
            out = fresh(B, "mm.cool")
            args = ["cload", "pairs", "-c1", 1, "-p1", 2, "-c2", 3, "-p2", 4, "--chunksize", cs, "--mergebuf", 10 ** 6, "--max-merge", mm] + \
                MODE_FLAGS[mode] + (["-0"] if not z else []) + [binsp, inp, out]
            cli_outcome(B, "record-to-pixel.cload-pairs", dict(table=T.name, mode=mode, one_based=z, chunksize=cs, chunks=k, max_merge=mm,
                                                               seed=B.seed, rows=[list(r) for r in recs]),
                        args, out, model, T.kind + sfx, retained=model[1])
        # ---- cooler load: consecutive rows name different pixels (no pixel twice within a chunk), pixels recur across chunks
        if ("load-bg2" in loaders or "load-coo" in loaders) and len(P) >= cs:
            n = cs * (k - 1) + cs // 2
            binrecs = []
            for r in range(n):
                i, j = P[r % len(P)]
                if mode != "unique" and (r // len(P)) % 2:
                    i, j = j, i              # lower-triangle copies: dropped (duplex) or distinct pixels (square)
                elif mode == "unique" and r % 2:
                    i, j = j, i              # written with side 2 first: mirrored
                binrecs.append((i, j))
            vals = [2 ** (r // cs) % 1009 + r % 3 for r in range(n)]       # each chunk contributes different values
            if "load-bg2" in loaders:
                recs = [(T.rows[i][0], T.rows[i][1] + z, T.rows[j][0], T.rows[j][1] + z) for i, j in binrecs]
                rows = [(n1, p1, p1 + 1, n2, p2, p2 + 1, v) for (n1, p1, n2, p2), v in zip(recs, vals)]
                inp = write_rows(B.path("mm.bg2"), rows)
                out = fresh(B, "mm.cool")
                args = ["load", "-f", "bg2", binsp, inp, out, "--chunksize", cs, "--mergebuf", 10 ** 6, "--max-merge", mm] + MODE_FLAGS[mode] + \
                    (["--one-based"] if z else [])
                cli_outcome(B, "record-to-pixel.load-bg2", dict(table=T.name, mode=mode, one_based=z, chunksize=cs, chunks=k, max_merge=mm,
                                                                rows=[list(r) for r in rows]),
                            args, out, recount(T, recs, z, tril, vals), T.kind + sfx)
            if "load-coo" in loaders and ci % 2 == 0:
                rows = [(i + z, j + z, v) for (i, j), v in zip(binrecs, vals)]
                exp = Counter()
                for (i, j), v in zip(binrecs, vals):
                    e = expect_pixel(T.n, (i, j), 0, tril)
                    if e[0] == "pixel":
                        exp[(e[1], e[2])] += v
                inp = write_rows(B.path("mm.coo"), rows)
                out = fresh(B, "mm.cool")
                args = ["load", "-f", "coo", binsp, inp, out, "--chunksize", cs, "--mergebuf", 10 ** 6, "--max-merge", mm] + MODE_FLAGS[mode] + \
                    (["--one-based"] if z else [])
                cli_outcome(B, "record-to-pixel.load-coo", dict(table=T.name, mode=mode, one_based=z, chunksize=cs, chunks=k, max_merge=mm,
                                                                rows=[list(r) for r in rows]),
                            args, out, (exp, None), "coo" + sfx)


if __name__ == "__main__":
    sys.exit(main())
