"""C06 bounded stand-in: unordered ingestion (create_from_unordered / create_cooler(ordered=False) /
`cooler load`) on the REAL code against an in-memory group-by of all records.

Every run is described by a JSON-able *spec* (bins, storage mode, the chunks with their records in
arrival order, mergebuf, max_merge, input form, ...).  For each spec the library is run end to end
and the raw HDF5 datasets of the result are compared with a plain-python aggregate of the multiset
union of the chunks.  The temp directory is listed after every successful run.

Property clauses -> contracts
  result == aggregate of all records            ingest==in-memory-aggregate  (+ ingest-completes)
  independent of split/order/buffer/passes      independent-of-split-order-buffer-passes (cross-run)
  repeated pixels combined with the column agg  (same equality; extra float column is summed too)
  no temp file outlives a successful run        no-temp-file-outlives-run
  (design invariant, plan excerpt)              temp-coolers-hold-chunks-and-groups-tile (delete_temp=False)
"""
import sys, os
sys.path.insert(0, os.path.dirname(os.path.dirname(os.path.abspath(__file__))))
import itertools
import json
import math
import shutil
import traceback
import warnings
warnings.filterwarnings("ignore")
import numpy as np
import pandas as pd
import h5py
import cooler
from cooler.create import create_from_unordered
from bounded.common import *

# NOTE: dask must NOT be imported here: the very first ingest of the process is evaluated "cold"
# (see cold_first_call) because create() imports dask.dataframe lazily.


# ---------------------------------------------------------------- bookkeeping
class B6(Bounded):
    """Bounded with a per-signature cap on recorded violations (a known failure class must not use up
    the global cap of common.Bounded and hide a new class) and failure counts per signature."""
    per_signature = 2

    def __init__(self, *a):
        super().__init__(*a)
        self.max_violations = 60
        self.sig_counts = {}

    def fail(self, contract, case, observed, expected, signature=None):
        sig = signature or contract
        self.sig_counts[sig] = self.sig_counts.get(sig, 0) + 1
        if self.sig_counts[sig] > self.per_signature:
            self.evaluations += 1
            self.contracts[contract] = self.contracts.get(contract, 0) + 1
            return
        super().fail(contract, case, observed, expected, sig)

    def finish(self):
        shutil.rmtree(self.tmp, ignore_errors=True)
        out = {"property": self.pid, "tier": self.tier, "seed": self.seed, "bound": self.bound, "rule": self.rule,
               "evaluations": self.evaluations, "distinct_nontrivial": len(self.nontrivial),
               "exhaustive": self.exhaustive, "samples": self.samples[:8], "violations": self.violations,
               "failures_by_signature": self.sig_counts,
               "contracts_evaluated": self.contracts, "wall_s": round(time.time() - self.t0, 2)}
        print(json.dumps(out, default=str))
        return 0


def R(contract, ok, case, observed=None, expected=None, nontrivial=True, signature=None):
    return dict(contract=contract, ok=bool(ok), case=case, observed=observed, expected=expected,
                nontrivial=bool(nontrivial), signature=signature)


def feed(B, results):
    for r in results:
        if r["ok"]:
            B.ok(r["contract"], r["case"], r["nontrivial"])
        else:
            B.fail(r["contract"], r["case"], r["observed"], r["expected"], r["signature"])


# ---------------------------------------------------------------- scope helpers
def bins_for(n):
    """n=2: one chromosome of two 10bp bins; n=3: c1 with two bins + c2 with one bin (fixed width 10)"""
    if n == 2:
        rows = [("c1", 0, 10), ("c1", 10, 20)]
    elif n == 3:
        rows = [("c1", 0, 10), ("c1", 10, 20), ("c2", 0, 10)]
    else:
        rows = [("c1", 10 * i, 10 * i + 10) for i in range(n)]
    return pd.DataFrame(rows, columns=["chrom", "start", "end"])


def keys_for(n, mode):
    return [(i, j) for i in range(n) for j in range(n) if mode == "square" or i <= j]


def has_inchunk_dup(chunk):
    ks = [(r[0], r[1]) for r in chunk]
    return len(ks) != len(set(ks))


def make_spec(nbins, mode, chunks, mergebuf, max_merge, **kw):
    """chunks: list of lists of [bin1, bin2, value] in arrival order"""
    chunks = [[list(map(int, r)) for r in c] for c in chunks]
    # a chunk is a pixel table: each pixel at most once per chunk (the statement speaks of pixels repeated ACROSS chunks;
    # a chunk that itself repeats a pixel is refused by the default dupcheck, so such chunks are outside the quantifier)
    assert not any(has_inchunk_dup(c) for c in chunks), chunks
    spec = dict(kind="ingest", nbins=nbins, mode=mode, chunks=chunks, mergebuf=int(mergebuf), max_merge=int(max_merge),
                form="df", presorted=True, extra=False, delete_temp=True, temp_dir="default", dupcheck=True)
    spec.update(kw)
    return spec


def chunk_frame(recs, spec):
    recs = sorted(recs, key=lambda r: (r[0], r[1]))          # "each chunk internally sorted"
    if not spec["presorted"]:
        recs = recs[::-1]                                     # "... or sorting requested" (ensure_sorted=True)
    d = {"bin1_id": np.array([r[0] for r in recs], dtype=np.int64),
         "bin2_id": np.array([r[1] for r in recs], dtype=np.int64),
         "count": np.array([r[2] for r in recs], dtype=np.int64)}
    if spec["extra"]:
        d["score"] = np.array([0.5 * r[2] for r in recs], dtype=np.float64)   # exactly representable, sums exact
    return d if spec["form"] == "dict" else pd.DataFrame(d)


def aggregate(chunks):
    """the specification: sum of all records per pixel, sorted by (bin1, bin2)"""
    agg = {}
    for c in chunks:
        for b1, b2, v in c:
            agg[(b1, b2)] = agg.get((b1, b2), 0) + v
    return [[k[0], k[1], agg[k]] for k in sorted(agg)]


def read_raw(path, group="/", extra=False):
    with h5py.File(path, "r") as f:
        g = f[group]
        out = dict(bin1=g["pixels/bin1_id"][:].tolist(), bin2=g["pixels/bin2_id"][:].tolist(),
                   count=g["pixels/count"][:].tolist(), count_dtype=str(g["pixels/count"].dtype),
                   offset=g["indexes/bin1_offset"][:].tolist(), attrs={k: (v.item() if hasattr(v, "item") else v)
                                                                     for k, v in g.attrs.items()},
                   nbins=len(g["bins/start"]), bins=list(zip(g["bins/start"][:].tolist(), g["bins/end"][:].tolist())),
                   lens={k: len(g["pixels"][k]) for k in g["pixels"]})
        if extra:
            out["score"] = g["pixels/score"][:].tolist()
    return out


def empty_epoch_expected(L, b):
    """LABELLING ONLY (never decides pass/fail): does a buffer-bounded row partition of a merge whose combined number of
    records per bin1 row is L contain an epoch without records?  With the documented greedy rule (an epoch is extended
    while it holds <= b records; a single row with > b records forms its own epoch) an epoch starts on an empty row only at
    row 0 or right after an over-buffer row, and it stays empty iff the next non-empty row is itself over-buffer."""
    n = len(L)
    for r in range(n):
        if L[r] > b and r > 0 and L[r - 1] == 0:
            e = r
            while e > 0 and L[e - 1] == 0:
                e -= 1
            if e == 0 or L[e - 1] > b:
                return True
    return False


def _rowlens(chunks, nbins, distinct=False):
    L = [0] * nbins
    seen = set()
    for c in chunks:
        for r in c:
            if distinct and (r[0], r[1]) in seen:
                continue
            seen.add((r[0], r[1]))
            L[r[0]] += 1
    return L


def input_kind(spec):
    """kind of input, computed from the input alone; used in failure signatures"""
    ch = spec["chunks"]
    n = len(ch)
    nb = spec.get("nbins", 3)
    b = spec.get("mergebuf") or 10 ** 9
    total = sum(len(c) for c in ch)
    two = n > spec["max_merge"] > 0
    if two and n <= 3:
        return "two-pass-with-2-or-3-chunks"
    if total == 0:
        return "all-chunks-empty"
    if not two:
        e = empty_epoch_expected(_rowlens(ch, nb), b)
    else:
        # first level: some contiguous group of chunks; second level: over-approximated by the all-chunk row lengths
        e = any(empty_epoch_expected(_rowlens(ch[i:j], nb), b) for i in range(n) for j in range(i + 1, n + 1))
        e = e or empty_epoch_expected(_rowlens(ch, nb, distinct=True), b)
    return "merge-epoch-without-records" if e else ("two-pass" if two else "one-pass")


def exc_signature(contract, e, spec):
    fn = "?"
    for fr in traceback.extract_tb(e.__traceback__):
        f = fr.filename.replace("\\", "/")
        if "/cooler/" in f:
            fn = f"{os.path.basename(f)}:{fr.name}"
    return f"{contract}:{type(e).__name__}@{fn}:{input_kind(spec)}"


# ---------------------------------------------------------------- one end-to-end run
def run_ingest(spec, workdir, cold=False):
    res = []
    rundir = os.path.join(workdir, "run")
    shutil.rmtree(rundir, ignore_errors=True)
    os.makedirs(rundir)
    out = os.path.join(rundir, "out.cool")
    n = spec["nbins"]
    symm = spec["mode"] == "upper"
    bins = bins_for(n)
    frames = [chunk_frame(c, spec) for c in spec["chunks"]]
    expected = aggregate(spec["chunks"])
    nt = len(expected) > 0
    kw = dict(mergebuf=spec["mergebuf"], max_merge=spec["max_merge"], delete_temp=spec["delete_temp"],
              dupcheck=spec["dupcheck"], ensure_sorted=not spec["presorted"], symmetric_upper=symm, triucheck=symm)
    tdirs = [rundir]
    if spec["temp_dir"] == "explicit":
        td = os.path.join(rundir, "tmpdir")
        os.makedirs(td)
        kw["temp_dir"] = td
        tdirs.append(td)
    if spec["extra"]:
        kw["columns"] = ["count", "score"]
    try:
        stream = (f for f in frames)           # a one-shot stream of chunks
        if spec["form"] == "create_cooler":
            cooler.create_cooler(out, bins, stream, ordered=False, **kw)
        else:
            create_from_unordered(out, bins, stream, **kw)
    except Exception as e:
        res.append(R("ingest-completes", False, spec, f"{type(e).__name__}: {e}\n{traceback.format_exc(limit=-4)}",
                     "no exception", nt, exc_signature("ingest-completes", e, spec)))
        shutil.rmtree(rundir, ignore_errors=True)
        return res, None
    res.append(R("ingest-completes", True, spec, nontrivial=nt))
    kind = input_kind(spec)
    raw = read_raw(out, extra=spec["extra"])
    got = [list(t) for t in zip(raw["bin1"], raw["bin2"], raw["count"])]
    same = got == expected
    if spec["extra"]:
        same = same and raw["score"] == [0.5 * r[2] for r in expected]
    res.append(R("ingest==in-memory-aggregate", same, spec, got, expected, nt, f"ingest==in-memory-aggregate:{kind}"))
    # the stored index / info agree with an independent recomputation from the expected table
    exp_off = [sum(1 for r in expected if r[0] < i) for i in range(n + 1)]
    a = raw["attrs"]
    info_ok = (raw["offset"] == exp_off and a.get("nnz") == len(expected) and a.get("sum") == sum(r[2] for r in expected)
               and a.get("nbins") == n and a.get("storage-mode") == ("symmetric-upper" if symm else "square")
               and set(raw["lens"].values()) == {len(expected)}       # every pixel column has exactly nnz rows
               and raw["bins"] == [(int(s), int(e)) for s, e in zip(bins["start"], bins["end"])])
    res.append(R("index-and-info-consistent", info_ok, spec,
                 dict(offset=raw["offset"], attrs={k: a.get(k) for k in ("nnz", "sum", "nbins", "storage-mode")}, lens=raw["lens"]),
                 dict(offset=exp_off, nnz=len(expected), sum=sum(r[2] for r in expected), nbins=n), nt,
                 f"index-and-info-consistent:{kind}"))
    # temp files
    left = sorted(os.path.join(os.path.relpath(d, rundir), f) for d in tdirs for f in os.listdir(d)
                  if not (d == rundir and f in ("out.cool", "tmpdir")))
    if spec["delete_temp"]:
        sig = "no-temp-file-outlives-run" + (":cold-first-call-of-process(lazy dask import retains the frame)" if cold else f":{kind}")
        res.append(R("no-temp-file-outlives-run", not left, spec, left, [], True, sig))
    else:
        res.append(check_temp_coolers(spec, rundir, tdirs, left, kind))
    shutil.rmtree(rundir, ignore_errors=True)
    return res, got


def check_temp_coolers(spec, rundir, tdirs, left, kind):
    """delete_temp=False: the sort-pass file holds group i == chunk i (aggregated); if a second pass was needed
    (n > max_merge) the second file's groups 'lo-hi' are non-empty, tile [0,n) and hold the aggregate of chunks lo..hi-1"""
    nchunks = len(spec["chunks"])
    problems = []
    files = [os.path.join(rundir, p) for p in left]
    first = [p for p in files if _has_group(p, "0")]
    second = [p for p in files if p not in first]
    if len(first) != 1:
        problems.append(f"expected exactly one sort-pass temp file, found {len(first)} among {left}")
    else:
        with h5py.File(first[0], "r") as f:
            names = sorted(f.keys(), key=lambda s: int(s))
        if names != [str(i) for i in range(nchunks)]:
            problems.append(f"sort-pass groups {names}")
        else:
            for i in range(nchunks):
                raw = read_raw(first[0], str(i))
                got = [list(t) for t in zip(raw["bin1"], raw["bin2"], raw["count"])]
                want = [list(r) for r in sorted(spec["chunks"][i], key=lambda r: (r[0], r[1]))]
                if got != want:
                    problems.append(f"temp cooler {i} holds {got}, chunk is {want}")
    two_pass = nchunks > spec["max_merge"] > 0
    if two_pass:
        if len(second) != 1:
            problems.append(f"n={nchunks} > max_merge={spec['max_merge']} but {len(second)} second-level temp files")
        else:
            with h5py.File(second[0], "r") as f:
                names = list(f.keys())
            ivs = sorted(tuple(int(x) for x in nm.split("-")) for nm in names)
            pos = 0
            for lo, hi in ivs:
                if lo != pos or hi <= lo:
                    problems.append(f"groups {ivs} do not tile [0,{nchunks})")
                    break
                pos = hi
            else:
                if pos != nchunks or not ivs:
                    problems.append(f"groups {ivs} do not tile [0,{nchunks})")
            for lo, hi in ivs:
                raw = read_raw(second[0], f"{lo}-{hi}")
                got = [list(t) for t in zip(raw["bin1"], raw["bin2"], raw["count"])]
                want = aggregate(spec["chunks"][lo:hi])
                if got != want:
                    problems.append(f"group {lo}-{hi} holds {got}, expected {want}")
    elif second:
        problems.append(f"single pass expected but extra temp files {second}")
    return R("temp-coolers-hold-chunks-and-groups-tile", not problems, spec, problems, [], True,
             f"temp-coolers-hold-chunks-and-groups-tile:{kind}")


def _has_group(path, name):
    try:
        with h5py.File(path, "r") as f:
            return name in f
    except Exception:
        return False


# ---------------------------------------------------------------- `cooler load` in-process
def run_cli_load(spec, workdir):
    """spec: kind=cli-load, nbins, mode, lines [[b1,b2,v]...] in file order, chunksize, mergebuf (or None), max_merge (or None)"""
    from click.testing import CliRunner
    from cooler.cli import cli
    res = []
    rundir = os.path.join(workdir, "run")
    shutil.rmtree(rundir, ignore_errors=True)
    os.makedirs(rundir)
    n = spec["nbins"]
    symm = spec["mode"] == "upper"
    bins_for(n).to_csv(os.path.join(rundir, "bins.bed"), sep="\t", header=False, index=False)
    with open(os.path.join(rundir, "pix.txt"), "w") as f:
        for b1, b2, v in spec["lines"]:
            f.write(f"{b1}\t{b2}\t{v}\n")
    out = os.path.join(rundir, "out.cool")
    args = ["load", "-f", "coo", "--chunksize", str(spec["chunksize"])]
    if spec.get("mergebuf") is not None:
        args += ["--mergebuf", str(spec["mergebuf"])]
    if spec.get("max_merge") is not None:
        args += ["--max-merge", str(spec["max_merge"])]
    if not symm:
        args += ["-N"]
    args += [os.path.join(rundir, "bins.bed"), os.path.join(rundir, "pix.txt"), out]
    # specification: lower-triangle input of a symmetric matrix is reflected (input-copy-status=unique), then summed
    recs = [[min(b1, b2), max(b1, b2), v] if symm else [b1, b2, v] for b1, b2, v in spec["lines"]]
    expected = aggregate([recs])
    cs = spec["chunksize"]
    nchunks = max(1, math.ceil(len(recs) / cs))
    pseudo = dict(chunks=[recs[i:i + cs] for i in range(0, len(recs), cs)] or [[]], nbins=n,
                  mergebuf=spec.get("mergebuf") if spec.get("mergebuf") is not None else cs,
                  max_merge=spec.get("max_merge") if spec.get("max_merge") is not None else 200)
    kind = "cli-load," + input_kind(pseudo)
    r = CliRunner().invoke(cli, args)
    if r.exit_code != 0 or r.exception is not None:
        e = r.exception
        sig = exc_signature("cli-load-completes", e, pseudo) if isinstance(e, Exception) and e.__traceback__ is not None \
            else f"cli-load-completes:exit{r.exit_code}:{kind}"
        res.append(R("cli-load-completes", False, spec, f"exit {r.exit_code}: {type(e).__name__}: {e}\n{r.output[-600:]}",
                     "exit 0", True, sig))
        shutil.rmtree(rundir, ignore_errors=True)
        return res, None
    res.append(R("cli-load-completes", True, spec))
    raw = read_raw(out)
    got = [list(t) for t in zip(raw["bin1"], raw["bin2"], raw["count"])]
    a = raw["attrs"]
    exp_off = [sum(1 for x in expected if x[0] < i) for i in range(n + 1)]
    res.append(R("cli-load==in-memory-aggregate",
                 got == expected and raw["offset"] == exp_off and a.get("nnz") == len(expected)
                 and a.get("sum") == sum(x[2] for x in expected), spec,
                 dict(pixels=got, offset=raw["offset"], nnz=a.get("nnz"), sum=a.get("sum")), expected, True,
                 f"cli-load==in-memory-aggregate:{kind}"))
    left = sorted(f for f in os.listdir(rundir) if f not in ("out.cool", "bins.bed", "pix.txt"))
    res.append(R("no-temp-file-outlives-run", not left, spec, left, [], True, f"no-temp-file-outlives-run:{kind}"))
    shutil.rmtree(rundir, ignore_errors=True)
    return res, got


class RunTimeout(Exception):
    pass


def _alarm(signum, frame):
    raise RunTimeout("run exceeded 60 s")


def run_spec(spec, workdir, cold=False):
    import signal
    old = signal.signal(signal.SIGALRM, _alarm)
    signal.alarm(60)          # a non-terminating merge plan becomes a recorded failure instead of a hang
    try:
        if spec["kind"] == "cli-load":
            return run_cli_load(spec, workdir)
        return run_ingest(spec, workdir, cold)
    except RunTimeout as e:
        return [R("ingest-completes", False, spec, "no result after 60 s", "termination", True, "ingest-completes:timeout")], None
    except Exception as e:   # a bug in the runner itself or an unreadable output file
        return [R("runner-internal", False, spec, f"{type(e).__name__}: {e}\n{traceback.format_exc(limit=-5)}", "no exception",
                  True, f"runner-internal:{type(e).__name__}")], None
    finally:
        signal.alarm(0)
        signal.signal(signal.SIGALRM, old)


# ---------------------------------------------------------------- multiprocessing (thorough only)
_WD = None


def _preimport_dask():
    try:
        import dask.dataframe  # noqa: F401  (the cold-first-call effect is evaluated once, in the parent)
    except Exception:
        pass


def _winit(base):
    global _WD
    warnings.filterwarnings("ignore")
    _preimport_dask()
    _WD = os.path.join(base, f"w{os.getpid()}")
    os.makedirs(_WD, exist_ok=True)


def _wrun(spec):
    return run_spec(spec, _WD)


# ---------------------------------------------------------------- enumeration
def assignments(r, m):
    """all ways to put r distinguishable records into m ordered chunks (empty chunks allowed): every partition into
    <= m chunks in every chunk order"""
    return itertools.product(range(m), repeat=r)


def multisets(keys, r):
    return itertools.combinations_with_replacement(keys, r)


def partition_specs(nbins, mode, max_rec, max_chunks, combos, counter, max_chunks_for=None):
    """all multisets of <= max_rec records over the keys x all assignments to m <= max_chunks ordered chunks;
    record i carries value 2**i so a dropped or double-counted record is identifiable; (mergebuf, max_merge) cycles
    through `combos` (len(combos) consecutive specs cover every combo)"""
    keys = keys_for(nbins, mode)
    for r in range(0, max_rec + 1):
        for ms in multisets(keys, r):
            recs = [[k[0], k[1], 2 ** i] for i, k in enumerate(ms)]
            mc = max_chunks if max_chunks_for is None else max_chunks_for(r)
            for m in range(1, mc + 1):
                for asg in assignments(r, m):
                    chunks = [[] for _ in range(m)]
                    for rec, c in zip(recs, asg):
                        chunks[c].append(rec)
                    if any(has_inchunk_dup(c) for c in chunks):
                        continue                      # outside the quantifier, see make_spec
                    mb, mm = combos[counter[0] % len(combos)]
                    counter[0] += 1
                    yield make_spec(nbins, mode, chunks, mb, mm)


# fixed 5-record multisets over 3 bins (values are powers of two)
R5A = [[0, 0, 1], [0, 1, 2], [0, 0, 4], [2, 2, 8], [0, 2, 16]]      # row 0 holds 4 records, row 1 empty, last row used
R5B = [[1, 1, 1], [1, 2, 2], [2, 2, 4], [1, 1, 8], [1, 2, 16]]      # leading empty row, repeated pixels
R5S = [[2, 0, 1], [0, 2, 2], [1, 1, 4], [2, 0, 8], [0, 0, 16]]      # square mode: lower-triangle records
R5C = [[0, 2, 1], [1, 1, 2], [0, 2, 4], [1, 2, 8], [0, 2, 16]]      # one pixel three times


def round_robin(recs, n, empty_at=None):
    """record i goes to chunk i mod n (skipping `empty_at`), moved on to the next chunk that does not hold its pixel yet;
    a record that fits nowhere (fewer chunks than copies of the pixel) is left out"""
    chunks = [[] for _ in range(n)]
    slots = [i for i in range(n) if i != empty_at] or [0]
    for i, r in enumerate(recs):
        for d in range(len(slots)):
            c = chunks[slots[(i + d) % len(slots)]]
            if not any((x[0], x[1]) == (r[0], r[1]) for x in c):
                c.append(r)
                break
    return chunks


def plan_specs(recs, mode, ns, mms, mbs, **kw):
    for n in ns:
        for mm in mms:
            for mb in mbs:
                yield make_spec(3, mode, round_robin(recs, n), mb, mm, **kw)


def many_chunk_specs(ns, mms, mbs, **kw):
    """n >= 9 chunks: the two-level plan has more than one first-level group only from 9 chunks on (isqrt(n) edges).
    chunk i holds record i (pixel i mod 6 of the 3-bin upper triangle, value 2**i); every third chunk a second record"""
    keys = keys_for(3, "upper")
    for n in ns:
        chunks = []
        for i in range(n):
            c = [[keys[i % 6][0], keys[i % 6][1], 2 ** i]]
            if i % 3 == 0:
                k = keys[(i + 2) % 6]
                c.append([k[0], k[1], 2 ** (18 + i // 3)])
            chunks.append(c)
        for mm in mms:
            for mb in mbs:
                yield make_spec(3, "upper", chunks, mb, mm, **kw)


def group_key(spec):
    """runs with the same key ingest the same multiset of records in the same storage mode"""
    if spec["kind"] == "cli-load":
        symm = spec["mode"] == "upper"
        recs = sorted([min(a, b), max(a, b), v] if symm else [a, b, v] for a, b, v in spec["lines"])
    else:
        recs = sorted(r for c in spec["chunks"] for r in c)
    return json.dumps([spec["nbins"], spec["mode"], recs])


def main():
    B = B6("C06", "bounded/C06.py")
    work = B.path("work")
    os.makedirs(work)
    if B.replay_file:
        rec = json.load(open(B.replay_file))
        cold = "cold-first-call" in str(rec.get("signature", ""))
        if not cold:
            _preimport_dask()     # only the cold case is replayed cold
        case = rec["case"]
        res = []
        for c in ([case["reference"], case["this"]] if "this" in case else [case]):
            r, got = run_spec(c, work, cold=cold)
            res += r
            if "this" in case:
                print("pixel table:", got)
        for r in res:
            print(("ok   " if r["ok"] else "FAIL ") + r["contract"], "" if r["ok"] else f"\n  observed: {r['observed']}\n  expected: {r['expected']}\n  signature: {r['signature']}")
        feed(B, res)
        return B.finish()

    specs = []
    counter = [0]
    if not B.thorough:
        combos = [(mb, mm) for mb in (1, 2, 3, 4) for mm in (200, 3, 1, 3, 200, 2, 200, 3)]
        # exhaustive small scope: 2 bins, <= 3 records, <= 3 ordered chunks (each chunk holding a pixel at most once)
        specs += list(partition_specs(2, "upper", 3, 3, combos, counter))
        # plan x buffer sweep on fixed 5-record multisets over 3 bins
        specs += list(plan_specs(R5A, "upper", range(1, 6), range(1, 6), (1, 3, 6)))
        specs += list(plan_specs(R5B, "upper", (1, 4, 5), (1, 2, 5), (1, 2, 4, 6)))
        specs += list(plan_specs(R5S, "square", (1, 2, 4), (1, 200), (1, 2, 6)))
        specs += list(plan_specs(R5C, "upper", (2, 4), (1, 5), (2, 6), extra=True))
        specs += list(plan_specs(R5A, "upper", (2, 5), (1, 5), (2, 6), presorted=False))
        specs += list(plan_specs(R5C, "upper", (3, 4), (2, 4), (3,), form="dict"))
        specs += list(plan_specs(R5A, "upper", (1, 4), (2, 4), (5,), form="create_cooler", temp_dir="explicit"))
        specs += [make_spec(3, "upper", round_robin(R5A, 5, empty_at=e), mb, mm) for e in (0, 2, 4) for mb, mm in ((2, 5), (6, 2))]
        specs += list(plan_specs(R5A, "upper", (1, 4, 5), (1, 2, 5), (4,), delete_temp=False))
        specs += list(plan_specs(R5C, "upper", (4, 5), (1, 3), (2,), delete_temp=False))
        specs += list(many_chunk_specs((9, 10), (2, 8), (2, 40)))
        specs += list(many_chunk_specs((16,), (3,), (5,)))
        specs += list(many_chunk_specs((9,), (4,), (3,), delete_temp=False))
        cli_lines = [[2, 0, 1], [0, 1, 2], [1, 1, 4], [0, 2, 8], [0, 1, 16]]
        for cs in range(1, 7):
            if any(has_inchunk_dup([[min(a, b), max(a, b), v] for a, b, v in cli_lines[i:i + cs]]) for i in range(0, 5, cs)):
                continue    # `cooler load` refuses a chunk that repeats a pixel (documented): outside the quantifier
            for mb, mm in ((None, None), (2, None), (6, 2), (3, 1)):
                specs.append(dict(kind="cli-load", nbins=3, mode="upper", lines=cli_lines, chunksize=cs, mergebuf=mb, max_merge=mm))
        specs.append(dict(kind="cli-load", nbins=3, mode="square", lines=cli_lines, chunksize=2, mergebuf=3, max_merge=2))
        B.bound = ("EXHAUSTIVE: all multisets of <=3 records over 2 bins (symmetric-upper) x all assignments to ordered chunks "
                   "(<=3 chunks; every partition in every chunk order, with empty chunks and chunks repeating a pixel of another chunk; "
                   "a chunk holds each pixel at most once), "
                   "(mergebuf,max_merge) cycled over {1,2,3,4}x{200,3,1,3,200,2,200,3}; fixed 5-record multisets over 3 bins x n_chunks 1..5 x "
                   "max_merge 1..5 x mergebuf {1,3,6} (+ leading-empty-row, square, extra float column, ensure_sorted, dict chunks, "
                   "create_cooler(ordered=False)+explicit temp_dir, empty chunk positions, delete_temp=False sub-sweeps); 9, 10 and 16 chunks "
                   "(several first-level merge groups) x max_merge {2,8} x mergebuf {2,40}; "
                   "`cooler load -f coo` chunksize 1..6 x 4 (mergebuf,max-merge) settings")
    else:
        grid = [(mb, mm) for mb in range(1, 7) for mm in range(1, 6)]
        # exhaustive: 3 bins, <=3 records, <=3 chunks, 3 passes with different offsets into the (mergebuf,max_merge) grid
        for rep in range(3):
            counter[0] = rep * 7
            specs += list(partition_specs(3, "upper", 3, 3, grid, counter))
        counter[0] = 3
        specs += list(partition_specs(2, "upper", 4, 4, grid, counter))
        counter[0] = 11
        specs += list(partition_specs(2, "square", 3, 3, grid, counter))
        for recs, mode in ((R5A, "upper"), (R5B, "upper"), (R5C, "upper"), (R5S, "square")):
            specs += list(plan_specs(recs, mode, range(1, 6), range(1, 6), range(1, 7)))
        specs += list(plan_specs(R5S, "square", (1, 2, 3, 4, 5), (200,), (1, 2, 6)))
        for kw in (dict(extra=True), dict(presorted=False), dict(form="dict"), dict(form="create_cooler", temp_dir="explicit"),
                   dict(delete_temp=False)):
            specs += list(plan_specs(R5C if kw.get("extra") or kw.get("delete_temp") is False else R5A, "upper",
                                     range(1, 6), range(1, 6), (2, 4, 6), **kw))
        specs += [make_spec(3, "upper", round_robin(R5A, n, empty_at=e), mb, mm)
                  for n in (2, 3, 4, 5) for e in range(n) for mb, mm in ((2, 5), (6, 2), (3, 1), (6, 200))]
        specs += list(many_chunk_specs(range(6, 18), (1, 3, 8), (1, 2, 5, 40)))
        specs += list(many_chunk_specs((9, 12, 16), (2, 5), (3,), delete_temp=False))
        cli_lines = [[2, 0, 1], [0, 1, 2], [1, 1, 4], [0, 2, 8], [0, 1, 16]]
        for mode in ("upper", "square"):
            for cs in range(1, 7):
                if any(has_inchunk_dup([[min(a, b), max(a, b), v] if mode == "upper" else [a, b, v] for a, b, v in cli_lines[i:i + cs]])
                       for i in range(0, 5, cs)):
                    continue
                for mb in (None, 1, 2, 3, 6):
                    for mm in (None, 1, 2, 3):
                        specs.append(dict(kind="cli-load", nbins=3, mode=mode, lines=cli_lines, chunksize=cs, mergebuf=mb, max_merge=mm))
        # seeded sampling of the plan's full scope: <=5 records over 3 bins, <=4 chunks, mergebuf 1..6, max_merge 1..5, both modes
        nsamp = 3000
        for _ in range(nsamp):
            mode = B.rng.choice(["upper", "upper", "square"])
            keys = keys_for(3, mode)
            r = B.rng.randint(0, 5)
            m = B.rng.randint(1, 4)
            chunks = [[] for _ in range(m)]
            for i in range(r):
                k = B.rng.choice(keys)
                c = chunks[B.rng.randrange(m)]
                if not any((x[0], x[1]) == k for x in c):
                    c.append([k[0], k[1], 2 ** i])
            opt = B.rng.random()
            kw = {}
            if opt < 0.1:
                kw["presorted"] = False
            elif opt < 0.2:
                kw["form"] = "dict"
            elif opt < 0.3:
                kw["extra"] = True
            elif opt < 0.4:
                kw["delete_temp"] = False
            specs.append(make_spec(3, mode, chunks, B.rng.randint(1, 6), B.rng.choice([1, 2, 3, 4, 5, 200]), **kw))
        B.exhaustive = False
        B.bound = ("EXHAUSTIVE (chunks hold each pixel at most once): all multisets of <=3 records over 3 bins x all assignments to <=3 ordered chunks (3 offsets into the "
                   "mergebuf 1..6 x max_merge 1..5 grid each); all multisets of <=4 records over 2 bins x <=4 chunks; 2 bins square "
                   "<=3 records x <=3 chunks; four fixed 5-record multisets x n_chunks 1..5 x max_merge 1..5 x mergebuf 1..6 (+ input "
                   "form / extra column / ensure_sorted / delete_temp=False / empty-chunk-position sub-sweeps); 6..17 chunks x max_merge {1,3,8} x mergebuf {1,2,5,40}; `cooler load` "
                   f"chunksize 1..6 x mergebuf x max-merge x mode.  SAMPLED (seeded, {nsamp}): <=5 records over 3 bins x <=4 chunks x "
                   "mergebuf 1..6 x max_merge {1..5,200} x mode")
    B.rule = ("case = one end-to-end ingest (bins, mode, chunks with records in arrival order, mergebuf, max_merge, input form); "
              "non-trivial when at least one record is ingested; distinct by (contract, case)")

    # ---- the first ingest of the process, evaluated cold (dask not yet imported)
    cold_spec = make_spec(3, "upper", [[[0, 0, 1], [1, 2, 2]], [[0, 0, 4]], [[2, 2, 8]], [[0, 1, 16]]], 3, 200)
    res, _ = run_spec(cold_spec, work, cold=True)
    feed(B, res)

    # ---- all other runs
    if B.thorough:
        import multiprocessing as mp
        ctx = mp.get_context("fork")
        with ctx.Pool(min(8, os.cpu_count() or 1), initializer=_winit, initargs=(work,)) as pool:
            outcomes = pool.map(_wrun, specs, chunksize=16)
    else:
        outcomes = [run_spec(s, work) for s in specs]
    ref = {}
    for spec, (res, got) in zip(specs, outcomes):
        feed(B, res)
        # cross-run clause: every successful ingest of the same multiset gives the identical pixel table, however the
        # records were split / ordered / buffered / merged (compared run against run, not through the expected table)
        if got is not None:
            k = group_key(spec)
            if k not in ref:
                ref[k] = (got, spec)
            else:
                B.check("independent-of-split-order-buffer-passes", got == ref[k][0], dict(this=spec, reference=ref[k][1]),
                        got, ref[k][0], len(got) > 0, "independent-of-split-order-buffer-passes")
    return B.finish()


if __name__ == "__main__":
    sys.exit(main())
